"""
C06 — strings with equal UTF-16 content are indistinguishable, whatever their origin.

Run order (see vlib docstring):  regen (StrSites, threshold) -> lake build Props/Tie/model_c06 -> audit ->
go build harness -> corpus -> stream A (Go-API register machine: mechanism model vs implementation, exact
representation tags) -> stream B (JS expression-tree pairs: SPEC evaluation in Lean vs implementation,
indistinguishability battery, NF of every result) -> decision.
"""
from vlib import *
import json, os, random, concurrent.futures

PROP = "C06"

# ------------------------------------------------------------------ alphabets (UTF-16 code units)
A_ASCII = [0x61, 0x62, 0x41, 0x42, 0x78, 0x30, 0x31, 0x20, 0x09, 0x2d, 0x22, 0x5c, 0x0a, 0x01, 0x2e, 0x28, 0x7f, 0x00,
           0x24, 0x24, 0x26, 0x60, 0x27, 0x3c, 0x3e]      # `$` and the GetSubstitution selectors & ` ' < >
A_LATIN = [0xe9, 0xdf, 0xa0, 0xff, 0x80, 0xb5]
A_BMP = [0x3a3, 0x3c3, 0x3c2, 0x130, 0x2028, 0x3000, 0xfeff, 0xfffd, 0x4e2d, 0x301, 0x1e9e, 0x17f, 0x212a,
         0x7ff, 0x800, 0xd7ff, 0xe000, 0xfffe, 0xffff]
A_ASTRAL = [(0xd83d, 0xde00), (0xd801, 0xdc00), (0xd801, 0xdc28), (0xdbff, 0xdfff), (0xd800, 0xdc00)]
A_LONE = [0xd800, 0xdbff, 0xdc00, 0xdfff, 0xd83d, 0xde00]
# adjacency patterns of surrogates (H = high, L = low): H H L, H L L, L H L, H H, L L, L H (reversed pair), H L H
A_ADJ = [(0xd800, 0xd83d, 0xde00), (0xd83d, 0xde00, 0xdc00), (0xdc00, 0xd83d, 0xde00), (0xd800, 0xdbff), (0xdc00, 0xdfff),
         (0xde00, 0xd83d), (0xd83d, 0xde00, 0xd83d), (0xdbff, 0xdbff, 0xdfff), (0xd800, 0xdc00, 0xdc00)]
# code points at the edges of every encoding class (1/2/3/4-byte UTF-8, BMP/astral, surrogate block, specials):
# U+007F/0080, U+07FF/0800, U+D7FF, U+E000, U+FFFD, U+FFFE, U+FFFF, U+10000, U+10FFFF
A_BOUNDARY = [0x7f, 0x80, 0x7ff, 0x800, 0xd7ff, 0xe000, 0xfffd, 0xfffe, 0xffff, (0xd800, 0xdc00), (0xdbff, 0xdfff)]

SIG_EXPORT = "export-imported-invalid-utf8-returns-original-bytes"
SIG_LONE = "lone-surrogate-replaced-by-fffd:"


def is_hi(c): return 0xd800 <= c <= 0xdbff
def is_lo(c): return 0xdc00 <= c <= 0xdfff


def lone_surrogates(u):
    out, i = [], 0
    while i < len(u):
        c = u[i]
        if is_hi(c) and i + 1 < len(u) and is_lo(u[i + 1]):
            i += 2
            continue
        if is_hi(c) or is_lo(c):
            out.append(c)
        i += 1
    return out


def hexu(u): return "".join("%04x" % c for c in u)
def unhexu(h): return [int(h[i:i + 4], 16) for i in range(0, len(h), 4)]
def hexb(b): return bytes(b).hex()


def utf8_of_units(u):
    """UTF-8 of a unit list without lone surrogates."""
    return b"".join(bytes([c & 0xff, c >> 8]) for c in u).decode("utf-16-le").encode("utf-8")


def go_decode(bs):
    """Go's lenient UTF-8 decoding (for range) to UTF-16 units: independent re-implementation used for
    classification and as the oracle when the Lean driver is unavailable."""
    out, i, n = [], 0, len(bs)
    def cont(b): return 0x80 <= b <= 0xbf
    while i < n:
        x = bs[i]
        r, sz = 0xfffd, 1
        if x < 0x80:
            r = x
        elif 0xc2 <= x <= 0xdf:
            if i + 1 < n and cont(bs[i + 1]):
                r, sz = ((x & 0x1f) << 6) | (bs[i + 1] & 0x3f), 2
        elif 0xe0 <= x <= 0xef:
            if i + 2 < n:
                lo = 0xa0 if x == 0xe0 else 0x80
                hi = 0x9f if x == 0xed else 0xbf
                if lo <= bs[i + 1] <= hi and cont(bs[i + 2]):
                    r, sz = ((x & 0xf) << 12) | ((bs[i + 1] & 0x3f) << 6) | (bs[i + 2] & 0x3f), 3
        elif 0xf0 <= x <= 0xf4:
            if i + 3 < n:
                lo = 0x90 if x == 0xf0 else 0x80
                hi = 0x8f if x == 0xf4 else 0xbf
                if lo <= bs[i + 1] <= hi and cont(bs[i + 2]) and cont(bs[i + 3]):
                    r, sz = ((x & 7) << 18) | ((bs[i + 1] & 0x3f) << 12) | ((bs[i + 2] & 0x3f) << 6) | (bs[i + 3] & 0x3f), 4
        if r > 0xffff:
            r -= 0x10000
            out += [0xd800 + (r >> 10), 0xdc00 + (r & 0x3ff)]
        else:
            out.append(r)
        i += sz
    return out


def valid_utf8(bs):
    try:
        bytes(bs).decode("utf-8")
        return True
    except UnicodeDecodeError:
        return False


def lex_sign(a, b):
    return (a > b) - (a < b)


# ------------------------------------------------------------------ generators
class Gen:
    def __init__(self, rng, tier):
        self.rng = rng
        self.tier = tier

    def palette(self):
        r = self.rng
        p = r.sample(A_ASCII, r.randint(1, 3))
        k = r.random()
        if k < 0.30:
            return p                                  # pure ASCII family
        if k < 0.5:
            p += r.sample(A_LATIN, 1)
        if k < 0.8:
            p += r.sample(A_BMP, r.randint(1, 2))
        if r.random() < 0.5:
            p.append(r.choice(A_ASTRAL))
        if r.random() < 0.55:
            p += r.sample(A_BOUNDARY, r.randint(1, 2))
        if r.random() < 0.35:
            p += r.sample(A_LONE, r.randint(1, 2))
        if r.random() < 0.35:
            p += r.sample(A_ADJ, r.randint(1, 2))
        return p

    def units(self, pal, maxlen=5, long=False):
        r = self.rng
        n = r.randint(17, 24) if long else r.choice([0, 1, 1, 2, 2, 3, 3, 4, maxlen])
        out = []
        while len(out) < n:
            c = r.choice(pal)
            out += list(c) if isinstance(c, tuple) else [c]
        if out and r.random() < 0.2:
            # the same unit at both ends (a lone surrogate or boundary unit when the palette has one)
            special = [c for c in pal if not isinstance(c, tuple) and (c in A_LONE or c in A_BOUNDARY)]
            if special:
                e = r.choice(special)
                out = [e] + out + [e]
        if r.random() < 0.15 and any((isinstance(c, tuple) and c in A_ADJ) or c in A_LONE for c in pal):
            out = [r.choice([0xdc00, 0xdfff, 0xde00])] + out + [r.choice([0xd800, 0xdbff, 0xd83d])]   # L at start, H at end
        return out

    def leaf_for(self, u, avoid=None):
        """A leaf token for the unit list u in a random representation / construction route."""
        r = self.rng
        kinds = ["U.lit", "U.lit", "U.fcc", "U.fcp", "U.u16", "U.sb", "U.sbl", "U.sbs", "U.une", "U.tmpl"]
        if not lone_surrogates(u):
            kinds += ["U.tv", "U.tv", "U.nsv", "B.go", "B.go", "B.nsv", "B.w8", "U.jp"]
        elif r.random() < 0.02:
            kinds.append("U.jp")          # JSON.parse of an escaped lone surrogate: known finding, kept reachable
        k = r.choice([x for x in kinds if x != avoid] or kinds)
        if k.startswith("B."):
            return ("leaf", k, hexb(utf8_of_units(u)))
        return ("leaf", k, hexu(u))

    def bytes_leaf(self, pal):
        """Go string -> ToValue, mostly > 16 bytes, sometimes invalid UTF-8."""
        r = self.rng
        u = [c for c in self.units(pal, long=r.random() < 0.7) if not (is_hi(c) or is_lo(c))]
        b = bytearray(utf8_of_units(u))
        if r.random() < 0.35:
            bad = r.choice([b"\xff", b"\xfe", b"\xc0\xaf", b"\xed\xa0\x80", b"\x80", b"\xe2\x82", b"\xf0\x9f\x98", b"\xc3"])
            pos = r.choice([0, len(b), r.randint(0, len(b))])
            b[pos:pos] = bad
        return ("leaf", r.choice(["B.go", "B.go", "B.nsv", "B.w8"]), hexb(b))

    def small_int(self):
        return self.rng.choice([-9, -3, -2, -1, 0, 0, 1, 1, 2, 2, 3, 4, 5, 7, 20])

    def tree(self, pal, depth):
        r = self.rng
        if depth == 0 or r.random() < 0.22:
            if r.random() < 0.15:
                return self.bytes_leaf(pal)
            return self.leaf_for(self.units(pal, long=r.random() < 0.08))
        op = r.choice(["cat", "cat", "cat", "ccat", "tpl", "slice", "slice", "substring", "substr", "at", "charAt",
                       "padStart", "padEnd", "repeat", "trim", "trimStart", "trimEnd", "replace", "replaceAll",
                       "rreplace", "sj", "rsj", "jrt", "jstr", "id", "id"])
        sub = lambda: self.tree(pal, depth - 1)
        if op in ("cat", "ccat"):
            return ("op", op, [sub(), sub()])
        if op == "tpl":
            n = r.randint(1, 3)
            return ("op", "tpl:%d" % n, [sub() for _ in range(n)])
        if op in ("slice", "substring", "substr"):
            j = "u" if r.random() < 0.3 else str(self.small_int())
            return ("op", "%s:%d:%s" % (op, self.small_int(), j), [sub()])
        if op in ("at", "charAt"):
            return ("op", "%s:%d" % (op, self.small_int()), [sub()])
        if op in ("padStart", "padEnd"):
            return ("op", "%s:%d" % (op, r.choice([0, 2, 5, 9, 20])), [sub(), self.tree(pal, 0)])
        if op == "repeat":
            return ("op", "repeat:%d" % r.choice([0, 1, 2, 3, 5]), [sub()])
        if op in ("trim", "trimStart", "trimEnd", "jrt", "jstr"):
            return ("op", op, [sub()])
        if op in ("replace", "replaceAll", "sj"):
            pat = self.tree(pal, 0)
            return ("op", op, [sub(), pat, self.tree(pal, min(1, depth - 1))])
        if op in ("rreplace", "rsj"):
            pu = self.units(pal, maxlen=2) or [pal[0] if not isinstance(pal[0], tuple) else pal[0][0]]
            name = op if op == "rsj" else "rreplace:" + r.choice(["", "g"])
            return ("op", name, [sub(), self.leaf_for(pu), self.tree(pal, min(1, depth - 1))])
        return ("op", "id:" + r.choice(ID_FORMS), [sub()])

    def rerep(self, t):
        """Same tree, other representations/routes: equal by construction (needs no model)."""
        r = self.rng
        if t[0] == "leaf":
            _, k, p = t
            if k.startswith("B."):
                bs = bytes.fromhex(p)
                if r.random() < 0.5:
                    out = ("leaf", r.choice([x for x in ("B.go", "B.nsv", "B.w8")]), p)
                else:
                    out = self.leaf_for(go_decode(bs))
            else:
                out = self.leaf_for(unhexu(p), avoid=k)
        else:
            _, name, ch = t
            ch2 = [self.rerep(c) for c in ch]
            base = name.split(":")[0]
            if base in ("cat", "ccat") or name == "tpl:2":
                name = r.choice(["cat", "ccat", "tpl:2"])
            elif base == "sj" and r.random() < 0.3 and ch[1][0] == "leaf" and ch[1][2] != "" and ch[1][1].startswith("U."):
                name = "rsj"
            elif name == "replaceAll" and r.random() < 0.3 and ch[1][0] == "leaf" and ch[1][2] != "" and ch[1][1].startswith("U."):
                name = "rreplace:g"
            out = ("op", name, ch2)
        if r.random() < 0.3:
            out = ("op", "id:" + r.choice(ID_FORMS), [out])
        return out


ID_FORMS = ["slice0", "plus", "plusr", "str", "tpl1", "tostr", "obj", "joinc", "arr", "spread", "sub0", "concat0",
            "rep1", "pad0", "key", "mapk", "substr0", "trimid", "repl", "sym", "at"]
OPAQUE = ["lower", "upper", "norm", "normNFD", "normNFKC", "normNFKD", "llower", "lupper"]
OPAQUE_NAME = {"lower": "toLowerCase", "llower": "toLowerCase", "upper": "toUpperCase", "lupper": "toUpperCase"}
N_FIRST = list(range(16)) + list(range(100, 111))


def rpn(t):
    if t[0] == "leaf":
        return "%s:%s" % (t[1], t[2])
    return " ".join([rpn(c) for c in t[2]] + [t[1]])


def has_tok(t, pred):
    if t[0] == "leaf":
        return pred(t)
    return pred(t) or any(has_tok(c, pred) for c in t[2])


def tree_size(t):
    return 1 if t[0] == "leaf" else 1 + sum(tree_size(c) for c in t[2])


# ------------------------------------------------------------------ stream A generator
def gen_bytes(r):
    k = r.random()
    n = r.choice([0, 1, 3, 8, 14, 15, 16, 17, 18, 20, 24])
    if k < 0.3:
        return bytes(r.choice(b"abAB01 x") for _ in range(n))
    pieces, cur = [], 0
    pool = ["a", "b", "0", "é", "Σ", "中", "\U0001f600", "\ufffd", "\ufeff", "ÿ",
            "\x7f", "\u0080", "\u07ff", "\u0800", "\ud7ff", "\ue000", "\ufffe", "\uffff", "\U00010000", "\U0010ffff"]
    while cur < n:
        p = r.choice(pool).encode("utf-8")
        pieces.append(p)
        cur += len(p)
    b = bytearray(b"".join(pieces))
    if k > 0.62:
        for _ in range(r.randint(1, 2)):
            bad = r.choice([b"\xff", b"\xfe", b"\xc0\xaf", b"\xed\xa0\x80", b"\x80", b"\xbf", b"\xe2\x82", b"\xf0\x9f\x98", b"\xc3", b"\xf4\x90\x80\x80", b"\xe0\x80\x80"])
            pos = r.choice([0, len(b), r.randint(0, len(b))])
            b[pos:pos] = bad
    return bytes(b)


def gen_units(r):
    n = r.choice([0, 1, 2, 3, 5, 9, 17])
    k = r.random()
    out = []
    while len(out) < n:
        if k < 0.35:
            out.append(r.choice(A_ASCII))
        else:
            c = r.choice(A_ASCII + A_ASCII + A_LATIN + A_BMP + A_ASTRAL + A_LONE + A_BOUNDARY + A_ADJ)
            out += list(c) if isinstance(c, tuple) else [c]
    return out


def hx(h): return h if h else "-"


def gen_sequence(r, nops):
    """One register-machine sequence; registers are written once (fresh dst), so final dumps identify every value."""
    lines, nreg, nsb = ["reset"], 0, 0
    pools = []          # recently used byte/unit strings, to provoke equal-content / different-route pairs
    def fresh():
        nonlocal nreg
        nreg += 1
        return nreg - 1
    def source():
        d = fresh()
        k = r.random()
        if pools and k < 0.3:
            kind, val = r.choice(pools)
            if kind == "b":
                lines.append("%s %d %s" % (r.choice(["tv", "nsv"]), d, hx(hexb(val))))
            else:
                lines.append("u16 %d %s" % (d, hx(hexu(val))))
                if not lone_surrogates(val) and r.random() < 0.5:
                    d2 = fresh()
                    lines.append("%s %d %s" % (r.choice(["tv", "nsv"]), d2, hx(hexb(utf8_of_units(val)))))
            return
        if k < 0.7:
            b = gen_bytes(r)
            pools.append(("b", b))
            if r.random() < 0.4:
                pools.append(("u", go_decode(b)))
            if not valid_utf8(b) and r.random() < 0.5:
                # another invalid spelling with the same units: replace one invalid byte by another invalid byte
                alt = bytearray(b)
                for i, x in enumerate(alt):
                    if x in (0xff, 0xfe):
                        alt[i] = 0xfe if x == 0xff else 0xff
                        break
                pools.append(("b", bytes(alt)))
                # and the VALID spelling of the same units: the first invalid byte replaced by EF BF BD (U+FFFD) when
                # that byte decodes to U+FFFD on its own
                for i, x in enumerate(b):
                    if x in (0xff, 0xfe, 0xc0, 0xc1, 0xf5, 0xf8):
                        alt2 = b[:i] + b"\xef\xbf\xbd" + b[i + 1:]
                        if go_decode(alt2) == go_decode(b):
                            pools.append(("b", alt2))
                        break
            lines.append("%s %d %s" % (r.choice(["tv", "tv", "nsv"]), d, hx(hexb(b))))
        else:
            u = gen_units(r)
            pools.append(("u", u))
            lines.append("u16 %d %s" % (d, hx(hexu(u))))
    for _ in range(3):
        source()
    # short strings (patterns / fillers / replacement texts with `$` selectors)
    for _ in range(2):
        d = fresh()
        u = [r.choice([0x61, 0x62, 0x24, 0x26, 0x60, 0x27, 0x31, 0x3c, 0xe9, 0x3a3, 0xd800, 0xdc00, 0xffff, 0x20, 0x20, 0x09, 0xa0, 0xfeff, 0x2028, 0x3000]) for _ in range(r.choice([0, 1, 1, 2, 3, 6]))]
        lines.append("u16 %d %s" % (d, hx(hexu(u))))
    for _ in range(nops):
        k = r.random()
        reg = lambda: r.randrange(nreg)
        if k < 0.14:
            source()
        elif k < 0.34:
            a, b = reg(), reg()
            lines.append("cat %d %d %d" % (fresh(), a, b))
        elif k < 0.46:
            a = reg()
            lines.append("sub %d %d %d %d" % (fresh(), a, r.choice([0, 0, 1, 2, 5, 17]), r.choice([0, 1, 2, 3, 8, 18, 99])))
        elif k < 0.52:
            n = r.randint(1, 3)
            args = [reg() for _ in range(n)]
            lines.append("tpl %d %s" % (fresh(), " ".join(map(str, args))))
        elif k < 0.56:
            a = reg()
            lines.append("raw %d %d" % (fresh(), a))
        elif k < 0.66:
            # String built-ins called with register values (mechanism models of Builtins.lean)
            a, b, c = reg(), reg(), reg()
            ii = lambda: r.choice([-20, -3, -2, -1, 0, 0, 1, 1, 2, 3, 5, 8, 17, 18, 40])
            jj = lambda: r.choice(["u", "u"] + [str(x) for x in (-20, -3, -1, 0, 1, 2, 3, 5, 8, 17, 18, 40)])
            op = r.choice(["slice", "slice", "substring", "substr", "at", "charAt", "padStart", "padEnd", "padStart", "repeat",
                           "replace", "replaceAll", "replace", "replaceAll", "fcc", "fcp", "concat", "splitjoin", "splitjoin", "splitpiece", "splitpiece",
                           "trim", "trimStart", "trimEnd", "raw", "splitjoinlim", "splitpiecelim"])
            if op in ("slice", "substring", "substr"):
                lines.append("bi %d %s %d %d %s" % (fresh(), op, a, ii(), jj()))
            elif op in ("at", "charAt"):
                lines.append("bi %d %s %d %d" % (fresh(), op, a, ii()))
            elif op in ("padStart", "padEnd"):
                lines.append("bi %d %s %d %d %d" % (fresh(), op, a, b, r.choice([0, 1, 2, 3, 5, 8, 17, 19, 25, 40])))
            elif op == "repeat":
                lines.append("bi %d repeat %d %d" % (fresh(), a, r.choice([0, 1, 2, 3])))
            elif op in ("replace", "replaceAll"):
                # patterns that occur: a short piece of the subject's source when known
                lines.append("bi %d %s %d %d %d" % (fresh(), op, a, b, c))
            elif op in ("trim", "trimStart", "trimEnd"):
                lines.append("bi %d %s %d" % (fresh(), op, a))
            elif op == "raw":
                nseg = r.randint(1, 3)
                regs_ = [reg() for _ in range(nseg + r.randint(0, 3))]
                lines.append("bi %d raw %d %s" % (fresh(), nseg, " ".join(map(str, regs_))))
            elif op == "splitjoinlim":
                lines.append("bi %d splitjoinlim %d %d %d %d" % (fresh(), a, b, c, r.choice([0, 1, 1, 2, 3, 5, 40])))
            elif op == "splitpiecelim":
                lines.append("bi %d splitpiecelim %d %d %d %d" % (fresh(), a, b, r.choice([0, 0, 1, 2, 3]), r.choice([0, 1, 2, 2, 3, 5, 40])))
            elif op == "splitjoin":
                lines.append("bi %d splitjoin %d %d %d" % (fresh(), a, b, c))
            elif op == "splitpiece":
                lines.append("bi %d splitpiece %d %d %d" % (fresh(), a, b, r.choice([0, 0, 1, 1, 2, 3, 7])))
            elif op == "fcc":
                lines.append("bi %d fcc %s" % (fresh(), hx(hexu(gen_units(r)))))
            elif op == "fcp":
                lines.append("bi %d fcp %s" % (fresh(), hx(hexu(gen_units(r)))))
            else:
                n = r.randint(1, 3)
                args = [reg() for _ in range(n)]
                lines.append("bi %d concat %s" % (fresh(), " ".join(map(str, args))))
        elif k < 0.76:
            lines.append("%s %d %d" % (r.choice(["seq", "seq", "same", "heq", "cmp"]), reg(), reg()))
        elif k < 0.80:
            lines.append("%s %d" % (r.choice(["len", "dump"]), reg()))
        else:
            # a builder episode
            sb = nsb
            nsb += 1
            lines.append("sbnew %d" % sb)
            for _ in range(r.randint(1, 5)):
                j = r.random()
                if j < 0.15:
                    lines.append("sblu %d %d" % (sb, r.choice([0, 1, 4, 16])))
                elif j < 0.40:
                    lines.append("sbws %d %d" % (sb, reg()))
                elif j < 0.65:
                    lines.append("sbwsub %d %d %d %d" % (sb, reg(), r.choice([0, 0, 1, 2, 4]), r.choice([0, 1, 2, 3, 6, 99])))
                elif j < 0.85:
                    c = r.choice(A_ASCII + A_LATIN + A_BMP + A_LONE + [0x1f600, 0x10400, 0x10ffff, 0x10000, 0x7f, 0x80, 0x7ff, 0x800, 0xd7ff, 0xe000, 0xfffd, 0xfffe, 0xffff])
                    lines.append("sbwr %d %x" % (sb, c))
                else:
                    lines.append("sbw8 %d %s" % (sb, hx(hexb(gen_bytes(r)))))
            lines.append("sbstr %d %d" % (fresh(), sb))
    for i in range(nreg):
        lines.append("dump %d" % i)
    return lines


# ------------------------------------------------------------------ running
def run_sharded(ctx, exe, groups, nshards=12, timeout=600):
    """groups: list of lists of lines (a group is never split). Returns list of lists of output lines."""
    if not groups:
        return []
    nlines = sum(len(g) for g in groups)
    nshards = max(1, min(nshards, len(groups), nlines // 150 + 1))
    shards = [[] for _ in range(nshards)]
    for i, g in enumerate(groups):
        shards[i % len(shards)].append(i)
    def work(idx):
        lines = [l for i in idx for l in groups[i]]
        outs, rc, err = [], 0, ""
        while len(outs) < len(lines):
            rc, out, err = ctx.run_lines([exe], lines[len(outs):], timeout=timeout)
            outs += out
            if not (out and out[-1].startswith("TIMEOUT") and len(outs) < len(lines)):
                break          # a case hit the harness watchdog: the harness exited, restart it on the rest
            rc = 0
        return idx, outs, rc, err
    res = [None] * len(groups)
    with concurrent.futures.ThreadPoolExecutor(max_workers=len(shards)) as ex:
        for idx, out, rc, err in ex.map(work, shards):
            if rc != 0 or len(out) != sum(len(groups[i]) for i in idx):
                ctx.log("process %s: rc=%s, %d answers for %d lines; stderr tail: %s" % (
                    os.path.basename(exe), rc, len(out), sum(len(groups[i]) for i in idx), err[-600:]))
            pos = 0
            for i in idx:
                n = len(groups[i])
                res[i] = out[pos:pos + n]
                pos += n
    return res


def strip_marks(l):
    return l.replace(" !SPEC", "")


def parse_pair(out):
    """harness P/O answer -> dict or None"""
    w = out.split()
    if len(w) < 12 or not w[1].startswith("u") or not w[3].startswith("u"):
        return None
    d = {"t1": w[0], "u1": w[1][1:], "t2": w[2], "u2": w[3][1:]}
    for kv in w[4:]:
        k, _, v = kv.partition("=")
        d[k] = v
    return d


class Check:
    def __init__(self, ctx):
        self.ctx = ctx
        self.h = None
        self.m = None
        self.model_ok = False
        self.tags = {}
        self.opmix = {}
        self.firsts = {}
        self.kinds = {}
        self.xcache = {}
        self.blamed = {}
        self.undiagnosed = {}
        self.bad_trees = set()

    # ---- stream A -------------------------------------------------------------------------------
    def seq_values(self, lines, hout):
        """register -> (tag, units hex) from the harness's final dumps"""
        vals = {}
        for l, o in zip(lines, hout):
            w = l.split()
            if w[0] == "dump":
                ow = o.split()
                if len(ow) >= 1:
                    vals[int(w[1])] = (ow[0], ow[1] if len(ow) > 1 and not ow[1].startswith("!") else "")
        return vals

    def judge_sequence(self, lines, hout, mout, origin):
        """Returns list of (signature, summary, detail) property failures seen on the implementation,
        and whether harness and model agree."""
        ctx = self.ctx
        fails = []
        vals = self.seq_values(lines, hout)
        src = {}
        for l in lines:
            w = l.split()
            if w[0] in ("tv", "nsv", "u16"):
                src[int(w[1])] = (w[0], w[2])
        agree = True
        for i, (l, o) in enumerate(zip(lines, hout)):
            w = l.split()
            self.opmix[w[0]] = self.opmix.get(w[0], 0) + 1
            mo = mout[i] if mout is not None and i < len(mout) else None
            if o.startswith("PANIC") or o.startswith("ERR") or o.startswith("EXC"):
                fails.append(("api-op-failed:" + w[0], "Go API op failed: %s -> %s" % (l, o), i))
                continue
            if w[0] == "dump":
                self.tags[o.split()[0]] = self.tags.get(o.split()[0], 0) + 1
                if "!NF" in o:
                    fails.append(("nf-violation:" + o.split()[0], "value not in normal form: %s -> %s" % (l, o), i))
            # implementation-only oracle: equality ops must equal unit equality of the dumped operands
            if w[0] in ("seq", "same", "heq") and int(w[1]) in vals and int(w[2]) in vals:
                eq = vals[int(w[1])][1] == vals[int(w[2])][1]
                if o not in ("true", "false") or (o == "true") != eq:
                    fails.append(("eq-disagrees-with-units:%s:%s-%s" % (w[0], vals[int(w[1])][0], vals[int(w[2])][0]),
                                  "%s answered %s but the operands' units are %s" % (l, o, "equal" if eq else "different"), i))
            if w[0] == "cmp" and int(w[1]) in vals and int(w[2]) in vals:
                s = lex_sign(unhexu(vals[int(w[1])][1]), unhexu(vals[int(w[2])][1]))
                if o != str(s):
                    fails.append(("compare-disagrees-with-units", "%s answered %s, lexicographic order of units is %d" % (l, o, s), i))
            if mo is not None:
                if strip_marks(mo) != o:
                    agree = False
                elif "!SPEC" in mo:
                    # implementation agrees with the mechanism model, and the mechanism model departs from the spec
                    sig = "spec-violation:" + w[0]
                    fails.append((sig, "%s: result units differ from the specification (operands' units appended / sliced)" % l, i))
        return fails, agree

    def run_sequences(self, seqs, origin):
        ctx = self.ctx
        hres = run_sharded(ctx, self.h, seqs)
        mres = run_sharded(ctx, self.m, seqs) if self.model_ok else [None] * len(seqs)
        disagreements = []
        for lines, hout, mout in zip(seqs, hres, mres):
            ctx.count(len(lines))
            if hout is None or len(hout) != len(lines):
                disagreements.append((lines, "harness produced %d answers for %d ops" % (len(hout or []), len(lines))))
                continue
            fails, agree = self.judge_sequence(lines, hout, mout, origin)
            key = tuple(sorted(set(l.split()[0] for l in lines))) + tuple(sorted(set(o.split()[0] for o in hout if o)))
            ctx.nontriv(("A",) + key + (len(lines),))
            if not agree:
                bad = [i for i in range(len(lines)) if mout is None or i >= len(mout) or strip_marks(mout[i]) != hout[i]]
                disagreements.append((lines, "op %d `%s`: implementation `%s` model `%s`" % (
                    bad[0], lines[bad[0]], hout[bad[0]], mout[bad[0]] if mout and bad[0] < len(mout) else "?")))
            for sig, summary, idx in fails:
                self.report_seq(lines, sig, summary, idx, origin)
        return disagreements

    def seq_fails(self, lines):
        """re-run one sequence on harness (+model); returns (set of signatures, agree)"""
        rc, hout, _ = self.ctx.run_lines([self.h], lines, timeout=120)
        mout = None
        if self.model_ok:
            rc, mout, _ = self.ctx.run_lines([self.m], lines, timeout=120)
        if len(hout) != len(lines):
            return set(), False
        fails, agree = self.judge_sequence(lines, hout, mout, "shrink")
        return set(f[0] for f in fails), agree

    def shrink_seq(self, lines, pred):
        """ddmin over op lines, keeping 'reset' first; ops that reference undefined registers make the harness
        panic on that line only, which `pred` treats as not-failing."""
        body = [l for l in lines if l != "reset"]
        budget = [60]           # predicate evaluations (each costs two process runs)
        def limited(sub):
            if budget[0] <= 0:
                return False
            budget[0] -= 1
            return pred(["reset"] + sub)
        keep = self.ctx.ddmin(body, limited)
        return ["reset"] + keep

    def report_seq(self, lines, sig, summary, idx, origin):
        ctx = self.ctx
        if ctx.known_signature(sig) is None and any(v["signature"] == sig for v in ctx.violations):
            return
        small = lines
        try:
            if origin != "corpus" and ctx.known_signature(sig) is None:      # corpus cases are already minimal
                small = self.shrink_seq(lines, lambda sub: sig in self.seq_fails(sub)[0])
        except Exception as e:          # shrinking is best effort
            ctx.log("shrink failed:", e)
        rc, hout, _ = ctx.run_lines([self.h], small, timeout=120)
        mout = ctx.run_lines([self.m], small, timeout=120)[1] if self.model_ok else []
        ctx.violation(sig, summary, {"kind": "history", "stream": "A", "origin": origin, "ops": small,
                                     "observed": hout, "expected_model": mout})

    # ---- stream B -------------------------------------------------------------------------------
    def model_units(self, trees):
        """SPEC units of each tree (hex) via the Lean driver; None where unavailable."""
        if not self.model_ok:
            return [None] * len(trees)
        lines = ["E " + rpn(t) for t in trees]
        res = run_sharded(self.ctx, self.m, [[l] for l in lines])
        out = []
        for r in res:
            out.append(r[0][2:] if r and r[0].startswith("u=") else None)
        return out

    def judge_pair(self, line, out, mu1, mu2, same_by_construction, opaque=None, in_units=None):
        """Returns list of (signature, summary). mu1/mu2: SPEC units hex or None."""
        d = parse_pair(out)
        fails = []
        if d is None:
            if opaque and out.startswith("EXC"):
                return [("opaque-op-threw:" + opaque, "%s -> %s" % (line, out))]
            return [("tree-eval-failed", "%s -> %s" % (line, out))]
        for t in (d["t1"], d["t2"]):
            self.tags[t] = self.tags.get(t, 0) + 1
        if d.get("nf") != "11":
            fails.append(("nf-violation:%s" % (d["t1"] if d.get("nf", "00")[0] == "0" else d["t2"]),
                          "result not in normal form (nf=%s tags %s/%s)" % (d.get("nf"), d["t1"], d["t2"])))
        for which in ("1", "2"):
            hu, q, cp = d["u" + which], d.get("q" + which), d.get("cp" + which)
            if hu not in self.xcache:
                self.spec_obs([hu])
            x = self.xcache.get(hu)
            if x is None or q is None or cp is None:
                continue
            if x.get("cp", "") != x.get("it", ""):
                fails.append(("model-decoder-differs-from-spec", "Lean lenientDecode != codePoints on %s" % hu))
            if q != x["q"]:
                fails.append(("json-quote-differs-from-spec", "JSON.stringify of the string with units %s gives units %s, QuoteJSONString gives %s" % (hu, q, x["q"])))
            want = x.get("cp", "") or "-"
            if cp != want:
                route = cp.split(":")[1] if cp.startswith("MISMATCH:") else "iteration"
                fails.append(("code-points-differ-from-spec:" + route, "code points of the string with units %s observed as %s, specification %s" % (hu, cp, want)))
        if opaque is None:
            for which, mu, hu in (("1", mu1, d["u1"]), ("2", mu2, d["u2"])):
                if mu is not None and mu != hu:
                    fails.append(("units-differ-from-spec", "tree %s evaluates to %s, specification says %s" % (which, hu, mu)))
        if any(f[0] == "units-differ-from-spec" for f in fails):
            return fails          # root cause; the pair observations below would only restate it
        expect_equal = same_by_construction or (mu1 is not None and mu1 == mu2)
        if opaque is not None:
            expect_equal = True
        js, go = d.get("js", ""), d.get("go", "")
        if expect_equal:
            if d["u1"] != d["u2"]:
                fails.append(("equal-trees-different-units", "units %s vs %s" % (d["u1"], d["u2"])))
            bad = [("js%d" % i) for i, c in enumerate(js) if c != "1"] + [("go%d" % i) for i, c in enumerate(go) if c != "1"]
            if js.startswith("EXC"):
                bad = ["js-exception"]
            if d.get("lt") != "0" or d.get("gt") != "0" or d.get("cmp") != "0":
                bad.append("order")
            if bad:
                if bad == ["go10"] and d["u1"] == d["u2"] and "imp" in (d["t1"], d["t2"]) and d["x1"] != d["x2"] and (
                        not valid_utf8(bytes.fromhex(d["x1"][1:])) or not valid_utf8(bytes.fromhex(d["x2"][1:]))):
                    fails.append((SIG_EXPORT, "Export() of an imported string holding invalid UTF-8 returns the original bytes; an equal string in another representation exports U+FFFD"))
                else:
                    fails.append(("distinguishable:%s:%s-%s" % ("+".join(bad[:3]), d["t1"], d["t2"]),
                                  "equal-unit strings told apart by %s (tags %s/%s, units %s / %s)" % (",".join(bad), d["t1"], d["t2"], d["u1"], d["u2"])))
        elif mu1 is not None and mu2 is not None and d["u1"] == mu1 and d["u2"] == mu2:
            # different strings: every identity observation must say "different", and < must be the unit order
            must0 = [i for i in range(min(14, len(js))) if i != 5 and js[i] != "0"] if not js.startswith("EXC") else [99]
            must0g = [i for i in range(min(6, len(go))) if go[i] != "0"]   # go6.. (length, numeric value, truthiness, export) may coincide
            s = lex_sign(unhexu(mu1), unhexu(mu2))
            order_ok = (d.get("lt") == ("1" if s < 0 else "0")) and (d.get("gt") == ("1" if s > 0 else "0")) and d.get("cmp") == str(s)
            if must0 or must0g or not order_ok:
                fails.append(("different-strings-confused:%s-%s" % (d["t1"], d["t2"]),
                              "different units %s / %s but js%s go%s say equal; order ok=%s" % (mu1, mu2, must0, must0g, order_ok)))
        if opaque is not None and in_units is not None:
            for hu in (d["u1"], d["u2"]):
                if lone_surrogates(unhexu(hu)) != lone_surrogates(in_units):
                    name = OPAQUE_NAME.get(opaque, "normalize")
                    fails.append((SIG_LONE + name, "%s turns the lone surrogates %s of its input into %s" % (
                        name, hexu(lone_surrogates(in_units)), hexu(lone_surrogates(unhexu(hu))))))
                    break
        return fails

    def spec_obs(self, unit_hexes):
        """SPEC observations (QuoteJSONString, code points, decoder model) of unit lists, from the Lean driver."""
        todo = [h for h in set(unit_hexes) if h not in self.xcache]
        if todo and self.model_ok:
            res = run_sharded(self.ctx, self.m, [["X " + (h or "-")] for h in todo])
            for h, r in zip(todo, res):
                d = {}
                for kv in (r[0].split() if r else []):
                    k, _, v = kv.partition("=")
                    d[k] = v
                if "q" in d:
                    self.xcache[h] = d
        return self.xcache

    def run_pairs(self, items, origin):
        """items: dicts {line, t1, t2, mu1, mu2, same, opaque, in_units}"""
        ctx = self.ctx
        with open(os.path.join(BUILD, "c06_pairs_%s.txt" % origin), "w") as f:
            f.write("\n".join(it["line"] for it in items) + "\n")
        res = run_sharded(ctx, self.h, [[it["line"]] for it in items])
        pre = [parse_pair(r[0]) for r in res if r]
        self.spec_obs([d[k] for d in pre if d for k in ("u1", "u2")])
        for it, r in zip(items, res):
            ctx.count(1)
            out = r[0] if r else "ERR no answer"
            if out.startswith("TIMEOUT") or out == "ERR no answer":
                # confirm on its own with a generous limit before believing it (the machine may just be busy)
                # inconclusive: retried alone with a limit that only a genuine hang can exceed (the cases take microseconds)
                env = dict(os.environ); env["C06_CASE_TIMEOUT_MS"] = "45000"
                rc, o2, _ = ctx.run_lines([self.h], [it["line"]], timeout=180, env=env)
                out = o2[0] if o2 else "TIMEOUT"
            f = it["line"].split()[1 if it.get("opaque") is None else 2]
            self.firsts[f] = self.firsts.get(f, 0) + 1
            fails = self.judge_pair(it["line"], out, it.get("mu1"), it.get("mu2"), it.get("same", False), it.get("opaque"), it.get("in_units"))
            d = parse_pair(out)
            if d:
                ctx.nontriv(("B", d["t1"], d["t2"], d["u1"], d["u2"], it.get("opaque")))
            if d and it.get("opaque") is None:
                if it.get("mu1") is not None and d["u1"] != it["mu1"]:
                    self.bad_trees.add(rpn(it["t1"]) if it.get("t1") else "")
                if it.get("mu2") is not None and d["u2"] != it["mu2"]:
                    self.bad_trees.add(rpn(it["t2"]) if it.get("t2") else "")
            elif not d and it.get("t1"):
                self.bad_trees.add(rpn(it["t1"]))
            for sig, summary in fails:
                self.report_pair(it, out, sig, summary, origin)

    def shrink_pair(self, it, sig):
        """Replace subtrees by literal leaves of their SPEC units while the failure persists."""
        if not self.model_ok or it.get("t1") is None:
            return it
        ctx = self.ctx
        cur = dict(it)
        def still(t1, t2):
            mus = self.model_units([t1, t2])
            if it.get("opaque") is None:
                line = "P %s | %s | %s" % (it["line"].split()[1], rpn(t1), rpn(t2))
            else:
                line = "O %s %s | %s | %s" % (it["opaque"], it["line"].split()[2], rpn(t1), rpn(t2))
            rc, out, _ = ctx.run_lines([self.h], [line], timeout=60)
            inu = unhexu(mus[0]) if (it.get("opaque") and mus[0] is not None) else it.get("in_units")
            fs = self.judge_pair(line, out[0] if out else "ERR", mus[0], mus[1], it.get("same", False), it.get("opaque"), inu)
            return (sig in [f[0] for f in fs]), line, mus, inu
        def subtrees(t, path=()):
            if t[0] == "op":
                for i, c in enumerate(t[2]):
                    yield from subtrees(c, path + (i,))
                yield path
        def replace(t, path, new):
            if not path:
                return new
            ch = list(t[2])
            ch[path[0]] = replace(ch[path[0]], path[1:], new)
            return ("op", t[1], ch)
        def at(t, path):
            for p in path:
                t = t[2][p]
            return t
        for side in ("t1", "t2"):
            changed, budget = True, 40
            while changed and budget > 0:
                changed = False
                for path in list(subtrees(cur[side])):
                    if not path and it.get("opaque") is None and False:
                        continue
                    budget -= 1
                    if budget <= 0:
                        break
                    sub = at(cur[side], path)
                    mu = self.model_units([sub])[0]
                    if mu is None:
                        continue
                    new = replace(cur[side], path, ("leaf", "U.u16", mu))
                    t1, t2 = (new, cur["t2"]) if side == "t1" else (cur["t1"], new)
                    ok, line, mus, inu = still(t1, t2)
                    if ok:
                        cur.update({"t1": t1, "t2": t2, "line": line, "mu1": mus[0], "mu2": mus[1], "in_units": inu})
                        changed = True
                        break
        return cur

    def preclass(self, it):
        feats = set()
        for t in (it.get("t1"), it.get("t2")):
            if t is None:
                continue
            def f(x):
                if x[0] == "leaf":
                    if x[1] == "U.jp":
                        feats.add(x[1])
                else:
                    b = x[1].split(":")[0]
                    if b == "jrt":
                        feats.add("U.jp")
                return False
            has_tok(t, f)
        return tuple(sorted(feats))

    def report_pair(self, it, out, sig, summary, origin):
        ctx = self.ctx
        small = it
        if sig in ("units-differ-from-spec", "tree-eval-failed") and self.model_ok:
            # blaming costs three process runs; after a few identical diagnoses for the same ingredients the
            # remaining cases of that class are counted, not re-diagnosed (they still fail loudly if the
            # class has no known diagnosis)
            pc = self.preclass(it)
            n, diag = self.blamed.get(pc, (0, set()))
            if pc and n >= 1 and diag and all(ctx.known_signature(x) is not None for x in diag):
                self.undiagnosed[pc] = self.undiagnosed.get(pc, 0) + 1
                return
            sig2, node = self.refine_units_sig(it, out)
            self.blamed[pc] = (n + 1, diag | {sig2 or sig})
            if sig2:
                sig = sig2
                mu = self.model_units([node])[0]
                small = {"line": "P 0 | %s | U.u16:%s" % (rpn(node), mu or ""), "mu1": mu, "mu2": mu}
                summary = "`%s` evaluates to units that differ from the specification (%s)" % (rpn(node), mu)
        if ctx.known_signature(sig) is None and any(v["signature"] == sig for v in ctx.violations):
            return
        if ctx.known_signature(sig) is not None and any(h["signature"] == sig for h in ctx.known_hits):
            return
        if ctx.known_signature(sig) is None and small is it:
            try:
                small = self.shrink_pair(it, sig)
            except Exception as e:
                ctx.log("shrink failed:", e)
        rc, o2, _ = ctx.run_lines([self.h], [small["line"]], timeout=60)
        ctx.violation(sig, summary, {"kind": "input", "stream": "B", "origin": origin, "ops": [small["line"]],
                                     "observed": o2, "expected_spec_units": [small.get("mu1"), small.get("mu2")]})

    def blame(self, t):
        """Smallest failing ingredient of a tree whose units differ from the SPEC: the first node (post-order) that,
        applied to literal leaves holding the SPEC units of its operands, already disagrees with the SPEC.
        Returns (node, implementation units, spec units) or None."""
        nodes = []
        def post(x):
            if x[0] == "op":
                for c in x[2]:
                    post(c)
            nodes.append(x)
        post(t)
        ops = [x for x in nodes if x[0] == "op"]
        sub_mu = {}
        kids = [c for x in ops for c in x[2] if c[0] == "op"]
        for c, mu in zip(kids, self.model_units(kids)):
            sub_mu[id(c)] = mu
        cand = []
        for x in nodes:
            if x[0] == "leaf":
                cand.append(x)
            elif all(c[0] == "leaf" or sub_mu.get(id(c)) is not None for c in x[2]):
                cand.append(("op", x[1], [c if c[0] == "leaf" else ("leaf", "U.u16", sub_mu[id(c)]) for c in x[2]]))
        mus = self.model_units(cand)
        rc, hout, _ = self.ctx.run_lines([self.h], ["E " + rpn(c) for c in cand], timeout=120)
        for c, mu, ho in zip(cand, mus, hout):
            w = ho.split()
            hu = w[1][2:] if len(w) > 1 and w[1].startswith("u=") else None
            if mu is not None and hu != mu:
                return c, hu, mu
        return None

    def refine_units_sig(self, it, out):
        """units of a tree differ from the spec (or its evaluation fails): blame one op application and name its class."""
        d = parse_pair(out)
        if it.get("t1") is None:
            return None, None
        for t, hu, mu in ((it["t1"], d["u1"] if d else None, it.get("mu1")), (it["t2"], d["u2"] if d else None, it.get("mu2"))):
            if mu is None or hu == mu:
                continue
            b = self.blame(t)
            if b is None:
                continue
            node, bhu, bmu = b
            lost = bhu is not None and len(lone_surrogates(unhexu(bmu))) > len(lone_surrogates(unhexu(bhu)))
            if node[0] == "leaf":
                if node[1] == "U.jp" and lost:
                    return SIG_LONE + "JSON.parse", node
                return "units-differ-from-spec:leaf:" + node[1], node
            base = node[1].split(":")[0]
            if base == "jrt" and lost:
                return SIG_LONE + "JSON.parse", node
            return ("units-differ-from-spec:" if bhu is not None else "evaluation-fails:") + base, node
        return None, None

    def tree_matches_spec(self, t):
        mu = self.model_units([t])[0]
        rc, out, _ = self.ctx.run_lines([self.h], ["E " + rpn(t)], timeout=60)
        return bool(out) and mu is not None and out[0].split()[1:2] == ["u=" + mu]


def load_corpus():
    d = os.path.join(ROOT, "corpus", PROP)
    out = []
    if os.path.isdir(d):
        for fn in sorted(os.listdir(d)):
            if fn.endswith(".txt"):
                lines = [l.rstrip("\n") for l in open(os.path.join(d, fn)) if l.strip() and not l.startswith("#")]
                out.append((fn, lines))
    return out


def regen_own(ctx, timeout=600):
    """Same as ctx.regen() but builds the extractor from extract/main.go + extract/c06.go only, so that another
    property's generator being edited at the same moment cannot break this check. Stale generated files are
    deleted first; a failure is a broken tie obligation."""
    import shutil
    gen = os.path.join(LEAN, "GojaModel", "Generated")
    os.makedirs(gen, exist_ok=True)
    for fn in os.listdir(gen):
        if fn.startswith(PROP + "_") or fn == PROP + ".lean":
            os.remove(os.path.join(gen, fn))
    src = os.path.join(BUILD, "extract_c06")
    shutil.rmtree(src, ignore_errors=True)
    os.makedirs(src)
    for fn in ("main.go", "c06.go", "go.mod"):
        shutil.copyfile(os.path.join(ROOT, "extract", fn), os.path.join(src, fn))
    exe = os.path.join(BUILD, "extract_c06_bin")
    rc, out, err = sh(["go", "build", "-o", exe, "."], cwd=src, env=GOENV, timeout=timeout)
    if rc != 0:
        ctx.obligation("tie.extract.build", "tie", False, err)
        return False
    rc, out, err = sh([exe, "-repo", REPO, "-out", gen, "-only", PROP], timeout=timeout)
    if rc != 0:
        ctx.obligation("tie.extract.run", "tie", False, out + err)
        return False
    ctx.stats["extract"] = out.strip().splitlines()[-5:]
    return True


def setup(ctx, need_model=True):
    ck = Check(ctx)
    ok_regen = regen_own(ctx)
    ok, errs = ctx.lake_build(["GojaModel.C06.Props", "GojaModel.C06.Props2", "GojaModel.C06.Props3", "GojaModel.C06.Tie", "model_c06"])
    if ok_regen and ok:
        ctx.obligation("tie:StrSites+threshold", "tie", True, "Generated.C06_Sites = Expected (Tie.lean) checked by the Lean kernel")
    ctx.audit("GojaModel.C06.Props", expect_min=40)
    ctx.audit("GojaModel.C06.Props2", expect_min=10)
    ctx.audit("GojaModel.C06.Props3", expect_min=3)
    if ctx.tier == "thorough":
        ctx.leanchecker("GojaModel.C06.Props")
        ctx.leanchecker("GojaModel.C06.Props2")
        ctx.leanchecker("GojaModel.C06.Props3")
    ck.m = ctx.model_exe()
    # the driver does not depend on generated facts; build it on its own if the combined build failed
    if not ok:
        sh(["lake", "build", "model_c06"], cwd=LEAN, timeout=1200)
    ck.model_ok = os.path.exists(ck.m) and ctx.run_lines([ck.m], ["reset"], timeout=60)[1] == ["ok"]
    if not ck.model_ok:
        ctx.obligation("model-driver-available", "correspondence", False, "model_c06 could not be built/run; implementation-only oracles used")
    ck.h = ctx.go_build()
    ctx.log('setup done')
    return ck


def main(ctx):
    ck = setup(ctx)
    if ck.h is None:
        return ctx.finish(level="proof", rule="harness did not build")
    rng = ctx.rng
    quick = ctx.tier == "quick"

    # ---------------- corpus (always first)
    seqs, pairs = [], []
    for fn, lines in load_corpus():
        if lines and lines[0].split()[0] in ("P", "O"):
            for l in lines:
                w = l.split()
                pairs.append({"line": l, "same": True, "opaque": w[1] if w[0] == "O" else None})
        else:
            seqs.append(lines)
    dis = ck.run_sequences(seqs, "corpus")
    ck.run_pairs(pairs, "corpus")
    ctx.obligation("corr:corpus", "correspondence", not dis, "; ".join(d[1] for d in dis[:3]))
    ctx.stats["corpus_cases"] = len(seqs) + len(pairs)

    ctx.log('corpus done')
    # ---------------- stream A
    nseq = 300 if quick else 3000
    seqs = [gen_sequence(rng, rng.choice([8, 16, 30])) for _ in range(nseq)]
    dis = ck.run_sequences(seqs, "generated")
    if dis and ck.model_ok:
        lines, detail = dis[0]
        small = lines
        try:
            small = ck.shrink_seq(lines, lambda sub: not ck.seq_fails(sub)[1])
        except Exception as e:
            ctx.log("shrink failed:", e)
        rc, hout, _ = ctx.run_lines([ck.h], small, timeout=60)
        rc, mout, _ = ctx.run_lines([ck.m], small, timeout=60)
        p = ctx.write_replay("corr-api-ops", {"kind": "history", "stream": "A", "ops": small, "observed": hout, "expected_model": mout})
        ctx.obligation("corr:api-ops", "correspondence", False, "%d sequences disagree; first: %s; minimised replay %s" % (len(dis), detail, p))
    else:
        ctx.obligation("corr:api-ops", "correspondence", True, "%d sequences, implementation = mechanism model on every op line" % nseq)

    ctx.log('stream A done')
    # ---------------- stream B
    g = Gen(rng, ctx.tier)
    ntree = 600 if quick else 6000
    trees, pals = [], []
    for _ in range(ntree):
        pal = g.palette()
        trees.append(g.tree(pal, rng.choice([1, 2, 2, 3, 3, 4])))
    mus = ck.model_units(trees)
    if ck.model_ok:
        nerr = sum(1 for m in mus if m is None)
        ctx.obligation("corr:model-evaluates-every-tree", "correspondence", nerr == 0, "%d trees not evaluated by the SPEC model" % nerr)
    items = []
    fi = 0
    def first():
        nonlocal fi
        fi += 1
        return N_FIRST[fi % len(N_FIRST)]
    buckets = {}
    for t, mu in zip(trees, mus):
        # (1) same tree, other representations / routes
        t2 = g.rerep(t)
        items.append({"line": "P %d | %s | %s" % (first(), rpn(t), rpn(t2)), "t1": t, "t2": t2, "mu1": mu, "mu2": mu, "same": True})
        if mu is None:
            continue
        u = unhexu(mu)
        # (2) computed value vs directly constructed value with the same units (needs the SPEC model)
        leaf = g.leaf_for(u)
        if len(u) >= 2 and rng.random() < 0.4:
            k = rng.randint(0, len(u))
            leaf = ("op", rng.choice(["cat", "ccat", "tpl:2"]), [g.leaf_for(u[:k]), g.leaf_for(u[k:])])
        items.append({"line": "P %d | %s | %s" % (first(), rpn(t), rpn(leaf)), "t1": t, "t2": leaf, "mu1": mu, "mu2": mu})
        buckets.setdefault(mu, []).append(t)
        # (3) opaque root ops (x/text) on two different representations of the same units
        if rng.random() < 0.35 and (not lone_surrogates(u) or rng.random() < 0.15):
            op = rng.choice(OPAQUE)
            l1 = g.leaf_for(u)
            l2 = g.leaf_for(u, avoid=l1[1])
            items.append({"line": "O %s %d | %s | %s" % (op, first(), rpn(l1), rpn(l2)), "t1": l1, "t2": l2, "mu1": mu, "mu2": mu,
                          "opaque": op, "in_units": u})
    ctx.log('trees evaluated by the model; %d pair lines' % len(items))
    nviol_before = len(ctx.violations)
    ck.run_pairs(items, "generated")
    ctx.log('phase 1 pairs done')
    # phase 2 uses only trees whose implementation units were confirmed equal to the SPEC in phase 1
    items2, nb = [], 0
    good = {mu: [t for t in ts if rpn(t) not in ck.bad_trees] for mu, ts in buckets.items()}
    good = {mu: ts for mu, ts in good.items() if ts}
    # (4) independent trees that the SPEC model evaluates to the same units
    for mu, ts in good.items():
        if len(ts) >= 2 and mu != "":
            for i in range(min(len(ts) - 1, 3)):
                items2.append({"line": "P %d | %s | %s" % (first(), rpn(ts[i]), rpn(ts[i + 1])), "t1": ts[i], "t2": ts[i + 1], "mu1": mu, "mu2": mu})
                nb += 1
    # (5) different strings must stay different, ordered by units
    keys = list(good)
    for _ in range(min(len(keys), 300 if quick else 3000)):
        a, b = rng.choice(keys), rng.choice(keys)
        if a != b:
            ta, tb = rng.choice(good[a]), rng.choice(good[b])
            items2.append({"line": "P %d | %s | %s" % (first(), rpn(ta), rpn(tb)), "t1": ta, "t2": tb, "mu1": a, "mu2": b})
    ck.run_pairs(items2, "generated2")
    items += items2
    ctx.obligation("corr:tree-pairs", "correspondence", len(ctx.violations) == nviol_before,
                   "%d pairs (%d bucket pairs); new violations %d" % (len(items), nb, len(ctx.violations) - nviol_before))

    ctx.log('stream B done')
    # ---------------- evidence
    ctx.stats.update({
        "stream_A_sequences": nseq, "stream_B_trees": ntree, "stream_B_pairs": len(items), "bucket_pairs": nb,
        "representation_tags_seen": ck.tags, "api_op_mix": ck.opmix, "first_observation_mix": ck.firsts,
        "known_class_cases_not_rediagnosed": {"+".join(k): v for k, v in ck.undiagnosed.items()},
        "trees_deviating_from_spec_excluded_from_phase2": len(ck.bad_trees),
        "tree_size_hist": {str(k): sum(1 for t in trees if tree_size(t) == k) for k in sorted(set(tree_size(t) for t in trees))[:12]},
        "trees_with_lone_surrogates": sum(1 for m in mus if m and lone_surrogates(unhexu(m))),
        "trees_non_ascii": sum(1 for m in mus if m and any(c >= 0x80 for c in unhexu(m))),
    })
    for it in items[:6]:
        ctx.sample(it["line"][:300])
    ctx.sample(" ; ".join(seqs[0][:14]))
    ctx.assumptions += [
        "hash/maphash is modelled by its preimage: equal hash <=> equal bytes written (collisions ignored)",
        "x/text (cases, norm) is opaque: toLowerCase/toUpperCase/normalize are only checked for NF, agreement across representations and lone-surrogate preservation",
        "Go API preconditions: WriteRune gets 0 <= r <= 0x10FFFF; Substring/WriteSubstring get 0 <= start <= end <= length; unistring.String values come from NewFromString/FromUtf16/string()",
        "regexp arguments are literal non-empty patterns without the u flag (engines belong to C20)",
        "the battery observes through goja's own operators; the unit sweep uses String.CharAt from Go as well as charCodeAt",
    ]
    ctx.trusted_base += [
        "hand transcription of ECMA-262 string algorithms in lean/GojaModel/C06/Spec.lean (reference evaluator)",
        "python re-implementation of Go's lenient UTF-8 decoding (classification of known findings only)",
    ]
    return ctx.finish(level="proof", rule=(
        "stream A: random Go-API op sequences (ToValue <=16/>16 bytes incl. invalid UTF-8, newStringValue, StringFromUTF16, key round trip, "
        "Concat, Substring, template concat, StrictEquals/SameAs/hash/CompareTo, StringBuilder ops); a case = one op line; distinct non-trivial = "
        "distinct (op set, tag set, length). stream B: expression trees depth<=4 over the property's operations on palettes mixing ASCII/Latin-1/BMP/"
        "astral/lone surrogates/invalid UTF-8; pairs = re-representation, computed-vs-constructed, SPEC-equal buckets, different-unit pairs; "
        "a case = one pair under one first-observation; distinct non-trivial = distinct (tags, units, opaque op)"))


def replay(ctx, path):
    with open(path) as f:
        rp = json.load(f)
    ck = Check(ctx)
    sh(["lake", "build", "model_c06"], cwd=LEAN, timeout=1200)
    ck.m = ctx.model_exe()
    ck.model_ok = os.path.exists(ck.m)
    ck.h = ctx.go_build()
    if ck.h is None:
        print("harness build failed")
        return 2
    ops = rp.get("ops", [])
    if not ops:
        print(json.dumps(rp, indent=1))
        return 0
    rc, hout, _ = ctx.run_lines([ck.h], ops, timeout=120)
    mlines = [("E " + l.split("|")[1].strip()) if l.split()[0] in ("P", "O") else l for l in ops]
    mout = ctx.run_lines([ck.m], mlines, timeout=120)[1] if ck.model_ok else []
    for i, l in enumerate(ops):
        print("op      :", l)
        print("  impl  :", hout[i] if i < len(hout) else "?")
        print("  model :", mout[i] if i < len(mout) else "?")
    print("signature:", rp.get("signature"), "-", rp.get("summary"))
    return 0
