"""
C01 — no script, valid or not, can crash the embedding Go process.

Run order (see vlib.py): regenerate facts (StackEffects, PanicKinds, emitSetP shape) → re-check the Lean theorems
(Props) and the Tie theorems → audit → build the harness from /repo's working tree →
  corpus (regression seeds + known findings)
  corr1  bytecode-exact: model `emit` vs the real compiler on generated expressions of the modelled fragment
  corr-classifier: model classifier vs the engine's exceptionFromValue / asUncatchableException
  search: grammar-generated / mutated / raw-byte programs → Parse, Compile, traced RunProgram under recover+watchdog
  corr2  every compiled unit of every generated program → the proven `verify`
  corr3  every executed instruction's real (pc, sp) effect vs the regenerated table
Violations are shrunk (token ddmin), classified into a signature, and reported through ctx.violation.
"""
import binascii, json, os, re, shutil, subprocess, sys, time, hashlib
from vlib import *

HEX = lambda s: binascii.hexlify(s.encode("utf8", "surrogateescape")).decode()


# ------------------------------------------------------------------ persistent line-protocol process
class Proc:
    def __init__(self, cmd):
        self.cmd = cmd
        self.p = None
        self.start()

    def start(self):
        self.p = subprocess.Popen(self.cmd, stdin=subprocess.PIPE, stdout=subprocess.PIPE, stderr=subprocess.DEVNULL,
                                  text=True, errors="replace", bufsize=1)

    def ask(self, line):
        try:
            self.p.stdin.write(line + "\n")
            self.p.stdin.flush()
            out = self.p.stdout.readline()
            if out == "":
                raise BrokenPipeError()
            return out.rstrip("\n")
        except (BrokenPipeError, OSError):
            try:
                self.p.kill()
            except OSError:
                pass
            self.start()
            return "PROCESS-DIED"

    def close(self):
        try:
            self.p.stdin.close()
            self.p.wait(timeout=5)
        except Exception:
            try:
                self.p.kill()
            except OSError:
                pass


# ------------------------------------------------------------------ corr1: expression generator (JS text + model tokens)
IDS = {  # name -> class per context
    "f": {"v": "sv", "w": "sv", "l": "lv", "m": "lv", "a": "lv", "b": "lv", "k": "cs", "g1": "gl", "g2": "gl"},
    "g": {"g1": "gl", "g2": "gl", "g3": "gl"},
    "n": {"v": "sv", "l": "lv", "a": "lv", "k": "cs", "nf": "cn", "g1": "gl"},   # inside a sloppy named function expression nf
}
BIN = {"add": "+", "sub": "-", "mul": "*", "lt": "<", "gt": ">", "le": "<=", "ge": ">=", "eq": "==", "ne": "!=", "seq": "===",
       "sne": "!==", "band": "&", "bor": "|", "bxor": "^", "shl": "<<", "sar": ">>", "shr": ">>>", "div": "/", "mod": "%",
       "exp": "**", "instanceof": "instanceof", "in": "in"}
FOLDABLE_NUM = ["add", "sub", "mul", "lt", "gt", "le", "ge", "seq", "sne", "eq", "ne"]
AOPS = ["add", "sub", "mul", "div", "mod", "band", "bor", "bxor", "shl", "sar", "shr", "exp"]
LOG = {"and": "&&", "or": "||", "coalesce": "??"}
UN = {"not": "!", "bnot": "~", "neg": "-", "plus": "+", "typeof": "typeof ", "void": "void "}


class EGen:
    """Generates (js, tokens, isConstNum) — constant sub-expressions are restricted to the combinations whose value the
    model's evalBin/evalUn computes exactly (small integers, strings by +, booleans, null, BigInt mixing that throws)."""

    def __init__(self, rng, ctx, strict):
        self.r, self.ctx, self.strict = rng, ctx, strict
        self.ids = IDS[ctx]

    def ident(self, classes=None):
        names = [n for n, c in self.ids.items() if classes is None or c in classes]
        n = self.r.choice(names)
        return n, self.ids[n]

    def const(self, d):
        """a constant expression with model-computable value; returns (js, toks, kind) kind in num/str/bool/null/big/undef/throw"""
        r = self.r
        if d <= 0 or r.random() < 0.45:
            k = r.choice(["num", "num", "num", "str", "bool", "null", "big"])
            if k == "num":
                v = r.choice([0, 0, 1, 2, 3, 7])
                return str(v), ["lit:n:%d" % v], "num"
            if k == "str":
                v = r.choice(["", "a", "xy"])
                return '"%s"' % v, ["lit:s:" + v], "str"
            if k == "bool":
                v = r.choice([0, 1])
                return ("true" if v else "false"), ["lit:b:%d" % v], "bool"
            if k == "null":
                return "null", ["lit:null"], "null"
            v = r.choice([0, 1, 5])
            return "%dn" % v, ["lit:big:%d" % v], "big"
        c = r.randrange(6)
        if c == 0:  # numeric / bigint / mixed binary
            op = r.choice(FOLDABLE_NUM[:3] if r.random() < 0.6 else FOLDABLE_NUM)
            a = self.const_of(d - 1, ["num", "big"] if op in ("add", "sub", "mul") else ["num"])
            b = self.const_of(d - 1, ["num", "big"] if op in ("add", "sub", "mul") else ["num"])
            if op in ("eq", "ne", "lt", "gt", "le", "ge") and (a[2] != "num" or b[2] != "num"):
                op = "add"
            kind = "num" if a[2] == b[2] == "num" else ("big" if a[2] == b[2] == "big" else "throw")
            if op in ("lt", "gt", "le", "ge", "seq", "sne", "eq", "ne"):
                kind = "bool"
            return "(%s %s %s)" % (a[0], BIN[op], b[0]), ["bin:" + op] + a[1] + b[1], kind
        if c == 1:  # string concat
            a = self.const_of(d - 1, ["str"])
            b = self.const_of(d - 1, ["str", "num", "bool", "null"])
            return "(%s + %s)" % (a[0], b[0]), ["bin:add"] + a[1] + b[1], "str"
        if c == 2:  # unary
            op = r.choice(["not", "neg", "typeof", "void", "bnot"])
            a = self.const_of(d - 1, ["num"] if op in ("neg", "bnot") else ["num", "str", "bool", "null"])
            kind = {"not": "bool", "neg": "num", "typeof": "str", "void": "undef", "bnot": "num"}[op]
            return "(%s%s)" % (UN[op], a[0]), ["un:" + op] + a[1], kind
        if c == 3:  # logical of constants
            op = r.choice(list(LOG))
            a = self.const(d - 1)
            b = self.const(d - 1)
            if a[2] == "throw":
                return a
            return "(%s %s %s)" % (a[0], LOG[op], b[0]), ["log:" + op] + a[1] + b[1], "mixed"
        if c == 4:  # strict equality of anything simple
            a = self.const_of(d - 1, ["num", "bool", "null"])
            b = self.const_of(d - 1, ["num", "bool", "null"])
            op = r.choice(["seq", "sne"])
            return "(%s %s %s)" % (a[0], BIN[op], b[0]), ["bin:" + op] + a[1] + b[1], "bool"
        a = self.const_of(d - 1, ["big"])
        return "(+%s)" % a[0], ["un:plus"] + a[1], "throw"

    def const_of(self, d, kinds):
        for _ in range(20):
            x = self.const(d)
            if x[2] in kinds:
                return x
        k = kinds[0]
        return {"num": ("1", ["lit:n:1"], "num"), "str": ('"a"', ["lit:s:a"], "str"), "bool": ("true", ["lit:b:1"], "bool"),
                "null": ("null", ["lit:null"], "null"), "big": ("1n", ["lit:big:1"], "big")}[k]

    def args(self, d):
        n = self.r.randrange(4)
        xs = [self.expr(d - 1) for _ in range(n)]
        return ", ".join(x[0] for x in xs), [t for x in xs for t in x[1]], n

    def expr(self, d):
        r = self.r
        if d <= 0:
            if r.random() < 0.5:
                x = self.const(0)
                return x[0], x[1]
            n, c = self.ident()
            return n, ["id:%s:%s" % (c, n)]
        k = r.randrange(30)
        if k < 2:
            x = self.const(2)
            return x[0], x[1]
        if k < 4:
            n, c = self.ident()
            return n, ["id:%s:%s" % (c, n)]
        if k == 4:
            op = r.choice(["not", "bnot", "neg", "plus", "void", "typeof"])
            a = self.expr(d - 1)
            if self.constlike(a):      # constant operands only in the combinations the model's evalUn knows
                x = self.const(2)
                return x[0], x[1]
            if op == "typeof" and a[1][0].startswith("id:"):
                n, c = a[0], a[1][0].split(":")[1]
                return "(typeof %s)" % n, ["tyid:%s:%s" % (c, n)]
            return "(%s%s)" % (UN[op], a[0]), ["un:" + op] + a[1]
        if k == 5:
            c = r.randrange(5)
            if c == 0 and not self.strict:
                n, cl = self.ident()
                return "(delete %s)" % n, ["delid:%s:%s" % (cl, n)]
            if c == 1:
                l = self.expr(d - 1)
                return "(delete (%s).p)" % l[0], ["deldot:p"] + l[1]
            if c == 2:
                l, m = self.expr(d - 1), self.nonconst(d - 1)
                return "(delete (%s)[%s])" % (l[0], m[0]), ["delidx"] + l[1] + m[1]
            if c == 3:
                n, cl = self.ident()
                a = self.args(d)
                return "(delete %s(%s))" % (n, a[0]), ["delcall", "callid:%s:%s:%d" % (cl, n, a[2])] + a[1]
            x = self.expr(d - 1)
            if x[1][0].split(":")[0] in ("dot", "idx", "callid", "calldot", "callidx", "callother", "id"):
                x = self.const(1)
            return "(delete (%s, %s))" % ("0", x[0]), ["delother", "comma", "lit:n:0"] + x[1]
        if k == 6:
            inc, post = r.randrange(2), r.randrange(2)
            sym = "++" if inc else "--"
            c = r.randrange(3)
            if c == 0:
                n, cl = self.ident()
                js = (n + sym) if post else (sym + n)
                return "(%s)" % js, ["updid:%d%d:%s:%s" % (inc, post, cl, n)]
            if c == 1:
                l = self.expr(d - 1)
                t = "(%s).p" % l[0]
                return "(%s)" % ((t + sym) if post else (sym + t)), ["upddot:%d%d:p" % (inc, post)] + l[1]
            l, m = self.expr(d - 1), self.nonconst(d - 1)
            t = "(%s)[%s]" % (l[0], m[0])
            return "(%s)" % ((t + sym) if post else (sym + t)), ["updidx:%d%d" % (inc, post)] + l[1] + m[1]
        if k < 9:
            op = r.choice(list(BIN))
            a, b = self.expr(d - 1), self.expr(d - 1)
            if self.constlike(a) and self.constlike(b):   # both constant: only the foldings the model's evalBin knows
                x = self.const(2)
                return x[0], x[1]
            if op == "exp":
                a = ("(%s)" % a[0], a[1])
            return "((%s) %s (%s))" % (a[0], BIN[op], b[0]), ["bin:" + op] + a[1] + b[1]
        if k < 13:
            op = r.choice(list(LOG))
            a = self.const(2)[:2] if r.random() < 0.5 else self.expr(d - 1)
            b = self.expr(d - 1)
            return "((%s) %s (%s))" % (a[0], LOG[op], b[0]), ["log:" + op] + a[1] + b[1]
        if k == 13:
            t, a, b = self.expr(d - 1), self.expr(d - 1), self.expr(d - 1)
            return "((%s) ? (%s) : (%s))" % (t[0], a[0], b[0]), ["cond"] + t[1] + a[1] + b[1]
        if k < 17:
            a, b = self.expr(d - 1), self.expr(d - 1)
            return "((%s), (%s))" % (a[0], b[0]), ["comma"] + a[1] + b[1]
        if k < 20:
            kind = r.choice(["as", "ao", "al"])
            opj, opt = "=", ""
            if kind == "ao":
                o = r.choice(AOPS)
                opj, opt = BIN[o] + "=", o + ":"
            if kind == "al":
                o = r.choice(list(LOG))
                opj, opt = LOG[o] + "=", o + ":"
            rr = self.expr(d - 1)
            c = r.randrange(3)
            if c == 0:
                n, cl = self.ident()
                return "(%s %s (%s))" % (n, opj, rr[0]), ["%sid:%s%s:%s" % (kind, opt, cl, n)] + rr[1]
            if c == 1:
                l = self.expr(d - 1)
                return "((%s).p %s (%s))" % (l[0], opj, rr[0]), ["%sdot:%sp" % (kind, opt)] + l[1] + rr[1]
            l, m = self.expr(d - 1), self.nonconst(d - 1)
            tok = "%sidx:%s" % (kind, opt)
            return "((%s)[%s] %s (%s))" % (l[0], m[0], opj, rr[0]), [tok.rstrip(":")] + l[1] + m[1] + rr[1]
        if k == 20:
            e = self.expr(d - 1)
            return "(%s).q" % e[0], ["dot:q"] + e[1]
        if k == 21:
            e, m = self.expr(d - 1), self.nonconst(d - 1)
            return "(%s)[%s]" % (e[0], m[0]), ["idx"] + e[1] + m[1]
        if k < 24:
            a = self.args(d)
            c = r.randrange(4)
            if c == 0:
                l = self.expr(d - 1)
                return "(%s).m(%s)" % (l[0], a[0]), ["calldot:m:%d" % a[2]] + l[1] + a[1]
            if c == 1:
                l, m = self.expr(d - 1), self.nonconst(d - 1)
                return "(%s)[%s](%s)" % (l[0], m[0], a[0]), ["callidx:%d" % a[2]] + l[1] + m[1] + a[1]
            if c == 2:
                n, cl = self.ident()
                return "%s(%s)" % (n, a[0]), ["callid:%s:%s:%d" % (cl, n, a[2])] + a[1]
            f = self.expr(d - 1)
            if f[1][0].split(":")[0] in ("id", "dot", "idx"):
                f = ("(0, %s)" % f[0], ["comma", "lit:n:0"] + f[1])
            return "(%s)(%s)" % (f[0], a[0]), ["callother:%d" % a[2]] + f[1] + a[1]
        if k == 24:
            f, a = self.expr(d - 1), self.args(d)
            return "new (%s)(%s)" % (f[0], a[0]), ["new:%d" % a[2]] + f[1] + a[1]
        if k == 25:
            n = r.randrange(4)
            js, toks = [], []
            for _ in range(n):
                if r.random() < 0.2:
                    js.append("")
                    toks.append("hole")
                else:
                    e = self.expr(d - 1)
                    js.append("(%s)" % e[0])
                    toks += e[1]
            s = ", ".join(js)
            if js and js[-1] == "":
                s += ","
            return "[%s]" % s, ["arr:%d" % n] + toks
        if k == 26:
            n = r.randrange(4)
            js, toks = [], []
            for i in range(n):
                v = self.expr(d - 1)
                if r.random() < 0.6:
                    key = "k%d" % i
                    js.append("%s: (%s)" % (key, v[0]))
                    toks += ["k:" + key] + v[1]
                else:
                    kx = self.const(1)[:2] if r.random() < 0.4 else self.nonconst(d - 1)
                    js.append("[%s]: (%s)" % (kx[0], v[0]))
                    toks += ["c"] + kx[1] + v[1]
            return "({%s})" % ", ".join(js), ["obj:%d" % n] + toks
        if k == 27:
            head, tail = r.randrange(2), r.randrange(2)
            first = self.expr(d - 1)
            nrest = r.randrange(3)
            js = "`" + ("h" if head else "") + "${%s}" % first[0]
            toks = first[1][:]
            rest = []
            for _ in range(nrest):
                ne = r.randrange(2)
                e = self.expr(d - 1)
                js += ("m" if ne else "") + "${%s}" % e[0]
                rest += ["q:%d" % ne] + e[1]
            js += ("t" if tail else "") + "`"
            return js, ["tpl:%d%d:%d" % (head, tail, nrest)] + toks + rest
        if k == 28 and self.ctx != "g":
            return "this", ["this"]
        e = self.expr(d - 1)
        return "(%s)" % e[0], e[1]

    @staticmethod
    def constlike(e):
        return e[1][0].split(":")[0] in ("lit", "un", "bin", "log", "delother")

    def nonconst(self, d):
        for _ in range(10):
            e = self.expr(d)
            h = e[1][0].split(":")[0]
            if h not in ("lit", "un", "bin", "log", "delother"):
                return e
        n, c = self.ident()
        return n, ["id:%s:%s" % (c, n)]


def wrap(ctx, strict, js, as_value):
    us = '"use strict"; ' if strict else ""
    stmt = ("g2 = (%s);" % js) if False else ("%s;" % js)
    if js.startswith("{") or js.startswith("function") or js.startswith("class") or js.startswith("`"):
        stmt = "(%s);" % js
    body = '"@@1".m; %s "@@2".m;' % stmt
    if ctx == "g":
        return us + "var g3; " + body
    if ctx == "f":
        return us + "function f(a, b) { var v, w; let l = 1, m; const k = 2; %s }" % body
    return "(function nf(a) { var v; let l = 1; const k = 2; %s })" % body   # sloppy named function expression


def corr1_cases(rng, n):
    cases = []
    for i in range(n):
        ctx = rng.choice(["f", "f", "g", "n"])
        strict = (ctx != "n") and rng.random() < 0.35
        g = EGen(rng, ctx, strict)
        js, toks = g.expr(rng.choice([1, 2, 2, 3, 3, 4]))
        # top-level: expression statement value is needed (putOnStack = true, then saveResult); in functions it is discarded
        # an expression statement that is not the last one of its body is compiled with putOnStack = false
        p = 0
        if rng.random() < 0.4:
            # exercise putOnStack = true at the top of the expression: `l = <expr>` / `g2 = <expr>`
            if ctx == "g":
                js, toks = "(g2 = (%s))" % js, ["asid:gl:g2"] + toks
            else:
                js, toks = "(l = (%s))" % js, ["asid:lv:l"] + toks
        cases.append({"ctx": ctx, "strict": strict, "js": js, "toks": toks, "p": p, "src": wrap(ctx, strict, js, p)})
    return cases


# ------------------------------------------------------------------ corr1 for statements (JS text + model tokens)
class SGen:
    """Statements of the modelled fragment (expression / empty / var statements, blocks, if, while, do-while, for with an
    expression initialiser, return, throw; no break/continue/labels/lexical declarations), over EGen expressions."""

    def __init__(self, rng, ctx, strict, branches=False):
        self.r, self.ctx, self.strict = rng, ctx, strict
        self.e = EGen(rng, "g" if ctx == "G" else ctx, strict)
        self.branches, self.loop = branches, 0   # branches: also `break` / `continue` inside loops (model Stmt2)

    def body(self, d):
        """a loop body"""
        self.loop += 1
        try:
            return self.stmt(d)
        finally:
            self.loop -= 1

    def ex(self, d):
        """an expression in parentheses (so that it cannot be taken for a declaration or a block)"""
        r = self.r
        if r.random() < 0.25:
            x = self.e.const(2)
            js, toks = x[0], x[1]
        else:
            js, toks = self.e.expr(r.choice([0, 1, 1, 2, d]))
        return "(%s)" % js, toks

    def var_target(self):
        if self.ctx == "G":
            return "g3", "gl"
        return ("v", "sv") if (self.ctx == "n" or self.r.random() < 0.5) else ("w", "sv")

    def stmt(self, d):
        r = self.r
        if self.branches and self.loop > 0 and r.random() < (0.22 if d > 0 else 0.35):
            return ("break;", ["s:brk"]) if r.random() < 0.5 else ("continue;", ["s:cont"])
        k = r.randrange(16) if d > 0 else r.choice([0, 0, 0, 1, 2, 3, 13, 14, 15])
        if self.branches and d > 0 and r.random() < 0.5:
            k = r.choice([4, 4, 5, 6, 7, 8, 9, 16, 16, 16])      # more blocks, ifs, loops and try: where branch statements matter
        if k == 16:
            def lst():
                n = r.randrange(4)
                xs = [self.stmt(d - 1) for _ in range(n)]
                return "{ " + " ".join(x[0] for x in xs) + " }", n, [t for x in xs for t in x[1]]
            def clause():
                """catch clause: without parameter, or `catch (e)` with `e` a stack-allocated lexical binding of the clause"""
                if r.random() < 0.4:
                    return lst() + ("", 0)
                saved = self.e.ids
                self.e.ids = dict(saved, e="lv")
                try:
                    return lst() + (" (e)", 1)
                finally:
                    self.e.ids = saved
            form = r.randrange(3)
            b = lst()
            if form == 0:
                c = clause()
                return "try %s catch%s %s" % (b[0], c[3], c[0]), ["s:trycatch:%d:%d:%d" % (b[1], c[1], c[4])] + b[2] + c[2]
            if form == 1:
                f = lst()
                return "try %s finally %s" % (b[0], f[0]), ["s:tryfin:%d:%d" % (b[1], f[1])] + b[2] + f[2]
            c, f = clause(), lst()
            return ("try %s catch%s %s finally %s" % (b[0], c[3], c[0], f[0]),
                    ["s:trycf:%d:%d:%d:%d" % (b[1], c[1], f[1], c[4])] + b[2] + c[2] + f[2])
        if k in (0, 11, 12):
            js, t = self.ex(2)
            return js + ";", ["s:expr"] + t
        if k == 1:
            return ";", ["s:empty"]
        if k == 2:
            n, _ = self.var_target()
            return "var %s;" % n, ["s:var0"]
        if k == 3:
            n, c = self.var_target()
            js, t = self.ex(2)
            return "var %s = %s;" % (n, js), ["s:var:" + c] + t
        if k == 4:
            n = r.randrange(4)
            xs = [self.stmt(d - 1) for _ in range(n)]
            return "{ " + " ".join(x[0] for x in xs) + " }", ["s:block:%d" % n] + [t for x in xs for t in x[1]]
        if k == 5:
            c, a = self.ex(2), self.stmt(d - 1)
            return "if %s %s" % (c[0], a[0]), ["s:if"] + c[1] + a[1]
        if k == 6:
            c, a, b = self.ex(2), self.stmt(d - 1), self.stmt(d - 1)
            if a[1][0].split(":")[1] in ("if", "ifelse", "while", "for", "trycatch", "tryfin", "trycf"):   # no dangling else
                a = ("{ %s }" % a[0], ["s:block:1"] + a[1])
            return "if %s %s else %s" % (c[0], a[0], b[0]), ["s:ifelse"] + c[1] + a[1] + b[1]
        if k == 7:
            c, a = self.ex(2), self.body(d - 1)
            return "while %s %s" % (c[0], a[0]), ["s:while"] + c[1] + a[1]
        if k == 8:
            a, c = self.body(d - 1), self.ex(2)
            return "do %s while %s;" % (a[0], c[0]), ["s:do"] + a[1] + c[1]
        if k in (9, 10):
            m = [r.random() < 0.6, r.random() < 0.7, r.random() < 0.6]
            parts = [self.ex(2) if x else ("", []) for x in m]
            head, hcls = ("1" if m[0] else "0"), ""
            hk = r.random()
            if hk < 0.15:      # for (var x; …)
                n, _ = self.var_target()
                parts[0], head = ("var %s" % n, []), "v"
            elif hk < 0.4:     # for (var x = e; …)
                n, c = self.var_target()
                js, t = self.ex(2)
                parts[0], head, hcls = ("var %s = %s" % (n, js), t), "V", ":" + c
            a = self.body(d - 1)
            return ("for (%s; %s; %s) %s" % (parts[0][0], parts[1][0], parts[2][0], a[0]),
                    ["s:for:" + head + "".join("1" if x else "0" for x in m[1:]) + hcls] + parts[0][1] + parts[1][1] + parts[2][1] + a[1])
        if k == 13 and self.ctx != "G":
            if r.random() < 0.3:
                return "return;", ["s:ret0"]
            js, t = self.ex(2)
            return "return %s;" % js, ["s:ret"] + t
        if k == 14:
            js, t = self.ex(2)
            return "throw %s;" % js, ["s:throw"] + t
        js, t = self.ex(1)
        return js + ";", ["s:expr"] + t


def wrap_stmt(ctx, strict, js):
    us = '"use strict"; ' if strict else ""
    if ctx == "G":   # program body: needResult; the end marker has an empty result so that the statement is the last producing one
        return us + 'var g3, zz; "@@1".m; %s var zz = "@@2";' % js
    body = '"@@1".m; %s "@@2".m;' % js
    if ctx == "f":
        return us + "function f(a, b) { var v, w; let l = 1, m; const k = 2; %s }" % body
    return "(function nf(a) { var v; let l = 1; const k = 2; %s })" % body


def corr1_stmt_cases(rng, n, branches=False):
    cases = []
    for i in range(n):
        ctx = rng.choice(["f", "G", "G", "n"])
        strict = (ctx != "n") and rng.random() < 0.35
        g = SGen(rng, ctx, strict, branches)
        js, toks = g.stmt(rng.choice([1, 2, 2, 3, 3, 4] if branches else [0, 1, 1, 2, 2, 3]))
        cases.append({"ctx": ctx, "strict": strict, "js": js, "toks": toks, "nr": 1 if ctx == "G" else 0,
                      "src": wrap_stmt(ctx, strict, js)})
    return cases


# ------------------------------------------------------------------ shrinking and signatures
TOK = re.compile(r"\s+|[A-Za-z_$#][\w$]*|\d[\w.]*|\"(?:\\.|[^\"\\])*\"?|'(?:\\.|[^'\\])*'?|>>>=|\.\.\.|===|!==|\*\*=|<<=|>>=|>>>|&&=|\|\|=|\?\?=|=>|==|!=|<=|>=|&&|\|\||\?\?|\?\.|\+\+|--|[-+*/%&|^]=|<<|>>|\*\*|\$\{|.", re.S)


def shrink(src, fails, budget_s=20):
    t0 = time.time()
    if len(src) > 20000:
        return src

    def f(toks):
        if time.time() - t0 > budget_s:
            return False
        return fails("".join(toks))
    toks = TOK.findall(src)
    if not toks or not fails(src):
        return src
    # first whole lines, then tokens
    lines = src.split("\n")
    if len(lines) > 2:
        lines = Ctx.ddmin(lines, lambda ls: (time.time() - t0 < budget_s / 2) and fails("\n".join(ls)))
        src = "\n".join(lines)
        toks = TOK.findall(src)
    toks = Ctx.ddmin(toks, f)
    return "".join(toks)


def generic_signature(kind, detail, small):
    """class of a minimised failing source that no known finding accounts for"""
    if kind == "compiler-bug-diagnostic":
        m = re.search(r"(Compiler bug|BUG): (.*?)( at .*)?$", detail or "")
        if m:
            return "C01:compiler-bug-diagnostic:" + re.sub(r"[^A-Za-z.*]+", "-", re.sub(r"\d+", "N", m.group(2))).strip("-")[:70]
    m = re.search(r"runtime\.\w+: (.*?) @(.*)$", detail or "")
    if kind == "panic-in-run" and m:
        return "C01:panic-in-run:%s@%s" % (re.sub(r"\d+", "N", m.group(1)).replace(" ", "-")[:60], m.group(2)[:60])
    return "C01:%s:%s" % (kind, hashlib.sha1(small.encode("utf8", "replace")).hexdigest()[:12])


# ---- attribution of a failure to a known (unrepaired) finding: by repair, not by appearance.
# Each `known` entry of known_findings.d/C01.json names the patch that repairs its root cause ("patch": "fixes/….diff").
# A failing program is attributed to the finding iff it no longer fails on an engine built from the tree under test PLUS
# exactly that patch. A program that fails for any other reason still fails there, so nothing can be masked.
def tree_stamp(repo):
    h = hashlib.sha1()
    for dp, dns, fns in os.walk(repo):
        dns[:] = sorted(d for d in dns if d != ".git")
        for fn in sorted(fns):
            if fn.endswith(".go") or fn in ("go.mod", "go.sum"):
                p = os.path.join(dp, fn)
                st = os.stat(p)
                h.update(("%s %d %d\n" % (os.path.relpath(p, repo), st.st_size, int(st.st_mtime))).encode())
    return h.hexdigest()[:16]


def build_alt(ctx, patch_rel):
    """harness binary for REPO + patch, or None when the patch does not apply (e.g. already merged)"""
    patch = os.path.join(ROOT, patch_rel)
    if not os.path.exists(patch):
        return None
    key = hashlib.sha1((os.path.abspath(REPO) + "|" + patch_rel).encode()).hexdigest()[:10]
    d = os.path.join(BUILD, "c01_alt_" + key)
    out = os.path.join(BUILD, "harness_c01_alt_" + key)
    stamp = tree_stamp(REPO) + hashlib.sha1(open(patch, "rb").read()).hexdigest()[:8] + \
        hashlib.sha1(open(os.path.join(ROOT, "harness", "cmd", "c01", "main.go"), "rb").read() +
                     open(os.path.join(ROOT, "harness", "cmd", "c01", "gen.go"), "rb").read()).hexdigest()[:8]
    sf = out + ".stamp"
    if os.path.exists(out) and os.path.exists(sf) and open(sf).read() == stamp:
        return out
    if os.path.exists(sf) and open(sf).read() == stamp + " inapplicable":
        return None
    shutil.rmtree(d, ignore_errors=True)
    shutil.copytree(REPO, d, ignore=shutil.ignore_patterns(".git"), symlinks=True)
    # NB: not `git apply` — inside /verif (a git repository) it silently skips paths outside the index
    rc, o, e = sh(["patch", "-p1", "-N", "-s", "--dry-run", "-i", patch], cwd=d, timeout=120)
    if rc == 0:
        rc, o, e = sh(["patch", "-p1", "-N", "-s", "-i", patch], cwd=d, timeout=120)
    if rc != 0:
        open(sf, "w").write(stamp + " inapplicable")
        return None
    hdir = os.path.join(ROOT, "harness")
    alt = os.path.join(BUILD, "c01_alt_%s.mod" % key)
    mod = open(os.path.join(hdir, "go.mod")).read().replace("=> /repo", "=> " + d)
    open(alt, "w").write(mod)
    shutil.copyfile(os.path.join(REPO, "go.sum"), alt[:-4] + ".sum")
    rc, o, e = sh(["go", "build", "-tags", "verif", "-modfile=" + alt, "-o", out, "./cmd/c01"], cwd=hdir, env=GOENV, timeout=1800)
    if rc != 0:
        ctx.log("alt build failed for", patch_rel, (o + e)[-300:])
        return None
    open(sf, "w").write(stamp)
    return out


# ------------------------------------------------------------------ main
def main(ctx):
    quick = ctx.tier == "quick"
    ctx.trusted_base += [
        "harness/cmd/c01: generator, recover/watchdog wrapper, canonicalisation of instruction names (loadStack1/loadStash→loadStack …)",
        "/repo/verif_hooks_c01.go: program dump (reflect over instruction values), in-place tracing wrapper, vm.sp accessor, "
        "capture of eval-compiled code (the hook re-compiles the eval source through Runtime.compile with the engine's flags)",
        "nested JS calls made by built-ins are assumed operand-stack balanced when seen from the calling frame (vm.go call protocol)",
        "inside a variadic call region the abstract height counts each spread argument as one value (virtual height)",
    ]
    ctx.assumptions += [
        "Go runtime, reflect, the Go scheduler (watchdog via Runtime.Interrupt), regexp engines",
        "panics inside native built-ins and the parser are outside every model: searched for, not proved absent",
        "function-level operand leaks on a loop-free path to a ret are invisible to `verify` (ret resets sp); inside the modelled "
        "expression + statement fragment they are excluded by emitStmt_height / ret_height_exact + corr1, elsewhere they cannot "
        "crash (operand reads are top-relative and checked, frame and stash slots are checked) but are not proved absent",
        "the WF invariants of the scope model (Scope.lean) are transcribed from compiler.go, not derived from a model of the resolver",
    ]
    regen_ok = ctx.regen()
    # theorems + model driver first; the Tie theorems separately, so that a tie broken by a change in /repo does not take
    # the model driver (needed by the correspondences and by the search for a failing input) down with it
    lean_ok, errs = ctx.lake_build(["GojaModel.C01.Props", "model_c01"])
    names = ctx.audit("GojaModel.C01.Props", expect_min=33) if lean_ok else []
    tie_ok, terrs = ctx.lake_build(["GojaModel.C01.Tie"])
    if tie_ok:
        for t in ["modelOps_agree", "tie_new", "tie_rdupN", "tie_dupLast", "tie_concatStrings", "new_instance", "jumps_agree",
                  "dyn_covered", "emitSetP_pops", "enterFinally_clears", "hasStash_decision", "scope_runtime_side", "exceptionFromValue_cases", "asUncatchable_cases",
                  "recover_sites", "isEmptyResult_cases", "slot_access_sites"] + ["stmt_skel_" + n for n in (
                      "compileExpressionStatement", "compileEmptyStatement", "compileIfStatement", "compileIfBody",
                      "compileLabeledWhileStatement", "compileLabeledDoWhileStatement", "compileLabeledForStatement",
                      "compileReturnStatement", "compileThrowStatement", "emitVarAssign", "compileStatements",
                      "compileStatementsNeedResult", "scanStatements", "compileTryStatement", "emitBlockExitCode",
                      "compileBreak", "compileContinue", "leaveBlock")]:
            ctx.obligation("tie:" + t, "tie", True, "checked by lake build GojaModel.C01.Tie")
    else:
        ctx.obligation("tie:GojaModel.C01.Tie", "tie", False,
                       "; ".join("%s:%s %s %s" % (e["file"], e["line"], e["decl"], e["msg"][:120]) for e in terrs[:5]))
    if lean_ok and ctx.tier == "thorough":
        ctx.leanchecker("GojaModel.C01.Props")
    hbin = ctx.go_build()
    if hbin is None:
        return ctx.finish(level="proof", rule=RULE)
    model_bin = ctx.model_exe()
    have_model = lean_ok and os.path.exists(model_bin)
    H = Proc([hbin])
    M = Proc([model_bin]) if have_model else None

    def run_src(src):
        out = H.ask("run " + HEX(src))
        if out == "PROCESS-DIED":
            return {"violation": "process-died", "detail": "harness process died (fatal Go error, e.g. stack exhaustion)", "units": [], "outcome": ""}
        try:
            return json.loads(out)
        except ValueError:
            return {"violation": "harness-protocol", "detail": out[:300], "units": [], "outcome": ""}

    def verify_units(units):
        """returns list of (unit index, answer) for units the model does not accept"""
        bad = []
        if M is None:
            return bad
        for i, u in enumerate(units):
            a = M.ask(u)
            if not a.startswith("ok"):
                bad.append((i, a))
        return bad

    def fails_any(src):  # (kept for replay tooling)
        r = run_src(src)
        if r.get("violation"):
            return True
        return bool(verify_units((r.get("units") or [])))

    alts = {}   # signature -> Proc of the harness built with that finding's patch (lazily), or None

    def alt_for(entry):
        sg = entry["signature"]
        if sg not in alts:
            b = build_alt(ctx, entry["patch"]) if entry.get("patch") else None
            alts[sg] = Proc([b]) if b else None
        return alts[sg]

    def attribute(src):
        """signature of the known finding whose patch makes `src` pass completely, else None"""
        for entry in ctx.known:
            if entry.get("status") != "known" or not entry.get("patch"):
                continue
            A = alt_for(entry)
            if A is None:
                continue
            out = A.ask("run " + HEX(src))
            try:
                r = json.loads(out)
            except ValueError:
                continue
            if r.get("violation"):
                continue
            if verify_units(r.get("units") or []):
                continue
            return entry["signature"]
        return None

    def report(src, kind, detail, origin):
        # eval placement: continue with the evaluated text itself when it fails the same way on its own
        m = re.match(r'^\s*(?:"use strict";\s*)?(?:\(0,\s*eval\)|eval)\((".*")\);?\s*$', src, re.S)
        if m:
            try:
                inner = json.loads(m.group(1))
                r0 = run_src(inner)
                if r0.get("violation") == kind or (kind == "verify-reject" and verify_units(r0.get("units") or [])):
                    src, detail = inner, (r0.get("detail") or detail)
            except ValueError:
                pass

        def same(s):
            r = run_src(s)
            if r.get("violation"):
                return r["violation"] == kind or kind == "verify-reject"
            if kind == "verify-reject":
                return bool(verify_units((r.get("units") or [])))
            return False
        sig, small = None, src
        hit = attribute(src)
        if hit is not None:
            sig = hit          # repaired by a known finding's patch: no need to minimise again
        else:
            small = shrink(src, same, budget_s=10 if quick else 15)
            if not small.strip() or not same(small):
                small = src
            sig = attribute(small) or generic_signature(kind, detail, small)
        r = run_src(small)
        st = ctx.violation(sig, "%s (%s): %s" % (kind, origin, small[:160].replace("\n", " ")),
                           {"kind": "program", "source": small, "original_source": src[:4000], "violation": kind, "detail": detail,
                            "observed": {k: r.get(k) for k in ("outcome", "violation", "detail")},
                            "expected": "Parse/Compile/RunProgram return a value or a documented error; operand stack back at entry height; "
                                        "every compiled unit accepted by the proven verifier",
                            "verifier": verify_units((r.get("units") or []))[:3], "origin": origin})
        ctx.log("violation", st, sig, "|", small[:120].replace("\n", " "))
        return st

    # ---------------------------------------------------------------- corpus
    cdir = os.path.join(ROOT, "corpus", "C01")
    corpus = sorted(fn for fn in os.listdir(cdir) if fn.endswith(".js")) if os.path.isdir(cdir) else []
    ncorp = 0
    for fn in corpus:
        src = open(os.path.join(cdir, fn), errors="surrogateescape").read()
        r = run_src(src)
        bad = verify_units((r.get("units") or []))
        ctx.count()
        ncorp += 1
        ctx.nontriv("corpus:" + fn)
        if r.get("violation"):
            report(src, r["violation"], r.get("detail", ""), "corpus/" + fn)
        elif bad:
            report(src, "verify-reject", bad[0][1], "corpus/" + fn)
    ctx.stats["corpus_files"] = ncorp

    # ---------------------------------------------------------------- corr1
    n1 = 2500 if quick else 20000
    cases = corr1_cases(ctx.rng, n1)
    impl = [H.ask("compile %s %s" % ("g" if c["ctx"] == "g" else "f", HEX(c["src"]))) for c in cases]
    agree1, mism, illformed, heads, compiled = True, [], [], {}, 0
    if have_model:
        for c, im in zip(cases, impl):
            if im.startswith("ERR"):
                heads["compile-error"] = heads.get("compile-error", 0) + 1
                continue
            compiled += 1
            mo = M.ask("emit %d %d %s" % (1 if c["strict"] else 0, c["p"], " ".join(c["toks"])))
            code, _, info = mo.partition(" | ")
            ctx.count()
            heads[c["toks"][0].split(":")[0]] = heads.get(c["toks"][0].split(":")[0], 0) + 1
            ctx.nontriv("c1:" + code + "|" + c["ctx"])
            if code.strip() != im.strip():
                agree1 = False
                if len(mism) < 5:
                    mism.append({"src": c["src"], "toks": " ".join(c["toks"]), "model": code, "impl": im})
            elif "ILL-FORMED" in info or "verify=false" in info:
                illformed.append(c)
        for c in cases[:3]:
            ctx.sample({"corr1": c["src"][:200]})
        ctx.stats["corr1"] = {"cases": n1, "compiled": compiled, "by_head": heads, "ill_formed_by_model": len(illformed)}
        ctx.obligation("corr:emit-bytecode-exact", "correspondence", agree1 and compiled > n1 // 2,
                       json.dumps(mism)[:1800] if mism else "compiled=%d" % compiled)
        # model says the (agreeing) code is ill-formed → run it: that is a candidate property violation
        for c in (illformed[:10] + [cc for cc in cases if any(m["src"] == cc["src"] for m in mism)][:10]):
            body = c["src"]
            runnable = body + ("\ntry { f(1, {}); } catch (e) {}" if c["ctx"] == "f" else "") if c["ctx"] != "n" else \
                "try { " + body + "(1); } catch (e) {}"
            r = run_src(runnable)
            if r.get("violation"):
                report(runnable, r["violation"], r.get("detail", ""), "corr1")
            else:
                bad = verify_units((r.get("units") or []))
                if bad:
                    report(runnable, "verify-reject", bad[0][1], "corr1")
    else:
        ctx.obligation("corr:emit-bytecode-exact", "correspondence", False, "model driver unavailable (Lean build failed)")

    # ---------------------------------------------------------------- corr1 for statements
    n1s = 1200 if quick else 10000
    scases = corr1_stmt_cases(ctx.rng, n1s)
    simpl = [H.ask("compile %s %s" % ("G" if c["ctx"] == "G" else "f", HEX(c["src"]))) for c in scases]
    if have_model:
        agree1s, smism, sill, sheads, scompiled = True, [], [], {}, 0
        for c, im in zip(scases, simpl):
            if im.startswith("ERR"):
                sheads["compile-error"] = sheads.get("compile-error", 0) + 1
                continue
            scompiled += 1
            mo = M.ask("emits %d %d %s" % (1 if c["strict"] else 0, c["nr"], " ".join(c["toks"])))
            code, _, info = mo.partition(" | ")
            ctx.count()
            hd = c["toks"][0].split(":")[1]
            sheads[hd] = sheads.get(hd, 0) + 1
            ctx.nontriv("c1s:" + code + "|" + c["ctx"])
            if code.strip() != im.strip():
                agree1s = False
                if len(smism) < 5:
                    smism.append({"src": c["src"], "toks": " ".join(c["toks"]), "model": code, "impl": im})
            elif "ILL-FORMED" in info or "verify=false" in info or "unresolved" in info or mo.startswith("error"):
                sill.append(c)
        for c in scases[:2]:
            ctx.sample({"corr1-stmt": c["src"][:200]})
        ctx.stats["corr1_stmt"] = {"cases": n1s, "compiled": scompiled, "by_head": sheads, "ill_formed_by_model": len(sill)}
        ctx.obligation("corr:emit-statements-bytecode-exact", "correspondence", agree1s and scompiled > n1s // 2,
                       json.dumps(smism)[:1800] if smism else "compiled=%d" % scompiled)
        ctx.obligation("corr:emitted-statements-pass-model-checks", "correspondence", not sill,
                       json.dumps([{"src": c["src"], "toks": " ".join(c["toks"])} for c in sill[:3]])[:1500] if sill
                       else "height function and proven verifier accept every emitted statement")
    else:
        ctx.obligation("corr:emit-statements-bytecode-exact", "correspondence", False, "model driver unavailable (Lean build failed)")

    # ---------------------------------------------------------------- corr1 for statements with break / continue (model Stmt2)
    n1b = 800 if quick else 8000
    bcases = corr1_stmt_cases(ctx.rng, n1b, branches=True)
    bimpl = [H.ask("compile %s %s" % ("G" if c["ctx"] == "G" else "f", HEX(c["src"]))) for c in bcases]
    if have_model:
        agree1b, bmism, bill, bcompiled, bwith = True, [], [], 0, 0
        for c, im in zip(bcases, bimpl):
            if im.startswith("ERR"):
                continue
            bcompiled += 1
            mo = M.ask("emits2 %d %d %s" % (1 if c["strict"] else 0, c["nr"], " ".join(c["toks"])))
            code, _, info = mo.partition(" | ")
            ctx.count()
            if "s:brk" in c["toks"] or "s:cont" in c["toks"] or any(t.startswith("s:try") for t in c["toks"]):
                bwith += 1
            ctx.nontriv("c1b:" + code + "|" + c["ctx"])
            if code.strip() != im.strip():
                agree1b = False
                if len(bmism) < 5:
                    bmism.append({"src": c["src"], "toks": " ".join(c["toks"]), "model": code, "impl": im})
            elif "verify=false" in info or "unresolved" in info or "len=false" in info or mo.startswith("error"):
                bill.append(c)
        ctx.sample({"corr1-branch": next((c["src"] for c in bcases if "s:brk" in c["toks"]), bcases[0]["src"])[:200]})
        ctx.stats["corr1_branch"] = {"cases": n1b, "compiled": bcompiled, "with_break_or_continue": bwith, "rejected_by_model_checks": len(bill)}
        ctx.obligation("corr:emit-branch-statements-bytecode-exact", "correspondence",
                       agree1b and bcompiled > n1b // 2 and bwith > n1b // 10 and not bill,
                       json.dumps(bmism)[:1800] if bmism else (json.dumps([{"src": c["src"]} for c in bill[:3]])[:900] if bill else
                       "compiled=%d, %d with break/continue; the proven verifier accepts every emitted body" % (bcompiled, bwith)))
    else:
        ctx.obligation("corr:emit-branch-statements-bytecode-exact", "correspondence", False, "model driver unavailable (Lean build failed)")

    # ---------------------------------------------------------------- classifier correspondence (exhaustive over the payload kinds)
    kinds = ["Object", "Value", "Exception", "typeError", "referenceError", "rangeError", "syntaxError", "InterruptedError",
             "StackOverflowError", "wrappedUncatchable", "CompilerSyntaxError", "CompilerReferenceError", "goError", "runtimeError",
             "string", "nilValue"]
    cl_bad = []
    for k in kinds:
        im = H.ask("classify " + k)
        ctx.count()
        if have_model:
            mo = M.ask("classify " + k)
            mrun = dict(x.split("=") for x in mo.split()).get("run") if "=" in mo else mo
            mcomp = dict(x.split("=") for x in mo.split()).get("compile") if "=" in mo else mo
            want = mrun if mrun != "repanic" else ("compile-error" if mcomp == "compile-error" else "repanic")
            if im != want:
                cl_bad.append((k, im, mo))
    ctx.obligation("corr:classifier(exhaustive over %d payload kinds)" % len(kinds), "correspondence", not cl_bad and have_model, str(cl_bad))

    # ---------------------------------------------------------------- search + corr2 + corr3
    nsh = max(2, min(14, (os.cpu_count() or 4) - 2))
    total = 20000 if quick else 4000000
    secs = 4.0 if quick else 60.0        # CPU seconds per shard (the harness measures its own CPU time: load tolerant)
    sdir = os.path.join(BUILD, "c01_search")
    os.makedirs(sdir, exist_ok=True)
    for fn in os.listdir(sdir):
        os.remove(os.path.join(sdir, fn))
    procs = []
    for sh in range(nsh):
        pfx = os.path.join(sdir, "s%d" % sh)
        p = subprocess.Popen([hbin], stdin=subprocess.PIPE, stdout=subprocess.PIPE, stderr=subprocess.PIPE, text=True, errors="replace")
        p.stdin.write("search %d %d %d %d %f %s %d\n" % (ctx.seed, sh, nsh, total // nsh, secs, pfx, 5 if quick else 7))
        p.stdin.close()
        procs.append((sh, p, pfx))
    sums = []
    for sh, p, pfx in procs:
        out = p.stdout.read()
        err = p.stderr.read()
        p.wait()
        try:
            sums.append(json.loads(out.strip().splitlines()[-1]))
        except Exception:
            # a fatal Go error (e.g. stack exhaustion) killed the shard: that itself is a crash of the host
            tail = (err or out)[-600:]
            last = ""
            try:
                last = open(pfx + ".cur", errors="surrogateescape").read()
            except Exception:
                pass
            ctx.obligation("search:shard-%d-survived" % sh, "correspondence", False, tail)
            if last:
                report(last, "process-died", tail[-200:], "search")
    agg = {"programs": 0, "units": 0, "instrs": 0, "bytes": 0, "max_len": 0}
    classes, outcomes, skipped = {}, {}, {}
    for s in sums:
        for k in agg:
            agg[k] = max(agg[k], s[k]) if k == "max_len" else agg[k] + s[k]
        for d, src_d in ((classes, s["classes"]), (outcomes, s["outcomes"]), (skipped, s["obs_skipped"])):
            for k, v in src_d.items():
                d[k] = d.get(k, 0) + v
    ctx.count(agg["programs"])
    ctx.stats["search_cpu_seconds"] = round(sum(x.get("cpu_seconds", 0) for x in sums), 1)
    ctx.stats["search"] = dict(agg, classes=classes, outcomes=dict(sorted(outcomes.items(), key=lambda x: -x[1])[:30]), shards=len(sums))
    for s in sums[:1]:
        for x in s.get("samples", [])[:2]:
            ctx.sample({"generated": x[:300]})
    # every violating program the shards kept is examined: fast attribution by repair first; only what no known
    # finding's patch repairs is shrunk and reported (the number of shrinks is capped, the verdict is not)
    unattributed, nknown_search, tried_search = 0, 0, 0
    for s in sums:
        for v in (s["violations"] or []):
            hit = attribute(v["src"])
            if hit is not None:
                nknown_search += 1
                ctx.violation(hit, "%s (search/%s): %s" % (v["kind"], v["class"], v["src"][:120].replace("\n", " ")), {})
                continue
            # not repaired by any single known patch as it stands (possibly two known defects in one program):
            # minimise, then decide
            tried_search += 1
            if tried_search <= 8 and report(v["src"], v["kind"], v["detail"], "search/" + v["class"]) == "known":
                nknown_search += 1
            else:
                unattributed += 1
    ctx.stats["search_violations"] = {"attributed_to_known": nknown_search, "unattributed": unattributed,
                                      "dropped_by_shard_cap": sum(x.get("violations_dropped", 0) for x in sums)}
    ctx.obligation("search:no-unknown-violation(%d programs)" % agg["programs"], "correspondence",
                   not ctx.violations and unattributed == 0, "; ".join(v["signature"] for v in ctx.violations[:5]))

    # corr2: every distinct unit through the proven verifier (sharded over model processes)
    rejects, unknown_instr, nunits, kinds_seen = [], {}, 0, {}
    if have_model:
        mprocs = []
        for sh, p, pfx in procs:
            if not os.path.exists(pfx + ".dump"):
                continue
            mp = subprocess.Popen("cut -d' ' -f4- %s | %s" % (pfx + ".dump", model_bin), shell=True, stdout=subprocess.PIPE, text=True, errors="replace")
            mprocs.append((pfx, mp))
        for pfx, mp in mprocs:
            answers = mp.stdout.read().splitlines()
            mp.wait()
            ids = [l.split(" ", 3)[:3] for l in open(pfx + ".dump", errors="replace")]
            nunits += len(answers)
            for (pid, ui, kind), a in zip(ids, answers):
                kinds_seen[kind] = kinds_seen.get(kind, 0) + 1
                if a.startswith("ok"):
                    ctx.nontriv("u:" + pfx[-3:] + pid + "." + ui)
                    continue
                if a.startswith("error"):
                    unknown_instr[a[:120]] = unknown_instr.get(a[:120], 0) + 1
                rejects.append((pfx, int(pid), a))
        written = sum(x.get("units_written", 0) for x in sums)
        werrs = sorted(set(x.get("write_error", "") for x in sums) - {""})
        ctx.stats["corr2"] = {"distinct_units_verified": nunits, "units_written_by_harness": written, "write_errors": werrs,
                              "rejected": len(rejects), "unresolved_instructions": unknown_instr, "units_by_kind": kinds_seen}
        # code compiled at run time by eval is captured by the hook and verified like the rest
        ctx.obligation("corr:eval-compiled-code-verified", "correspondence", kinds_seen.get("eval", 0) > 0,
                       "%d program units compiled by eval at run time went through the verifier (units by kind: %s)"
                       % (kinds_seen.get("eval", 0), json.dumps(kinds_seen, sort_keys=True)))
        # every unit the shards compiled must have been seen by the verifier (a truncated dump file, e.g. a transient
        # disk-full, would otherwise silently shrink the coverage)
        ctx.obligation("corr:verifier-saw-every-unit", "correspondence", nunits == written and not werrs,
                       "verified %d of %d units written; write errors: %s" % (nunits, written, werrs))
        srcs_cache = {}
        seen_prog, rej_known, rej_unattr, tried_rej = set(), 0, 0, 0
        for pfx, pid, a in rejects:
            if (pfx, pid) in seen_prog:
                continue
            seen_prog.add((pfx, pid))
            if pfx not in srcs_cache:
                srcs_cache[pfx] = {}
                for l in open(pfx + ".src", errors="replace"):
                    try:
                        j = json.loads(l)
                        srcs_cache[pfx][j["id"]] = j["src"]
                    except ValueError:
                        pass
            src = srcs_cache[pfx].get(pid)
            if src is None:
                rej_unattr += 1
                continue
            hit = attribute(src)
            if hit is not None:
                rej_known += 1
                ctx.violation(hit, "verify-reject (corr2): %s" % src[:120].replace("\n", " "), {})
                continue
            tried_rej += 1
            if tried_rej <= 8 and report(src, "verify-reject", a, "corr2") == "known":
                rej_known += 1
            else:
                rej_unattr += 1
        ctx.stats["corr2"].update({"rejected_programs": len(seen_prog), "attributed_to_known": rej_known, "unattributed": rej_unattr})
        ctx.obligation("corr:verifier-accepts-all-compiled-units(%d units)" % nunits, "correspondence",
                       not unknown_instr and rej_unattr == 0,
                       "; ".join("%s id=%d %s" % (os.path.basename(p), i, a[:100]) for p, i, a in rejects[:5]) or "all accepted")
    else:
        ctx.obligation("corr:verifier-accepts-all-compiled-units", "correspondence", False, "model driver unavailable (Lean build failed)")

    # corr3: executed instructions' real effect vs the table
    if have_model:
        obs = {}
        for sh, p, pfx in procs:
            if os.path.exists(pfx + ".obs"):
                for l in open(pfx + ".obs", errors="replace"):
                    parts = l.rstrip("\n").rsplit(" ", 3)
                    if len(parts) == 4:
                        key = (parts[0], parts[1], parts[2])
                        obs[key] = obs.get(key, 0) + int(parts[3])
        bad3, names3, skip3, dyn_seen = [], set(), 0, {}
        for (ins, dpc, dsp), cnt in obs.items():
            a = M.ask("%s %s %s" % (ins, dpc, dsp))
            nm = ins.split(" ", 1)[1].split("|")[0]
            if a == "ok":
                names3.add(nm)
                ctx.nontriv("o:" + nm + dpc + dsp)
            elif a == "skip":
                skip3 += 1
            else:
                # instructions whose real Δsp depends on run-time data (actual argument count, spread length, frame switch,
                # suspended generator): their hand-written effect is relative to the normalised frame, not comparable here
                if nm in DYN_OBS:
                    skip3 += 1
                    dyn_seen[nm] = dyn_seen.get(nm, 0) + cnt
                    continue
                bad3.append("%s dpc=%s dsp=%s x%d -> %s" % (ins[:80], dpc, dsp, cnt, a[:80]))
        ctx.stats["corr3"] = {"distinct_observations": len(obs), "instruction_types_confirmed": len(names3), "executions": sum(obs.values()),
                              "skipped_kinds": skip3, "dyn_observed_not_compared": dyn_seen, "not_attributable": dict(sorted(skipped.items(), key=lambda x: -x[1])[:12])}
        ctx.obligation("corr:executed-instruction-effects-match-table(%d instruction types)" % len(names3), "correspondence",
                       not bad3 and len(names3) > 60, "; ".join(bad3[:6]) or "ok")
    H.close()
    for A in alts.values():
        if A:
            A.close()
    if M:
        M.close()
    ctx.stats["lean_theorems"] = names
    return ctx.finish(level="proof", rule=RULE)


DYN_OBS = {"_pushSpread", "enterFunc", "enterFunc1", "enterFuncStashless", "enterFuncBody", "yieldMarker", "yieldEmpty", "call",
           "callEval", "callEvalStrict", "_callVariadic", "_callEvalVariadic", "_callEvalVariadicStrict", "_newVariadic",
           "_superCallVariadic", "superCall", "_new", "_ret", "cret", "_throw", "leaveTry", "leaveFinally", "bindGlobal"}

RULE = ("cases = corpus files + corr1 expressions (random ASTs of the modelled fragment, depth 1-4, contexts function/global/"
        "sloppy named function expression × strict/sloppy × putOnStack) + corr1 statements (random statements of the modelled "
        "fragment, depth 0-3, function body / named function expression / program body with needResult; and of the fragment with "
        "break/continue/try, depth 1-4) + classifier payload kinds (exhaustive) + search programs "
        "(62% grammar-generated over strict/sloppy × global/function/eval placement, 6% deep nesting 20-200, 22% token mutations, "
        "10% raw bytes; ≤ 64 KiB); distinct non-trivial = distinct canonical bytecode per corr1 case + distinct compiled unit accepted "
        "by the verifier + distinct (instruction, Δpc, Δsp) observation confirmed against the table")


def replay(ctx, path):
    rep = json.load(open(path))
    hbin = ctx.go_build()
    if hbin is None:
        print("harness build failed")
        return 2
    src = rep.get("source")
    if src is None:
        print(json.dumps(rep, indent=1)[:3000])
        return 0
    H = Proc([hbin])
    out = H.ask("run " + HEX(src))
    H.close()
    print("source:", src)
    print("expected:", rep.get("expected"))
    if out == "PROCESS-DIED":
        print("observed: harness process died (fatal Go error)")
        return 1
    r = json.loads(out)
    print("observed:", {k: r.get(k) for k in ("outcome", "violation", "detail")})
    model_bin = ctx.model_exe()
    rc = 1 if r.get("violation") else 0
    if os.path.exists(model_bin):
        M = Proc([model_bin])
        for i, u in enumerate((r.get("units") or [])):
            a = M.ask(u)
            print("verifier unit %d: %s" % (i, a))
            if not a.startswith("ok"):
                rc = 1
        M.close()
    return rc
