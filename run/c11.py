#!/usr/bin/env python3
"""
C11 — forwarding Proxy == target; invariant-breaking handlers rejected.

Run order (BUILDERS.md): regen (extract/c11.go -> Generated/C11_Checks.lean) ; lake build Props + Tie +
driver ; audit ; go build harness ; correspondence A (lattice, exhaustive over the abstract domain):
white-box calls of the real post-checks + end-to-end proxies with lying/honest handlers, answers compared
with (1) the functions regenerated from proxy.go run by the Lean driver [model == implementation] and
(2) the §10.5 spec model [the property]; correspondence B (lock-step histories: target vs forwarding
proxy, JS and Go handlers, 1-3 layers, inner trap logs vs the Lean layer model).
"""
import itertools, json, os, sys, threading, time
from vlib import *

PROP = "C11"

# ------------------------------------------------------------------------------------------------
# token helpers / python transcription of the spec side (fallback oracle when the Lean driver is
# unavailable, and cross-check of the Lean spec functions on every run)
# ------------------------------------------------------------------------------------------------

def parse_desc(tok):
    v, w, e, c, g, s = tok.split(",")
    return {"v": v, "w": w, "e": e, "c": c, "g": g, "s": s}

def desc_ill_formed(d):
    return (d["g"] != "-" or d["s"] != "-") and (d["v"] != "-" or d["w"] != "-")

def parse_cur(tok):
    """-> None | ('D', v, w, e, c) | ('A', g, s, e, c)   (booleans as '0'/'1', g/s '-' = undefined)"""
    if tok == "-":
        return None
    k, rest = tok[:2], tok[2:].split(",")
    if k == "P:":
        return ("D", rest[0], "1", "1", "1")
    if k == "D:":
        return ("D", rest[0], rest[1], rest[2], rest[3])
    if k == "A:":
        return ("A", rest[0], rest[1], rest[2], rest[3])
    raise ValueError(tok)

def acc_field(tok):
    """descriptor get/set token -> spec value: '-' undefined, 'oN' function"""
    return "-" if tok == "u" else tok

def spec_is_compatible(ext, d, cur):
    """§10.1.6.3 ValidateAndApplyPropertyDescriptor with O = undefined"""
    if cur is None:
        return ext
    kind, a, b, e, c = cur
    if c == "0":
        if d["c"] == "1":
            return False
        if d["e"] != "-" and d["e"] != e:
            return False
        is_acc = d["g"] != "-" or d["s"] != "-"
        is_data = d["v"] != "-" or d["w"] != "-"
        generic = not is_acc and not is_data
        if not generic and is_acc != (kind == "A"):
            return False
        if kind == "A":
            if d["g"] != "-" and acc_field(d["g"]) != a:
                return False
            if d["s"] != "-" and acc_field(d["s"]) != b:
                return False
        elif b == "0":       # data, not writable   (cur = ('D', v, w, e, c): a = v, b = w)
            if d["w"] == "1":
                return False
            if d["v"] != "-" and d["v"] != a:
                return False
    return True

def complete(d):
    d = dict(d)
    if d["g"] == "-" and d["s"] == "-":
        if d["v"] == "-": d["v"] = "u"
        if d["w"] == "-": d["w"] = "0"
    else:
        if d["g"] == "-": d["g"] = "u"
        if d["s"] == "-": d["s"] = "u"
    if d["e"] == "-": d["e"] = "0"
    if d["c"] == "-": d["c"] = "0"
    return d

def show_completed(d):
    if d["g"] != "-" or d["s"] != "-":
        return "d:A:%s,%s,%s,%s" % (acc_field(d["g"]), acc_field(d["s"]), d["e"], d["c"])
    return "d:D:%s,%s,%s,%s" % (d["v"], d["w"], d["e"], d["c"])

def py_spec(f):
    """spec answer for a W/E line (list of tokens), mirroring Driver.step + Model Part 3"""
    mode, hk, kk, trap, a = f[0], f[1], f[2], f[3], f[4:]
    B = lambda t: t == "1"
    bs = lambda b: "b:1" if b else "b:0"
    if trap == "compat":
        return bs(spec_is_compatible(B(a[0]), parse_desc(a[2]), parse_cur(a[1])))
    if trap == "gpo":
        ext, tp, res = B(a[0]), a[1], a[2]
        if res != "n" and not res.startswith("o"):
            return "TE"
        if ext or res == tp:
            return "proto:" + res
        return "TE"
    if trap == "spo":
        ext, tp, v, b, thr = B(a[0]), a[1], a[2], B(a[3]), B(a[4])
        if not b:
            return "TE" if thr else "b:0"
        return "b:1" if (ext or v == tp) else "TE"
    if trap == "ie":
        return bs(B(a[1])) if a[0] == a[1] else "TE"
    if trap == "pe":
        ext, b, thr = B(a[0]), B(a[1]), B(a[2])
        if b:
            return "TE" if ext else "b:1"
        return "TE" if thr else "b:0"
    if trap == "gopd":
        ext, cur, td = B(a[0]), parse_cur(a[1]), a[2]
        if mode == "E" and hk == "G" and td == "-,-,-,-,-,-":
            td = "u"
        if td == "p":
            return "TE"
        if td == "u":
            if cur is None:
                return "d:-"
            if cur[4] == "0" or not ext:
                return "TE"
            return "d:-"
        d = parse_desc(td)
        if desc_ill_formed(d):
            return "TE"
        r = complete(d)
        if not spec_is_compatible(ext, r, cur):
            return "TE"
        if r["c"] == "0":
            if cur is None or cur[4] == "1":
                return "TE"
            if r["w"] == "0" and cur[0] == "D" and cur[2] == "1":
                return "TE"
        return show_completed(r)
    if trap == "def":
        ext, cur, d, b, thr = B(a[0]), parse_cur(a[1]), parse_desc(a[2]), B(a[3]), B(a[4])
        if mode == "E" and desc_ill_formed(d):
            return "TE"
        if not b:
            return "TE" if thr else "b:0"
        scf = d["c"] == "0"
        if cur is None:
            return "TE" if (not ext or scf) else "b:1"
        if not spec_is_compatible(ext, d, cur):
            return "TE"
        if scf and cur[4] == "1":
            return "TE"
        if cur[0] == "D" and cur[4] == "0" and cur[2] == "1" and d["w"] == "0":
            return "TE"
        return "b:1"
    if trap == "has":
        ext, cur, b = B(a[0]), parse_cur(a[1]), B(a[2])
        if b:
            return "b:1"
        if cur is not None and (cur[4] == "0" or not ext):
            return "TE"
        return "b:0"
    if trap == "get":
        cur, v = parse_cur(a[1]), a[2]
        if cur is not None and cur[4] == "0":
            if cur[0] == "D" and cur[2] == "0" and v != cur[1]:
                return "TE"
            if cur[0] == "A" and cur[1] == "-" and v != "u":
                return "TE"
        return "v:" + v
    if trap == "set":
        cur, v, b, thr = parse_cur(a[1]), a[2], B(a[3]), B(a[4])
        if not b:
            return "TE" if thr else "b:0"
        if cur is not None and cur[4] == "0":
            if cur[0] == "D" and cur[2] == "0" and v != cur[1]:
                return "TE"
            if cur[0] == "A" and cur[2] == "-":
                return "TE"
        return "b:1"
    if trap == "del":
        ext, cur, b, thr = B(a[0]), parse_cur(a[1]), B(a[2]), B(a[3])
        if not b:
            return "TE" if thr else "b:0"
        if cur is not None and (cur[4] == "0" or not ext):
            return "TE"
        return "b:1"
    if trap == "cons":
        return ("v:" + a[0]) if a[0].startswith("o") else "TE"
    if trap == "keys" and a[2] == "nil":
        return "TE"
    if trap == "keys":
        ext = B(a[0])
        tk = [] if a[1] == "-" else [(t[0], t[1] == "1") for t in a[1].split(",")]
        items = [] if a[2] == "-" else a[2].split(",")
        if "!" in items or len(set(items)) != len(items):
            return "TE"
        for k, conf in tk:
            if not conf and k not in items:
                return "TE"
        if not ext:
            names = [k for k, _ in tk]
            if any(k not in items for k in names) or any(k not in names for k in items):
                return "TE"
        return "k:" + (",".join(items) if items else "-")
    return "?"

# ------------------------------------------------------------------------------------------------
# lattice
# ------------------------------------------------------------------------------------------------

DESC_V = ["-", "i1", "i2", "u"]
FLAGS = ["-", "0", "1"]
ACC = ["-", "u", "o1", "o2"]

def all_descs():
    for v, w, e, c, g, s in itertools.product(DESC_V, FLAGS, FLAGS, FLAGS, ACC, ACC):
        yield ",".join((v, w, e, c, g, s))

def all_curs():
    out = ["-", "P:i1"]
    for v in ("i1", "u"):
        for w, e, c in itertools.product("01", repeat=3):
            out.append("D:%s,%s,%s,%s" % (v, w, e, c))
    for g in ("-", "o1"):
        for s in ("-", "o1"):
            for e, c in itertools.product("01", repeat=2):
                out.append("A:%s,%s,%s,%s" % (g, s, e, c))
    return out

def honest_desc(cur):
    """the exact descriptor of an existing property, as V,W,E,C,G,S"""
    c = parse_cur(cur)
    if c[0] == "D":
        return [c[1], c[2], c[3], c[4], "-", "-"]
    return ["-", "-", c[3], c[4], "u" if c[1] == "-" else c[1], "u" if c[2] == "-" else c[2]]

def near_honest_descs(cur):
    """honest descriptor and every descriptor differing from it in exactly one field (changed or dropped)"""
    if cur == "-":
        base = ["i1", "1", "1", "1", "-", "-"]
    else:
        base = honest_desc(cur)
    doms = [DESC_V, FLAGS, FLAGS, FLAGS, ACC, ACC]
    seen = []
    def add(d):
        t = ",".join(d)
        if t not in seen:
            seen.append(t)
    add(base)
    for i, dom in enumerate(doms):
        for alt in dom:
            if alt != base[i]:
                d = list(base); d[i] = alt
                add(d)
    # also the accessor <-> data flips with the common flags kept
    add(["-", "-", base[2], base[3], "o1", "-"])
    add(["i1", "-", base[2], base[3], "-", "-"])
    add(["-", "-", "-", "-", "-", "-"])
    return seen

SV_VALS = ["u", "n", "i0", "z", "N", "i1", "i2", "t", "s1", "o3"]

def sv_curs():
    out = all_curs()
    for v in ("i0", "z", "N", "o3", "s1"):
        out.append("D:%s,0,1,0" % v)
        out.append("D:%s,1,1,0" % v)
    return out

def key_lattice(thorough):
    tks = ["-"]
    names = ["a", "b", "y"] + (["7"] if thorough else [])
    for r in range(1, len(names) + 1):
        for sub in itertools.combinations(names, r):
            for bits in itertools.product("01", repeat=r):
                tks.append(",".join(k + b for k, b in zip(sub, bits)))
    alpha = ["a", "b", "c", "y", "!"] + (["7", "w"] if thorough else [])
    items = ["-"]
    for r in range(1, 4):
        for seq in itertools.product(alpha, repeat=r):
            items.append(",".join(seq))
    if thorough:
        for seq in itertools.permutations(["a", "b", "y", "7"], 4):
            items.append(",".join(seq))
    return tks, items

def gen_lattice(ctx):
    """-> list of harness lines.  White-box: the full product.  End-to-end: quick = near-honest
    descriptors with handler kind / key kind rotated, thorough = near-honest under every handler kind x key
    kind plus the full descriptor product under rotation."""
    thorough = ctx.tier == "thorough"
    L = corpus_lines(("W", "E"))          # original failing inputs of the repaired defects run first
    curs = all_curs()
    descs = list(all_descs())
    if not thorough:
        # quick tier: the value `undefined` in descriptors / existing data properties behaves like any other value
        # different from i1 (parametricity); drop it to stay inside the time budget.  Thorough enumerates everything.
        descs = [d for d in descs if d.split(",")[0] != "u"]
        curs = [c for c in curs if not c.startswith("D:u,")]
    # ---- white-box, exhaustive
    for ext in "01":
        for cur in curs:
            for d in descs:
                L.append("W - - compat %s %s %s" % (ext, cur, d))
                L.append("W - - def %s %s %s 1 0" % (ext, cur, d))
                L.append("W - - gopd %s %s %s" % (ext, cur, d))
            L.append("W - - gopd %s %s u" % (ext, cur))
            L.append("W - - gopd %s %s p" % (ext, cur))
            for b in "01":
                L.append("W - - has %s %s %s" % (ext, cur, b))
                for thr in "01":
                    L.append("W - - del %s %s %s %s" % (ext, cur, b, thr))
                    L.append("W - - def %s %s i1,1,1,1,-,- %s %s" % (ext, cur, b, thr))
    for cur in sv_curs():
        for v in SV_VALS:
            L.append("W - - get 1 %s %s" % (cur, v))
            for b in "01":
                for thr in "01":
                    L.append("W - - set 1 %s %s %s %s" % (cur, v, b, thr))
    # ---- end-to-end
    combos = [(h, k) for h in "JG" for k in "SIYN"]      # N: the canonical numeric STRING "7" (Idx traps of a Go handler)
    rot = [0]
    def kinds(full):
        if full:
            return combos
        rot[0] += 1
        return [combos[rot[0] % len(combos)]]
    for ext in "01":
        for cur in curs:
            nh = near_honest_descs(cur)
            for d in nh:
                for h, k in kinds(thorough):
                    L.append("E %s %s gopd %s %s %s" % (h, k, ext, cur, d))
                for h, k in kinds(thorough):
                    L.append("E %s %s def %s %s %s 1 0" % (h, k, ext, cur, d))
            if thorough:
                for d in descs:
                    for h, k in kinds(False):
                        L.append("E %s %s gopd %s %s %s" % (h, k, ext, cur, d))
                    for h, k in kinds(False):
                        L.append("E %s %s def %s %s %s 1 0" % (h, k, ext, cur, d))
            for h, k in combos:
                L.append("E %s %s gopd %s %s u" % (h, k, ext, cur))
                if h == "J":
                    L.append("E %s %s gopd %s %s p" % (h, k, ext, cur))
                for b in "01":
                    L.append("E %s %s has %s %s %s" % (h, k, ext, cur, b))
                    for thr in "01":
                        L.append("E %s %s del %s %s %s %s" % (h, k, ext, cur, b, thr))
                        L.append("E %s %s def %s %s i1,1,1,1,-,- %s %s" % (h, k, ext, cur, b, thr))
    for cur in sv_curs():
        for v in SV_VALS:
            for h, k in kinds(thorough):
                L.append("E %s %s get 1 %s %s" % (h, k, cur, v))
            for b in "01":
                for thr in "01":
                    for h, k in kinds(thorough):
                        L.append("E %s %s set 1 %s %s %s %s" % (h, k, cur, v, b, thr))
    for h in "JG":
        for ext in "01":
            for tp in ("n", "o10"):
                for res in ("n", "o10", "o11") + (("u", "i5", "t", "s1") if h == "J" else ()):
                    L.append("E %s S gpo %s %s %s" % (h, ext, tp, res))
                for v in ("n", "o10", "o11"):
                    for b in "01":
                        for thr in "01":
                            L.append("E %s S spo %s %s %s %s %s" % (h, ext, tp, v, b, thr))
            for b in "01":
                L.append("E %s S ie %s %s" % (h, ext, b))
                for thr in "01":
                    L.append("E %s S pe %s %s %s" % (h, ext, b, thr))
    for h in "JG":
        for res in ("o3", "o1", "n") + (("u", "i5", "t", "s1") if h == "J" else ()):
            L.append("E %s S cons %s" % (h, res))
        for ext in "01":
            for tk in ("-", "a1", "a0,b1"):
                L.append("E %s S keys %s %s nil" % (h, ext, tk))
    tks, items = key_lattice(thorough)
    for ext in "01":
        for tk in tks:
            for it in items:
                for h in ("JG" if thorough else kinds(False)[0][0]):
                    L.append("E %s S keys %s %s %s" % (h, ext, tk, it))
    return L

# ------------------------------------------------------------------------------------------------
# running
# ------------------------------------------------------------------------------------------------

def run_sharded(ctx, exe, lines, shards=12, timeout=1500):
    """run `exe` over `lines` split in contiguous shards in parallel; returns list of output lines (None on failure)"""
    n = len(lines)
    if n == 0:
        return []
    shards = max(1, min(shards, (n + 1999) // 2000))
    size = (n + shards - 1) // shards
    outs = [None] * shards
    errs = [None] * shards
    def work(i):
        chunk = lines[i * size:(i + 1) * size]
        t = timeout
        for attempt in range(3):            # a slow machine is not a violation: retry with a doubled timeout
            rc, out, err = ctx.run_lines([exe], chunk, timeout=t)
            if rc == 0 and len(out) == len(chunk):
                errs[i] = None
                outs[i] = out
                return
            errs[i] = "rc=%s lines=%d/%d %s" % (rc, len(out), len(chunk), err[-300:])
            outs[i] = out
            if rc != 124:
                return
            ctx.stats["timeouts_retried"] = ctx.stats.get("timeouts_retried", 0) + 1
            t *= 2
    ts = [threading.Thread(target=work, args=(i,)) for i in range(shards)]
    for t in ts: t.start()
    for t in ts: t.join()
    bad = [e for e in errs if e]
    if bad:
        return None, "; ".join(bad)
    res = []
    for o in outs:
        res += o
    return res, ""

def classify(line, impl, spec):
    """signature of a property violation (implementation answer != spec answer) on a lattice case"""
    f = line.split()
    trap, a = f[3], f[4:]
    try:
        if trap in ("compat", "def"):
            cur, d = parse_cur(a[1]), parse_desc(a[2])
            if cur is not None and cur[4] == "0" and d["c"] == "-" and not desc_ill_formed(d):
                is_acc = d["g"] != "-" or d["s"] != "-"
                is_data = d["v"] != "-" or d["w"] != "-"
                if (is_acc or is_data) and is_acc != (cur[0] == "A") and impl in ("b:1",) and spec in ("b:0", "TE"):
                    return "C11/defineProperty: kind change of a non-configurable property accepted when the descriptor has no 'configurable' field"
        if trap == "gopd" and a[2] not in ("u", "p"):
            d = parse_desc(a[2])
            if not desc_ill_formed(d) and (d["g"] != "-" or d["s"] != "-") and d["g"] in ("-", "u") and d["s"] in ("-", "u") \
                    and impl.startswith("d:D:u,0,") and spec.startswith("d:A:-,-,") and impl[8:] == spec[8:]:
                return "C11/getOwnPropertyDescriptor: accessor descriptor without getter and setter functions reported as a data property"
        if f[1] == "G" and impl != "TE" and spec == "TE" and trap == "cons" and a[0] == "n":
            return "C11/Go handler: a nil result of ProxyTrapConfig.Construct becomes a nil *Object value (dereferenced on first use: Go panic escapes to the host)"
        if f[1] == "G" and impl.startswith("PANIC") and spec == "TE" and trap == "keys" and a[2] == "nil":
            return "C11/Go handler: a nil result of ProxyTrapConfig.OwnKeys is dereferenced (Go panic escapes to the host)"
    except Exception:
        pass
    return "C11/%s: %s impl=%s spec=%s" % (trap, " ".join(f), impl, spec)

def lattice(ctx, harness, model):
    lines = gen_lattice(ctx)
    ctx.stats["lattice_cases"] = len(lines)
    t0 = time.time()
    box = {}
    def run_model():
        box["mo"] = run_sharded(ctx, model, lines, shards=8)
    th = None
    if model:
        th = threading.Thread(target=run_model)
        th.start()
    impl, err = run_sharded(ctx, harness, lines, shards=8)
    ctx.stats["lattice_harness_s"] = round(time.time() - t0, 1)
    if th:
        th.join()
    ctx.stats["lattice_both_s"] = round(time.time() - t0, 1)
    if impl is None:
        ctx.obligation("corr:lattice.harness-run", "correspondence", False, err)
        return
    mech = spec_lean = None
    if model:
        mo, err = box["mo"]
        if mo is None:
            ctx.obligation("corr:lattice.model-run", "correspondence", False, err)
        else:
            mech = [o.split(" ")[0] if " " in o else o for o in mo]
            spec_lean = [o.split(" ")[1] if " " in o else o for o in mo]
    t0 = time.time()
    spec_py = [py_spec(l.split()) for l in lines]
    ctx.stats["lattice_pyspec_s"] = round(time.time() - t0, 1)

    by_trap, outcomes = {}, {}
    corr_bad, oracle_bad, prop_bad = [], [], []
    skipped_ill = 0
    for i, l in enumerate(lines):
        f = l.split()
        key = f[0] + ":" + f[3]
        by_trap[key] = by_trap.get(key, 0) + 1
        o = impl[i].split(":")[0]
        outcomes[o] = outcomes.get(o, 0) + 1
        if impl[i].startswith(("PANIC", "ERR", "GOERR", "BAD", "UNSUPP")):
            prop_bad.append(i)
            if mech is not None and f[1] != "G":     # (a Go-handler panic is judged by the spec only: the mechanism
                corr_bad.append(i)                   #  model has no notion of a nil *Object)
            continue
        go_nil = f[1] == "G" and ((f[3] == "cons" and f[4] == "n") or (f[3] == "keys" and f[6] == "nil"))
        if mech is not None and mech[i] != impl[i] and not go_nil:
            corr_bad.append(i)       # (a nil *Object from a Go handler has no counterpart in the mechanism model: spec-judged only)
        if spec_lean is not None and spec_lean[i] != spec_py[i]:
            oracle_bad.append(i)
        spec = spec_lean[i] if spec_lean is not None else spec_py[i]
        if f[0] == "W" and f[3] in ("compat", "def") and desc_ill_formed(parse_desc(f[6])):
            # a descriptor with both accessor and data fields never passes ToPropertyDescriptor (builtin_object.go:196):
            # outside the spec function's domain; only model == implementation is compared
            skipped_ill += 1
            continue
        if impl[i] != spec:
            prop_bad.append(i)
    ctx.stats["lattice_whitebox_illformed_not_judged_by_spec"] = skipped_ill
    ctx.count(len(lines))
    # distinct non-trivial = distinct abstract case (trap, fields) irrespective of mode / handler / key kind whose
    # target has a property or is non-extensible or whose trap result is not the trivially honest one
    for l in lines:
        f = l.split()
        ctx.nontriv(" ".join(f[3:]))
    ctx.stats["lattice_by_mode_trap"] = by_trap
    ctx.stats["lattice_outcomes"] = outcomes
    for i in range(0, len(lines), max(1, len(lines) // 6)):
        ctx.sample({"case": lines[i], "impl": impl[i], "spec": spec_py[i]})

    ctx.obligation("corr:lattice.impl==regenerated-mechanism", "correspondence", mech is None or not corr_bad,
                   "" if not corr_bad else "; ".join("%s impl=%s mech=%s" % (lines[i], impl[i], mech[i]) for i in corr_bad[:8]))
    if mech is None:
        ctx.obligation("corr:lattice.model-driver-available", "correspondence", False, "Lean driver not built; python spec oracle used alone")
    ctx.obligation("corr:lattice.lean-spec==python-spec", "correspondence", not oracle_bad,
                   "" if not oracle_bad else "; ".join("%s lean=%s py=%s" % (lines[i], spec_lean[i], spec_py[i]) for i in oracle_bad[:8]))
    # the property: implementation answer == spec answer
    seen = {}
    for i in prop_bad:
        spec = spec_lean[i] if spec_lean is not None else spec_py[i]
        sig = classify(lines[i], impl[i], spec)
        seen.setdefault(sig, []).append(i)
    ctx.stats["lattice_spec_mismatches"] = {s: len(v) for s, v in list(seen.items())[:40]}
    for sig, idx in list(seen.items())[:25]:
        # smallest representative: prefer end-to-end (observable from JS), shortest line
        idx.sort(key=lambda i: (lines[i][0] != "E", len(lines[i])))
        i = idx[0]
        spec = spec_lean[i] if spec_lean is not None else spec_py[i]
        ctx.violation(sig, "%s -> implementation %s, ECMA-262 §10.5 requires %s (%d lattice cases)" % (lines[i], impl[i], spec, len(idx)),
                      {"kind": "input", "ops": [lines[i]], "expected": spec, "observed": impl[i],
                       "mechanism_model": mech[i] if mech is not None else None, "more": [lines[j] for j in idx[1:6]]})


# ------------------------------------------------------------------------------------------------
# correspondence B: lock-step histories (target vs forwarding proxy), inner trap logs vs the Lean layer model
# ------------------------------------------------------------------------------------------------

KIND_KEYS = {
    "obj": ["x", "y", "g", "nc", "na", "nw", "zz", "i7", "y1", "y2"],
    "pobj": ["x", "protoA", "zz"],
    "nobj": ["x", "zz"],
    "frozen": ["x", "g", "zz"],
    "arr": ["i0", "i1", "i3", "i5", "length", "x", "zz"],        # i3 = exactly `length`
    "pidx": ["i0", "i1", "i2", "ro", "x", "zz"],
    "parr": ["i0", "i1", "i2", "i3", "length", "zz"],
    "sparse": ["i0", "i1", "i2", "i3", "length", "x", "zz"],
    "fn": ["x", "name", "length", "prototype", "zz"],
    "args": ["i0", "i1", "i2", "length", "zz"],
    "margs": ["i0", "i1", "i2", "length", "zz"],
    "ta": ["i0", "i1", "i2", "i5", "x", "zz"],
    "str": ["i0", "i1", "i2", "length", "x", "zz"],
}
SEQ_VALS = ["i1", "i2", "i7", "u", "n", "N", "z", "s1", "o3", "i0"]
# Descriptors used by def/odef (the exclusions of the first round -- accessor descriptors without a setter function,
# get/set both undefined, `writable` without `value` -- are gone: the defects behind them are repaired in /repo:
# 43d21ca, d72dab1).
SEQ_DESCS = ["i1,1,1,1,-,-", "i2,-,-,-,-,-", "i1,0,-,-,-,-", "-,-,-,0,-,-", "-,-,0,-,-,-", "-,-,1,1,o1,o2", "i1,0,0,0,-,-",
             "-,-,-,-,-,-", "i7,-,-,-,-,-", "i2,1,-,-,-,-", "u,0,1,0,-,-", "-,-,-,0,o1,o2", "N,-,-,-,-,-",
             "-,0,-,-,-,-", "-,1,-,-,-,-", "-,-,-,-,o1,-", "-,-,-,1,u,u", "-,-,-,-,-,o2", "-,-,1,-,u,-"]
VALUE_DESCS = [d for d in SEQ_DESCS if d.split(",")[0] != "-" and d.split(",")[2] == d.split(",")[3] == "-" or d == "i1,1,1,1,-,-"]
KEY_OPS = ["get", "rget", "has", "hasOwn", "del", "sdel", "ldel", "gopd", "pie"]
KEYVAL_OPS = ["set", "sset", "lset", "rset"]
KEYDESC_OPS = ["def", "odef"]
NULLARY_OPS = ["keys", "okeys", "names", "syms", "forin", "entries", "gpo", "ie", "pe", "ope", "freeze", "seal", "isFrozen",
               "isSealed", "json", "assign", "isArray", "typeof", "instanceof"]
PROTO_OPS = ["spo", "ospo"]
PRIMS = {"gpo", "spo", "ie", "pe", "gopd", "def", "has", "rget", "rset", "del", "keys"}

# Restrictions of the alphabets that exist ONLY while a defect of the target's own entry points (not of proxy.go) still
# reproduces.  Each has a probe history that is run first on every run: if the probe still mismatches, the finding is
# reported (KNOWN-FINDING while listed in known_findings.d/C11.json) and the restriction stays for this run; if the probe
# passes (the defect is repaired in the tree under test) the restriction is lifted automatically.
PROBES = [
    # (restriction, probe history, signature)
    ("margs", "Q margs 1 J seal;isSealed",
     "C11/lockstep-probe: mapped arguments object: key iterator drops the attributes of mapped properties (Object.isSealed false after Object.seal)"),
    ("margs", "Q margs 1 J odef/i0/-,-,0,-,-,-;okeys",
     "C11/lockstep-probe: mapped arguments object: Object.keys lists a mapped property redefined as non-enumerable"),
    ("arrlen", "Q arr 1 J def/length/i1,0,0,0,-,-;sset/length/N",
     "C11/lockstep-probe: array: assigning an invalid length to a non-writable length throws RangeError instead of failing as a non-writable property"),
    ("forin-inproto", "Q inproto-obj 1 J forin",
     "C11/lockstep-probe: for-in skips the enumerable keys of a Proxy in the prototype chain"),
    ("fnlazy", "Q fnlazy 1 J ldel/x;odef/zz/-,0,-,-,-,-",
     "C11/lockstep-probe: function: position of the lazily created 'prototype' among the own keys depends on the access history"),
]
ACTIVE = {"margs", "arrlen", "fnlazy", "forin-inproto"}      # recomputed by run_probes() on every run

KIND_CFG_ALL = {
    # String object: JSON.stringify depends on the [[StringData]] slot, which a proxy does not have (spec-mandated difference).
    "str": {"drop": ["json"]},
}
KIND_CFG_RESTRICTED = {
    # mapped arguments object: seal / freeze / enumerable:false are not reflected by the key iterator and Object.keys
    "margs": {"descs": VALUE_DESCS, "drop": ["freeze", "seal", "isFrozen", "isSealed"]},
}

INPROTO_BASES = ["obj", "pobj", "nobj", "frozen", "arr", "pidx", "str", "fn", "ta", "uacc"]

def kind_cfg(kind):
    if kind.startswith("inproto-"):
        # the proxy is in the prototype chain of an ordinary child object; operations that change the child's prototype
        # would cut the proxy out, so they are left out
        base = dict(kind_cfg(kind[8:]))
        base["drop"] = list(base.get("drop", [])) + ["spo", "ospo"] + (["forin"] if "forin-inproto" in ACTIVE else [])
        return base
    if kind in KIND_CFG_RESTRICTED and kind in ACTIVE:
        return KIND_CFG_RESTRICTED[kind]
    return KIND_CFG_ALL.get(kind, {})

def run_probes(ctx, harness):
    ACTIVE.clear()
    lines = [p[1] for p in PROBES]
    rc, out, err = ctx.run_lines([harness], lines, timeout=300)
    res = {}
    for (restr, line, sig), o in zip(PROBES, out + ["?"] * (len(lines) - len(out))):
        ctx.count(1)
        if o.startswith("OK "):
            res[sig] = "repaired"
            continue
        res[sig] = o[:160]
        ACTIVE.add(restr)
        ctx.violation(sig, "%s -> %s (a defect of the target's own entry points; the generator avoids its trigger while it reproduces)" % (line, o[:200]),
                      {"kind": "history", "ops": [line], "observed": o, "expected": "OK (every result and the final state identical)"})
    ctx.stats["lockstep_probes"] = res
    ctx.stats["lockstep_active_restrictions"] = sorted(ACTIVE)

KIND_KEYS["uacc"] = ["q", "x", "zz"]

def gen_op(rng, kind):
    cfg = kind_cfg(kind)
    for _ in range(50):
        r = rng.random()
        k = rng.choice(KIND_KEYS[kind[8:]] + ["own"] if kind.startswith("inproto-") else KIND_KEYS[kind])
        if r < 0.34:
            op = "%s/%s" % (rng.choice(KEY_OPS), k)
        elif r < 0.52:
            vals = SEQ_VALS
            if k == "length" and kind in ("arr", "sparse", "parr") and "arrlen" in ACTIVE:
                # an invalid array length on a non-writable `length` throws RangeError instead of failing with false/TypeError
                # (array.go validates the value before looking at writability) -- not proxy.go's business
                vals = ["i0", "i1", "i2", "i7"]
            op = "%s/%s/%s" % (rng.choice(KEYVAL_OPS), k, rng.choice(vals))
        elif r < 0.68:
            if "desc_keys" in cfg:
                k = rng.choice(cfg["desc_keys"])
            op = "%s/%s/%s" % (rng.choice(KEYDESC_OPS), k, rng.choice(cfg.get("descs", SEQ_DESCS)))
        elif r < 0.74:
            op = "%s/%s" % (rng.choice(PROTO_OPS), rng.choice(["n", "o10", "o11"]))
        elif kind in ("fn", "inproto-fn") and False:
            pass
        elif kind == "fn" and r < 0.80:
            op = rng.choice(["call/i4", "new/i1"])
        else:
            op = rng.choice(NULLARY_OPS)
        name = op.split("/")[0]
        if name in cfg.get("drop", ()):
            continue
        if "only" in cfg and name not in cfg["only"]:
            continue
        return op
    return "ie"

def gen_seqs(ctx):
    thorough = ctx.tier == "thorough"
    per = 60 if thorough else 7
    lines = []
    for kind in KIND_KEYS:
        for layers in (1, 2, 3):
            for hk in ("J", "G", "M"):
                if hk == "M" and layers < 2:
                    continue
                for _ in range(per):
                    n = ctx.rng.randint(3, 12 if thorough else 9)
                    ops = [gen_op(ctx.rng, kind) for _ in range(n)]
                    fresh = "fresh " if ctx.rng.random() < 0.08 else ""     # first operations on a fresh runtime
                    lines.append("Q %s%s %d %s %s" % (fresh, "fnlazy" if kind == "fn" and "fnlazy" not in ACTIVE else kind, layers, hk, ";".join(ops)))
    # a forwarding proxy in the PROTOTYPE chain of an ordinary object (inherited lookups with a foreign receiver)
    per2 = 24 if thorough else 4
    for base in INPROTO_BASES:
        kind = "inproto-" + base
        for layers in (1, 2):
            for hk in ("J", "G"):
                for _ in range(per2):
                    n = ctx.rng.randint(3, 10)
                    ops = [gen_op(ctx.rng, kind) for _ in range(n)]
                    lines.append("Q %s %d %s %s" % (kind, layers, hk, ";".join(ops)))
    return lines

def corpus_lines(modes=("Q",)):
    d = os.path.join(ROOT, "corpus", PROP)
    out = []
    if os.path.isdir(d):
        for fn in sorted(os.listdir(d)):
            if fn.endswith(".txt"):
                for l in open(os.path.join(d, fn)):
                    l = l.strip()
                    if l and not l.startswith("#") and l.split()[0] in modes:
                        out.append(l)
    return out

class TokMap:
    """harness canonical tokens -> model tokens (values only matter up to equality)"""
    def __init__(self):
        self.vals, self.objs, self.keys = {}, {"o1": "o1", "o2": "o2", "o3": "o3", "o10": "o10", "o11": "o11"}, {}
    def val(self, t):
        if t in ("u", "n", "t", "f", "N", "z"):
            return t
        if t[0] == "i" and t[1:].lstrip("-").isdigit():
            return t
        if t[0] == "o" and not t.startswith("O{"):
            return self.obj(t)
        if t == "self":
            return self.obj(t)
        return "s%d" % self.vals.setdefault(t, 100 + len(self.vals))
    def obj(self, t):
        if t in ("n", "u", "-"):
            return "-" if t != "n" else "n"
        return self.objs.setdefault(t, "o%d" % (20 + len(self.objs)))
    def key(self, t):
        if t in ("y1", "y2"):
            return t
        if t == "yIter": return "y3"
        if t == "yTag": return "y4"
        return "k%d" % self.keys.setdefault(t, 1 + len(self.keys))
    def cur(self, t):
        if t == "-":
            return "-"
        k, f = t[:2], t[2:].split(",")
        if k == "D:":
            return "D:%s,%s,%s,%s" % (self.val(f[0]), f[1], f[2], f[3])
        g = "-" if f[0] == "u" else self.obj(f[0])
        s = "-" if f[1] == "u" else self.obj(f[1])
        return "A:%s,%s,%s,%s" % (g, s, f[2], f[3])

def op_key_token(k):
    """op key as the harness prints it in facts/keys"""
    if k in ("y1", "y2"):
        return k
    if k[0] == "i" and k[1:].isdigit():
        return "k" + k[1:]
    return "k" + k

def model_line(layers, op, res, facts, tm):
    """-> (model input line, expected result string) for a primitive op, or None"""
    f = op.split("/")
    prim = f[0]
    if prim not in PRIMS:
        return None
    fd = dict(x.split("=", 1) for x in facts.split(";"))
    if res.startswith("T:"):
        if res != "T:TypeError":
            return None
        mres = "TE"
    elif prim in ("spo", "ie", "pe", "def", "has", "rset", "del"):
        mres = {"v:t": "b:1", "v:f": "b:0"}.get(res)
        if mres is None:
            return None
    elif prim == "gpo":
        mres = "proto:" + ("n" if res == "v:n" else tm.obj(res[2:]))
    elif prim == "rget":
        mres = "v:" + tm.val(res[2:])
    elif prim == "gopd":
        mres = "d:" + tm.cur(res[2:])
    else:  # keys
        ks = [k for k in res[2:].split(",") if k]
        mres = "k:" + ",".join(tm.key(k) for k in ks)
    a1 = a2 = "-"
    if prim == "spo":
        a1 = f[1]
    elif len(f) > 1:
        a1 = tm.key(op_key_token(f[1]))
    if prim in ("def", "rset"):
        a2 = f[2]
    keys = [k for k in fd["keys"].split(",") if k]
    line = "Q %d %s %s %s %s %s %s %s %s" % (layers, prim, a1, a2, mres if prim not in ("gpo", "gopd", "keys") else ("TE" if mres == "TE" else "ok"),
                                           tm.cur(fd["own"]), fd["ext"], "n" if fd["proto"] == "n" else tm.obj(fd["proto"]),
                                           ",".join(tm.key(k) for k in keys) or "-")
    return line, mres


TRAP_OF = {"gpo": "getPrototypeOf", "spo": "setPrototypeOf", "ie": "isExtensible", "pe": "preventExtensions",
           "gopd": "getOwnPropertyDescriptor", "def": "defineProperty", "has": "has", "rget": "get", "rset": "set",
           "del": "deleteProperty", "keys": "ownKeys"}

def py_layer_log(n, prim, res, own, ext):
    """Independent (python) twin of Model.lean `proxyLayer` call structure over a scripted base: the sequence of trap
    calls on all layers for one primitive operation on n forwarding layers.  res: 'TE' | 'b:1' | 'b:0' | other (ok);
    own: cur token of the base target's own property after the op ('-' absent); ext: base extensible after the op."""
    conf = own != "-" and own.split(",")[-1] == "1"
    def L(k, op):
        if k == 0:
            return []
        head = ["%d:%s" % (k, TRAP_OF[op])]
        if res == "TE" and op == prim:
            return head + L(k - 1, op)
        if op == "ie":
            return head + L(k - 1, "ie") + L(k - 1, "ie")
        if op == "gpo":
            return head + L(k - 1, "gpo") + L(k - 1, "ie") + ([] if ext else L(k - 1, "gpo"))
        if op == "spo":
            return head + L(k - 1, "spo") + ((L(k - 1, "ie") + ([] if ext else L(k - 1, "gpo"))) if res == "b:1" else [])
        if op == "pe":
            return head + L(k - 1, "pe") + (L(k - 1, "ie") if res == "b:1" else [])
        if op == "gopd":
            return head + L(k - 1, "gopd") + L(k - 1, "gopd") + (L(k - 1, "ie") if own != "-" else [])
        if op == "def":
            return head + L(k - 1, "def") + ((L(k - 1, "gopd") + L(k - 1, "ie")) if res == "b:1" else [])
        if op == "has":
            return head + L(k - 1, "has") + ((L(k - 1, "gopd") + (L(k - 1, "ie") if conf else [])) if res == "b:0" else [])
        if op == "rget":
            return head + L(k - 1, "rget") + L(k - 1, "gopd")
        if op == "rset":
            return head + L(k - 1, "rset") + (L(k - 1, "gopd") if res == "b:1" else [])
        if op == "del":
            return head + L(k - 1, "del") + L(k - 1, "gopd") + (L(k - 1, "ie") if (res == "b:1" and conf) else [])
        if op == "keys":
            return head + L(k - 1, "keys") + L(k - 1, "ie") + L(k - 1, "keys")
        raise ValueError(op)
    out = L(n, prim)
    return ",".join(out) if out else "-"

SIG_B = "C11/getOwnPropertyDescriptor: accessor descriptor without getter and setter functions reported as a data property"

def seq_signature(line, out):
    if out.startswith("MISMATCH@") and " op=gopd/" in out and " direct=d:A:u,u," in out and " proxy=d:D:u,0," in out:
        return SIG_B
    return None

def lockstep(ctx, harness, model):
    if "lockstep_probes" not in ctx.stats:
        run_probes(ctx, harness)
    lines = [l for l in corpus_lines() if l.split()[1] not in ("keylie", "fnkind", "enumlie", "model", "mutate")] + gen_seqs(ctx)
    for kind in KIND_KEYS:
        for hk in "JG":
            if kind not in ("margs",):
                lines.append("Q revoked %s %s -" % (kind, hk))
    t0 = time.time()
    out, err = run_sharded(ctx, harness, lines, shards=12)
    ctx.stats["lockstep_harness_s"] = round(time.time() - t0, 1)
    if out is None:
        ctx.obligation("corr:lockstep.harness-run", "correspondence", False, err)
        return
    ctx.stats["lockstep_histories"] = len(lines)
    bad = []
    mlines, mexp, mref, pylog = [], [], [], []
    opmix, kinds, nops = {}, {}, 0
    for li, (l, o) in enumerate(zip(lines, out)):
        f = l.split()
        if f[1] == "fresh":
            f = [f[0]] + f[2:]
        ctx.count(1)
        if f[1] == "revoked":
            if not o.startswith("OK"):
                bad.append((li, o))
            else:
                ctx.nontriv(l)
            continue
        kinds[f[1] + "/" + f[2] + "/" + f[3]] = kinds.get(f[1] + "/" + f[2] + "/" + f[3], 0) + 1
        if not o.startswith("OK "):
            bad.append((li, o))
            continue
        ctx.nontriv(l)
        tm = TokMap()
        for item in o[3:].split(" | "):
            parts = item.split("#")
            if len(parts) != 4:
                continue
            op, res, facts, log = parts
            nops += 1
            opmix[op.split("/")[0]] = opmix.get(op.split("/")[0], 0) + 1
            ml = None if f[1].startswith("inproto-") else model_line(int(f[2]), op, res, facts, tm)
            if ml is not None:
                mlines.append(ml[0]); mexp.append((ml[1], log or "-")); mref.append((li, op))
                mt = ml[0].split()
                pylog.append(py_layer_log(int(mt[1]), mt[2], ("TE" if ml[1] == "TE" else ml[1] if ml[1][:2] == "b:" else "ok"), mt[6], mt[7] == "1"))
    ctx.stats["lockstep_ops"] = nops
    ctx.stats["lockstep_op_mix"] = opmix
    ctx.stats["lockstep_kind_layers_handler"] = kinds
    for i in range(0, len(lines), max(1, len(lines) // 5)):
        ctx.sample({"history": lines[i], "outcome": out[i][:160]})

    # ---- the property itself: proxy == target on every op, same final state; revoked proxies throw on every op
    unknown = [(li, o) for li, o in bad if not (seq_signature(lines[li], o) and ctx.known_signature(seq_signature(lines[li], o)))]
    ctx.stats["lockstep_mismatching_histories"] = len(bad)
    ctx.obligation("corr:lockstep.proxy==target", "correspondence", not unknown,
                   "" if not unknown else "; ".join("%s -> %s" % (lines[i], o[:200]) for i, o in unknown[:5]))
    bad = unknown + [b for b in bad if b not in unknown][:3]
    seen = set()
    for li, o in bad[:40]:
        l = lines[li].replace("Q fresh ", "Q ", 1)
        f = l.split()
        sig = seq_signature(l, o)
        ops = f[4].split(";") if f[1] != "revoked" else []
        if sig is None and ops and len(seen) < 6:
            # shrink the history (delta debugging over ops), keeping "the harness reports a mismatch"
            def fails(sub):
                rc, oo, _ = ctx.run_lines([harness], ["Q %s %s %s %s" % (f[1], f[2], f[3], ";".join(sub))], timeout=60)
                return bool(oo) and not oo[0].startswith("OK")
            ops = ctx.ddmin(ops, fails)
            l = "Q %s %s %s %s" % (f[1], f[2], f[3], ";".join(ops))
            rc, oo, _ = ctx.run_lines([harness], [l], timeout=60)
            o = oo[0] if oo else o
            sig = seq_signature(l, o) or ("C11/lockstep: " + l + " -> " + o.split(" direct=")[0][:80])
        elif sig is None:
            sig = "C11/lockstep: " + l[:200]
        if sig in seen:
            continue
        seen.add(sig)
        ctx.violation(sig, "forwarding proxy is not observationally identical to its target: %s -> %s" % (l, o[:300]),
                      {"kind": "history", "ops": [l], "observed": o, "expected": "OK (every result and the final state identical)"})

    # ---- trap-call sequences of every layer vs the independent python twin of the layer model (needs no Lean)
    pybad = [i for i in range(len(mlines)) if pylog[i] != mexp[i][1]]
    ctx.obligation("corr:lockstep.trap-log==python-layer-oracle", "correspondence", not pybad,
                   "" if not pybad else "; ".join("%s op=%s expected=%s observed=%s" % (lines[mref[i][0]][:120], mref[i][1], pylog[i], mexp[i][1]) for i in pybad[:4]))
    seen_ts = set()
    for i in pybad:
        li, op = mref[i]
        f = lines[li].split()
        sig = "C11/trap-sequence: %s layers=%s handler=%s" % (op.split("/")[0], f[2], f[3])
        if sig in seen_ts or len(seen_ts) >= 4:
            continue
        seen_ts.add(sig)
        # minimise: the single op on a fresh target usually suffices
        single = "Q %s %s %s %s" % (f[1], f[2], f[3], op)
        rc, oo, _ = ctx.run_lines([harness], [single], timeout=60)
        rep = lines[li]
        if oo and oo[0].startswith("OK ") and oo[0].split("#")[-1] != pylog[i] and len(oo[0].split(" | ")) == 1:
            tm2 = TokMap()
            parts = oo[0][3:].split("#")
            ml2 = model_line(int(f[2]), parts[0], parts[1], parts[2], tm2)
            if ml2 is not None:
                mt = ml2[0].split()
                exp2 = py_layer_log(int(mt[1]), mt[2], ("TE" if ml2[1] == "TE" else ml2[1] if ml2[1][:2] == "b:" else "ok"), mt[6], mt[7] == "1")
                if exp2 != (parts[3] or "-"):
                    rep = single
        ctx.violation(sig, "a forwarding proxy used as a TARGET sees a different sequence of trap calls than ECMA-262 §10.5 prescribes "
                      "(an outer layer consults its target more or fewer times): %s, op %s: observed %s, expected %s" % (rep, op, mexp[i][1], pylog[i]),
                      {"kind": "history", "ops": [rep], "op": op, "observed_log": mexp[i][1], "expected": pylog[i]})

    # ---- ... and vs the Lean layer model over the scripted base
    if model and mlines:
        t0 = time.time()
        mo, err = run_sharded(ctx, model, mlines, shards=8)
        ctx.stats["lockstep_model_s"] = round(time.time() - t0, 1)
        if mo is None:
            ctx.obligation("corr:lockstep.model-run", "correspondence", False, err)
            return
        logbad = []
        for i, o in enumerate(mo):
            exp_res, exp_log = mexp[i]
            parts = o.split(" ")
            if len(parts) != 2 or parts[0] != exp_res or parts[1] != exp_log:
                logbad.append(i)
        ctx.stats["lockstep_primitive_ops_checked_against_layer_model"] = len(mlines)
        ctx.count(len(mlines))
        ctx.obligation("corr:lockstep.trap-log==layer-model", "correspondence", not logbad,
                       "" if not logbad else "; ".join("%s op=%s model-line=[%s] model=%s impl=%s %s" % (lines[mref[i][0]][:120], mref[i][1], mlines[i], mo[i], mexp[i][0], mexp[i][1]) for i in logbad[:4]))
        lp = [i for i in range(len(mo)) if mo[i].split(" ")[-1] != pylog[i]]
        ctx.obligation("corr:lockstep.lean-layer-model==python-layer-oracle", "correspondence", not lp,
                       "" if not lp else "; ".join("[%s] lean=%s py=%s" % (mlines[i], mo[i], pylog[i]) for i in lp[:4]))
    elif not model:
        ctx.obligation("corr:lockstep.trap-log==layer-model", "correspondence", False, "Lean driver unavailable")


# ------------------------------------------------------------------------------------------------
# correspondence A': the own-keys invariant end-to-end on EVERY target kind (incl. proxies as targets and Go wrappers)
# ------------------------------------------------------------------------------------------------

KEYLIE_KINDS = list(KIND_KEYS.keys()) + ["gomap", "gostruct", "goslice"]
KEYLIE_VARIANTS = ["omit%d" % i for i in range(10)] + ["honest", "perm", "dup", "extra", "empty"]

def gen_keylie(ctx):
    L = [l for l in corpus_lines() if l.split()[1] == "keylie"]     # regression seeds first
    rot = 0
    for kind in KEYLIE_KINDS:
        for inner in (0, 1, 2):
            for hk in "JG":
                for ne in "01":
                    for v in KEYLIE_VARIANTS:
                        L.append("Q keylie %s %d %s %s,%s,r" % (kind, inner, hk, v, ne))
                        if v.startswith("omit") or ctx.tier == "thorough":
                            rot += 1
                            if ctx.tier == "thorough":
                                for api in "nsk":
                                    L.append("Q keylie %s %d %s %s,%s,%s" % (kind, inner, hk, v, ne, api))
                            elif rot % 2 == 0:
                                L.append("Q keylie %s %d %s %s,%s,%s" % (kind, inner, hk, v, ne, "nsk"[(rot // 2) % 3]))
    return L

def keylie_expected(out, api):
    """spec answer (§10.5.11 steps 9-23) from the facts the harness printed: (expected, ok?)"""
    res, ext, tk, lie = out.split("#")
    ext = ext == "ext=1"
    tk = [(t.rsplit(":", 1)[0], t.rsplit(":", 1)[1] == "1") for t in tk.split(",") if t]
    lie = [k for k in lie.split(",") if k]
    accept = len(set(lie)) == len(lie) and all(c or k in lie for k, c in tk)
    if accept and not ext:
        accept = set(lie) == set(k for k, _ in tk)
    if not accept:
        return "T:TypeError", res == "T:TypeError"
    if api == "r":
        exp = "k:" + ",".join(lie)
        return exp, res == exp
    return "k:...", res.startswith("k:")

def keylie(ctx, harness):
    lines = gen_keylie(ctx)
    t0 = time.time()
    out, err = run_sharded(ctx, harness, lines, shards=8)
    ctx.stats["keylie_harness_s"] = round(time.time() - t0, 1)
    if out is None:
        ctx.obligation("corr:ownkeys-all-kinds.harness-run", "correspondence", False, err)
        return
    bad, n, kinds, outcomes = [], 0, {}, {}
    for l, o in zip(lines, out):
        if o == "NA":
            continue
        n += 1
        f = l.split()
        api = f[5].split(",")[2]
        if o.count("#") != 3:
            bad.append((l, o, "well-formed answer"))
            continue
        exp, ok = keylie_expected(o, api)
        kinds[f[2]] = kinds.get(f[2], 0) + 1
        outcomes[exp[:2]] = outcomes.get(exp[:2], 0) + 1
        ctx.nontriv(l)
        if not ok:
            bad.append((l, o, exp))
    ctx.count(n)
    ctx.stats["keylie_cases"] = n
    ctx.stats["keylie_by_kind"] = kinds
    ctx.stats["keylie_expected_outcomes"] = outcomes
    if lines:
        ctx.sample({"ownkeys-case": lines[len(lines) // 3], "answer": out[len(lines) // 3][:160]})
    ctx.obligation("corr:ownkeys-all-kinds.impl==spec", "correspondence", not bad,
                   "" if not bad else "; ".join("%s -> %s (spec: %s)" % (l, o[:160], e) for l, o, e in bad[:5]))
    seen = set()
    for l, o, exp in bad:
        f = l.split()
        v = f[5].split(",")[0]
        got = o.split("#")[0]
        cls = "accepted a key list that omits a non-configurable own key" if (v.startswith("omit") or v == "empty") and got.startswith("k:") \
            else "rejected a key list the spec admits" if got.startswith("T:") and not exp.startswith("T:") else "wrong outcome"
        sig = "C11/ownKeys on target kind %s (%s inner layers): %s" % (f[2], f[3], cls)
        if sig in seen or len(seen) >= 8:
            continue
        seen.add(sig)
        ctx.violation(sig, "%s -> %s; ECMA-262 §10.5.11 requires %s" % (l, o[:200], exp),
                      {"kind": "input", "ops": [l], "observed": o, "expected": exp})


# ------------------------------------------------------------------------------------------------
# correspondence A'': callable / constructor proxies (typeof, [[Call]], IsConstructor, [[Construct]], instanceof)
# ------------------------------------------------------------------------------------------------

FN_KINDS = ["fn", "arrow", "method", "cls", "dcls", "bound", "async", "gen", "bfn", "bctor", "obj", "arr", "pfn"]
SIG_HASINSTANCE = "C11/instanceof: a callable proxy as right operand of instanceof (OrdinaryHasInstance on the proxy) throws TypeError"

def fnkinds(ctx, harness):
    lines = ["Q fnkind %s %d %s %s" % (k, n, hk, tr) for k in FN_KINDS for n in (1, 2, 3) for hk in "JG" for tr in "01"]
    out, err = run_sharded(ctx, harness, lines, shards=2)
    if out is None:
        ctx.obligation("corr:callable-proxies.harness-run", "correspondence", False, err)
        return
    bad, known = [], []
    facts = {}
    for l, o in zip(lines, out):
        f = l.split()
        ctx.count(1)
        if o.startswith("OK "):
            fa, log = o[3:].split("#")
            fd = dict(x.split("=", 1) for x in fa.split(";"))
            facts[f[2]] = "typeof=%s isCtor=%s" % (fd["typeof"], fd["isCtor"])
            n = int(f[3])
            exp = []
            if f[5] == "1":
                if fd["typeof"] == "function":
                    exp += ["%d:apply" % i for i in range(n, 0, -1)]
                if fd["isCtor"] == "1":
                    exp += ["%d:construct" % i for i in range(n, 0, -1)]
            if log != ",".join(exp):
                bad.append((l, o, "trap calls " + ",".join(exp)))
            else:
                ctx.nontriv(l)
            continue
        if o.startswith("MISMATCH direct=") and " proxy=" in o:
            d, pr = o[len("MISMATCH direct="):].split(" proxy=")
            dd = dict(x.split("=", 1) for x in d.split(";")); pd = dict(x.split("=", 1) for x in pr.split(";"))
            diff = [k for k in dd if dd[k] != pd.get(k)]
            if diff == ["inst"] and dd["inst"] == "true" and pd["inst"] == "TypeError":
                if f[2] == "bound":
                    # spec-mandated: OrdinaryHasInstance(proxy, O) has no [[BoundTargetFunction]] to follow, Get(proxy,
                    # "prototype") is undefined for a bound function -> TypeError (§7.3.21 steps 2, 4, 5)
                    ctx.nontriv(l)
                    continue
                known.append((l, o))
                continue
        bad.append((l, o, "identical typeof / call / IsConstructor / construct / instanceof"))
    ctx.stats["callable_proxy_cases"] = len(lines)
    ctx.stats["callable_kinds"] = facts
    unknown_known = known if not ctx.known_signature(SIG_HASINSTANCE) else []
    ctx.obligation("corr:callable-proxies.proxy==target", "correspondence", not bad and not unknown_known,
                   "; ".join("%s -> %s (expected %s)" % (l, o[:200], e) for l, o, e in bad[:4]) +
                   ("; ".join("%s -> %s" % (l, o[:200]) for l, o in unknown_known[:2])))
    if known:
        l, o = sorted(known, key=lambda x: len(x[0]))[0]
        ctx.violation(SIG_HASINSTANCE, "%s -> %s (%d cases)" % (l, o[:260], len(known)),
                      {"kind": "history", "ops": [l], "observed": o, "expected": "OK (instanceof through the proxy = instanceof the target)"})
    seen = set()
    for l, o, e in bad[:6]:
        sig = "C11/callable proxy: " + l + " -> " + o.split(" proxy=")[0][:60]
        if sig not in seen:
            seen.add(sig)
            ctx.violation(sig, "%s -> %s; expected %s" % (l, o[:300], e), {"kind": "history", "ops": [l], "observed": o, "expected": e})


# ------------------------------------------------------------------------------------------------
# correspondence C: the TARGET models (Ordinary.lean / Exotic.lean) against the real target objects
# ------------------------------------------------------------------------------------------------

MODEL_KINDS = {
    "mobj": ["x", "y", "zz"],
    "marr": ["i0", "i1", "i3", "i5", "length", "x", "zz"],
    "mstr": ["i0", "i1", "i2", "length", "x", "zz"],
    "mta": ["i0", "i2", "i3", "i5", "x", "zz"],
    "margm": ["i0", "i1", "i2", "zz"],
}
MODEL_VALS = ["i1", "i2", "i7", "u", "n", "N", "z", "s1", "o3", "i0", "i300", "t"]

def gen_model_hist(rng, kind, n):
    ops = []
    for _ in range(n):
        r = rng.random()
        k = rng.choice(MODEL_KINDS[kind])
        if r < 0.28:
            # (no setter functions: the harness's setter writes to its receiver, the model's setter call is an opaque no-op)
            ops.append("def/%s/%s" % (k, rng.choice([d for d in SEQ_DESCS if "o2" not in d])))
        elif r < 0.46:
            ops.append("set/%s/%s" % (k, rng.choice(MODEL_VALS)))
        elif r < 0.60:
            ops.append("gopd/" + k)
        elif r < 0.72:
            ops.append("get/" + k)
        elif r < 0.80:
            ops.append("has/" + k)
        elif r < 0.90:
            ops.append("del/" + k)
        elif r < 0.94:
            ops.append("keys")
        elif r < 0.97:
            ops.append("pe")
        else:
            ops.append("ie")
    return ops

def norm_model_answer(a):
    if a.startswith("T:") or a == "THROW":
        return "THROW"
    if a.startswith("k:"):
        return "k:" + ",".join(sorted(x for x in a[2:].split(",") if x))
    a = a.replace("Sstr", "s").replace("Sa", "s1001").replace("Sb", "s1002")
    if a.startswith("d:A:"):
        f = a[4:].split(",")
        a = "d:A:%s,%s,%s,%s" % ("-" if f[0] == "u" else f[0], "-" if f[1] == "u" else f[1], f[2], f[3])
    return a

def modelcorr(ctx, harness, model):
    if not model:
        ctx.obligation("corr:target-models==implementation", "correspondence", False, "Lean driver unavailable")
        return
    per = 150 if ctx.tier == "thorough" else 30
    lines = []
    for kind in MODEL_KINDS:
        for _ in range(per):
            ops = gen_model_hist(ctx.rng, kind, ctx.rng.randint(3, 10))
            lines.append("Q model %s %s" % (kind, ";".join(ops)))
    ho, err = run_sharded(ctx, harness, lines, shards=4)
    mo, err2 = run_sharded(ctx, model, lines, shards=4)
    if ho is None or mo is None:
        ctx.obligation("corr:target-models.run", "correspondence", False, str(err) + str(err2))
        return
    bad, nops = [], 0
    for l, h, m in zip(lines, ho, mo):
        ha, ma = h.split("|"), m.split("|")
        ops = l.split()[3].split(";")
        ctx.count(1)
        if len(ha) != len(ops) or len(ma) != len(ops):
            bad.append((l, h[:200], m[:200]))
            continue
        for i, op in enumerate(ops):
            nops += 1
            if norm_model_answer(ha[i]) != norm_model_answer(ma[i]):
                if l.split()[2] == "marr" and op.startswith("set/length/") and ha[i] == "T:RangeError" and ma[i] == "v:f" and "arrlen" in ACTIVE:
                    # the known array defect (probe `arrlen` still reproduces): an invalid value assigned to a non-writable length
                    ctx.stats["target_model_known_divergence_array_length_rangeerror"] = ctx.stats.get("target_model_known_divergence_array_length_rangeerror", 0) + 1
                    break
                bad.append((l, "op %d %s impl=%s" % (i, op, ha[i]), "model=%s" % ma[i]))
                break
        else:
            ctx.nontriv(l)
    ctx.stats["target_model_histories"] = len(lines)
    ctx.stats["target_model_ops"] = nops
    ctx.obligation("corr:target-models==implementation", "correspondence", not bad,
                   "" if not bad else "; ".join("%s: %s %s" % b for b in bad[:5]))


# ------------------------------------------------------------------------------------------------
# correspondence D: enumeration through a proxy whose getOwnPropertyDescriptor trap lies per key (Enumerate.lean)
# ------------------------------------------------------------------------------------------------

ENUM_KEYS = ["k7", "kx", "ky", "kg", "knc", "kna", "knw", "y1"]

def enumlie_expected(api, non_ext, lies, facts):
    """§7.3.23 EnumerableOwnProperties / GetOwnPropertyKeys / CopyDataProperties over the proxy: (result, trap sequence)"""
    keys = [(t.rsplit(":", 1)[0], t.rsplit(":", 1)[1][0] == "1", t.rsplit(":", 1)[1][1] == "1") for t in facts.split(",")]
    log = ["ownKeys"]
    is_sym = lambda k: not k.startswith("k")
    if api == "n":
        return "k:" + ",".join(k for k, _, _ in keys if not is_sym(k)), log
    if api == "s":
        return "k:" + ",".join(k for k, _, _ in keys if is_sym(k)), log
    out = []
    for k, enum, conf in keys:
        if is_sym(k) and api != "a":
            continue
        log.append("gopd:" + k)
        a = lies.get(k, "h")
        if a == "t":
            return "T:RangeError", log
        if a == "u":
            if not conf or non_ext:
                return "T:TypeError", log
            continue
        if a == "f":
            if not conf:
                return "T:TypeError", log
            enum = not enum
        if enum:
            out.append(k)
            if api in ("e", "a"):
                log.append("get:" + k)
    return "k:" + ",".join(out), log

def enumlie(ctx, harness):
    lines = []
    lie_sets = ["-"] + ["%s:%s" % (k, a) for k in ENUM_KEYS for a in "uft"]
    if ctx.tier == "thorough":
        for _ in range(150):
            ks = ctx.rng.sample(ENUM_KEYS, ctx.rng.randint(2, 4))
            lie_sets.append(",".join("%s:%s" % (k, ctx.rng.choice("uffth")) for k in ks))
    else:
        for _ in range(12):
            ks = ctx.rng.sample(ENUM_KEYS, 2)
            lie_sets.append(",".join("%s:%s" % (k, ctx.rng.choice("ufth")) for k in ks))
    for api in "knseaf":
        for ne in "01":
            for ls in lie_sets:
                lines.append("Q enumlie %s %s %s" % (api, ne, ls))
    out, err = run_sharded(ctx, harness, lines, shards=2)
    if out is None:
        ctx.obligation("corr:enumeration.harness-run", "correspondence", False, err)
        return
    bad = []
    for l, o in zip(lines, out):
        f = l.split()
        ctx.count(1)
        if o.count("#") != 2:
            bad.append((l, o, "well-formed answer")); continue
        res, facts, log = o.split("#")
        lies = {} if f[4] == "-" else dict(x.rsplit(":", 1) for x in f[4].split(","))
        exp, elog = enumlie_expected(f[2], f[3] == "1", lies, facts)
        if res != exp or log != ",".join(elog):
            bad.append((l, res + " [" + log + "]", exp + " [" + ",".join(elog) + "]"))
        else:
            ctx.nontriv(l)
    ctx.stats["enumeration_cases"] = len(lines)
    ctx.obligation("corr:enumeration.impl==spec", "correspondence", not bad,
                   "" if not bad else "; ".join("%s -> %s (spec: %s)" % b for b in bad[:4]))
    seen = set()
    for l, o, e in bad[:6]:
        f = l.split()
        sig = "C11/enumeration through a proxy (%s): %s" % ({"k": "Object.keys", "n": "getOwnPropertyNames", "s": "getOwnPropertySymbols",
               "e": "Object.entries", "a": "Object.assign", "f": "for-in"}[f[2]], "wrong result" if o.split(" [")[0] != e.split(" [")[0] else "wrong trap sequence")
        if sig in seen:
            continue
        seen.add(sig)
        ctx.violation(sig, "%s -> %s; ECMA-262 §7.3.23 requires %s" % (l, o[:300], e[:300]), {"kind": "history", "ops": [l], "observed": o, "expected": e})


# ------------------------------------------------------------------------------------------------
# correspondence E: handlers that MUTATE the target inside the trap (Handler.lean: the check reads the target afterwards)
# ------------------------------------------------------------------------------------------------

MUTATIONS = ["none", "nc", "ncw", "pe", "del", "delpe", "acc"]
MUT_RESULTS = {
    "get": ["i1", "i2", "u", "i9"], "has": ["0", "1"], "del": ["0", "1"], "def": ["0", "1"], "set": ["0", "1"],
    "ie": ["0", "1"], "pe": ["0", "1"],
    "gopd": ["u", "i1,1,1,1,-,-", "i2,0,1,0,-,-", "i2,1,1,0,-,-", "i2,0,1,1,-,-", "-,-,1,0,u,u", "-,-,1,1,u,u", "i2,-,-,-,-,-"],
}

def mutate(ctx, harness):
    lines = ["Q mutate %s %s %s" % (t, m, r) for t in MUT_RESULTS for m in MUTATIONS for r in MUT_RESULTS[t]]
    out, err = run_sharded(ctx, harness, lines, shards=1)
    if out is None:
        ctx.obligation("corr:mutating-handlers.harness-run", "correspondence", False, err)
        return
    bad = []
    for l, o in zip(lines, out):
        f = l.split()
        ctx.count(1)
        if o.count("#") != 2:
            bad.append((l, o, "well-formed answer")); continue
        res, ext, cur = o.split("#")
        if cur.startswith("A:"):
            c = cur[2:].split(",")
            cur = "A:%s,%s,%s,%s" % ("-" if c[0] == "u" else c[0], "-" if c[1] == "u" else c[1], c[2], c[3])
        if res.startswith("d:A:"):
            c = res[4:].split(",")
            res = "d:A:%s,%s,%s,%s" % ("-" if c[0] == "u" else c[0], "-" if c[1] == "u" else c[1], c[2], c[3])
        trap, r = f[2], f[4]
        # the equivalent lattice case: the target as the trap LEFT it, the trap's answer
        fields = {"get": [ext, cur, r], "has": [ext, cur, r], "del": [ext, cur, r, "0"], "def": [ext, cur, "i5,-,-,-,-,-", r, "0"],
                  "set": [ext, cur, "i5", r, "0"], "gopd": [ext, cur, r], "ie": [ext, r], "pe": [ext, r, "0"]}[trap]
        exp = py_spec(["E", "J", "S", trap] + fields)
        if res != exp:
            bad.append((l, o, exp))
        else:
            ctx.nontriv(l)
    ctx.stats["mutating_handler_cases"] = len(lines)
    ctx.obligation("corr:mutating-handlers.impl==spec-at-check-time", "correspondence", not bad,
                   "" if not bad else "; ".join("%s -> %s (spec with the target as the trap left it: %s)" % b for b in bad[:4]))
    for l, o, e in bad[:4]:
        ctx.violation("C11/mutating handler: " + l, "%s -> %s; ECMA-262 §10.5 (target read after the trap) requires %s" % (l, o, e),
                      {"kind": "history", "ops": [l], "observed": o, "expected": e})

# ------------------------------------------------------------------------------------------------
# main
# ------------------------------------------------------------------------------------------------

THEOREMS_MIN = 100

def build(ctx):
    regen_ok = ctx.regen()
    ok, errs = ctx.lake_build(["GojaModel.C11.Props", "GojaModel.C11.Tie", "GojaModel.C11.Props2", "GojaModel.C11.Tie2", "GojaModel.C11.Tie3", "model_c11"])
    model = ctx.model_exe()
    if not ok:
        # the driver may still be buildable (it does not import Props / Tie)
        rc, o, e = sh(["lake", "build", "model_c11"], cwd=LEAN, timeout=1500)
        if rc != 0 or not os.path.exists(model):
            model = None
    if not regen_ok:
        model = None            # a stale Generated file must not be used as the mechanism model
    ctx.audit("GojaModel.C11.Props", expect_min=THEOREMS_MIN)
    ctx.audit("GojaModel.C11.Tie", expect_min=10)
    # round 2: handler_inv_* (invariants with the target re-read at check time) + enumeration helpers mechanism = spec.
    # Tie2 (one `rfl` text equality) is checked by the build above; its axiom audit runs in the thorough tier only.
    ctx.audit("GojaModel.C11.Props2", expect_min=17)
    if ctx.tier == "thorough":
        ctx.audit("GojaModel.C11.Tie2", expect_min=1)
        ctx.audit("GojaModel.C11.Tie3", expect_min=1)
    if ctx.tier == "thorough":
        ctx.leanchecker("GojaModel.C11.Props")
    harness = ctx.go_build()
    return harness, model

def main(ctx):
    harness, model = build(ctx)
    ctx.assumptions += [
        "JS values enter the checks only through SameValue / identity (parametricity): the lattice uses a small value alphabet incl. NaN, +0, -0",
        "a valueProperty satisfies its representation invariant (accessor => no value, not writable; data => value present, no getter/setter)",
        "Reflect.x(target, ...) performs exactly target.[[x]](...) (builtin_reflect.go is a thin wrapper; exercised by correspondence B)",
    ]
    ctx.trusted_base += [
        "hand transcription of ECMA-262 §10.5.1-§10.5.11, §10.1.6.3, §6.2.6 into Model.lean Part 3 (and its python twin in run/c11.py, compared on every case)",
        "extract/c11.go expression tables (Go source text -> Lean primitive) and GenPrelude.lean",
        "/repo/verif_hooks_c11.go (calls the real checks; re-implements none)",
    ]
    if harness is None:
        return ctx.finish(level="proof", rule="harness did not build")
    lattice(ctx, harness, model)
    keylie(ctx, harness)
    fnkinds(ctx, harness)
    enumlie(ctx, harness)
    mutate(ctx, harness)
    run_probes(ctx, harness)
    modelcorr(ctx, harness, model)
    lockstep(ctx, harness, model)
    return ctx.finish(level="proof",
                      rule="lattice: exhaustive product of the abstract domain (descriptor fields x target property shape x extensibility x trap result) for the white-box calls, "
                           "near-honest descriptors x handler kind x key kind end-to-end; a case is distinct by (trap, abstract fields); lock-step: seeded op histories, distinct by (target kind, layers, handler kind, op list)")

def history_problems(line, out):
    """problems of one lock-step history given the harness answer (no Lean needed)"""
    f = line.replace("Q fresh ", "Q ", 1).split()
    if f[1].startswith("inproto-"):
        return [] if out.startswith("OK ") else [out]
    if f[1] == "fnkind":
        return [] if out.startswith("OK ") else [out]
    if f[1] == "mutate":
        return [] if out.count("#") == 2 else [out]
    if f[1] == "enumlie":
        if out.count("#") != 2:
            return [out]
        res, facts, log = out.split("#")
        lies = {} if f[4] == "-" else dict(x.rsplit(":", 1) for x in f[4].split(","))
        exp, elog = enumlie_expected(f[2], f[3] == "1", lies, facts)
        return [] if (res == exp and log == ",".join(elog)) else ["enumeration: observed %s [%s], ECMA-262 requires %s [%s]" % (res, log, exp, ",".join(elog))]
    if f[1] == "keylie":
        if out == "NA":
            return []
        if out.count("#") != 3:
            return [out]
        exp, ok = keylie_expected(out, f[5].split(",")[2])
        return [] if ok else ["own-keys invariant: observed %s, ECMA-262 §10.5.11 requires %s" % (out.split("#")[0], exp)]
    if f[1] == "revoked":
        return [] if out.startswith("OK") else ["revoked proxy did not throw TypeError on: " + out]
    if not out.startswith("OK "):
        return [out]
    probs = []
    tm = TokMap()
    for item in out[3:].split(" | "):
        parts = item.split("#")
        if len(parts) != 4:
            continue
        op, res, facts, log = parts
        ml = model_line(int(f[2]), op, res, facts, tm)
        if ml is None:
            continue
        mt = ml[0].split()
        exp = py_layer_log(int(mt[1]), mt[2], ("TE" if ml[1] == "TE" else ml[1] if ml[1][:2] == "b:" else "ok"), mt[6], mt[7] == "1")
        if exp != (log or "-"):
            probs.append("op %s: trap-call sequence %s, expected %s" % (op, log or "-", exp))
    return probs

def replay(ctx, path):
    with open(path) as f:
        rp = json.load(f)
    if rp.get("kind") == "broken-obligation":
        print(json.dumps(rp, indent=1))
        print("VIOLATION property=C11 replay=%s no-failing-input-found" % path)
        return 1
    harness = ctx.go_build()
    ops = rp.get("ops") or []
    if not harness or not ops:
        print(json.dumps(rp, indent=1))
        return 1
    rc, out, err = ctx.run_lines([harness], ops)
    model = ctx.model_exe()
    mo = None
    if os.path.exists(model):
        _, mo, _ = ctx.run_lines([model], [l for l in ops if l.split()[0] in ("W", "E")])
    bad = 0
    mi = 0
    for i, l in enumerate(ops):
        f = l.split()
        print("case:     ", l)
        print("observed: ", out[i] if i < len(out) else "?")
        if f[0] in ("W", "E"):
            spec = py_spec(f)
            if mo and mi < len(mo):
                print("model:    ", mo[mi], "(regenerated mechanism, Lean spec)")
                mi += 1
            print("expected: ", spec, "(ECMA-262 §10.5)")
            if i < len(out) and out[i] != spec and not (f[0] == "W" and f[3] in ("compat", "def") and desc_ill_formed(parse_desc(f[6]))):
                bad += 1
        elif i < len(out):
            probs = history_problems(l, out[i])
            for p in probs:
                print("problem:  ", p)
            print("expected: ", "every result and the final state identical to the target's; trap-call sequences as in §10.5")
            bad += 1 if probs else 0
    if bad:
        print("VIOLATION property=C11 replay=%s" % path)
    return 1 if bad else 0
