"""
C19 — JSON.parse / JSON.stringify conform to the grammar and round-trip; Object.MarshalJSON agrees with stringify.

Run order (BUILDERS.md): lake build (Props + model driver) -> audit -> go build harness -> correspondence:

  P  texts   : grammar-generated JSON texts (nesting <= 8, all escapes, long mantissas / exponents, all white-space
               placements), ALL single-edit corruptions of a set of base texts, a hand-written corner list and the corpus.
               Lean model (`parseRaw` + `build`) vs goja (accept/reject class + structural dump), and a third,
               independent python reference parser (fallback oracle when the Lean build is broken).
               Documented exception (README §JSON): lone surrogates inside string tokens become U+FFFD — compared
               against the model's dump with exactly that substitution ("L" dump), nothing else is relaxed.
  S  values  : plain data (objects with index / string keys in any insertion order, arrays, strings, numbers)
               x all legal indents (numbers 0..12, strings of length 0..12): Lean `stringify` vs spec oracle
               (harness/cmd/c19/prelude.js) vs goja's JSON.stringify vs Object.MarshalJSON.
  J  exotic  : holes, boxed primitives, -0, non-finite, BigInt, symbols, functions, toJSON, getters, proxies,
               cycles x replacer functions / allow-lists x all forms of `space`: spec oracle vs goja (text + call log).
"""
import os, struct, json, re, subprocess, time
from decimal import Decimal
from vlib import *

PROP = "C19"

# ------------------------------------------------------------------------------------------ helpers

def units(s):
    b = s.encode("utf-16-le", "surrogatepass")
    return list(struct.unpack("<%dH" % (len(b) // 2), b))

def hx(s):
    return "".join("%04x" % u for u in units(s))

def hxu(us):
    return "".join("%04x" % u for u in us)

def unhx(h):
    us = [int(h[i:i + 4], 16) for i in range(0, len(h), 4)]
    return struct.pack("<%dH" % len(us), *us).decode("utf-16-le", "surrogatepass")

def show(s, lim=120):
    r = json.dumps(s)
    return r if len(r) <= lim else r[:lim] + "…"

# ------------------------------------------------------------------------------------------ python reference parser
# Independent transcription of ECMA-404 + the object-building rules (third opinion; fallback oracle).

WS = (32, 9, 10, 13)
ESC = {34: 34, 92: 92, 47: 47, 98: 8, 102: 12, 110: 10, 114: 13, 116: 9}

class Rej(Exception):
    pass

def _hexv(c):
    if 48 <= c <= 57: return c - 48
    if 97 <= c <= 102: return c - 87
    if 65 <= c <= 70: return c - 55
    raise Rej()

def f64bits(lexeme):
    return "%016x" % struct.unpack(">Q", struct.pack(">d", float(lexeme)))[0]

def is_index(k):
    if not k or len(k) > 10: return None
    if not all(48 <= c <= 57 for c in k): return None
    if k[0] == 48 and len(k) > 1: return None
    v = int("".join(map(chr, k)))
    return v if v < 4294967295 else None

def fix_lone(us):
    out, i = [], 0
    while i < len(us):
        c = us[i]
        if 0xD800 <= c <= 0xDBFF and i + 1 < len(us) and 0xDC00 <= us[i + 1] <= 0xDFFF:
            out += [c, us[i + 1]]; i += 2; continue
        out.append(0xFFFD if 0xD800 <= c <= 0xDFFF else c); i += 1
    return out

def fix_text(us):
    """the text as a UTF-8 based tokenizer sees it: raw lone surrogates and escaped surrogates outside an escaped
    high+low pair become U+FFFD (documented exception)"""
    us = fix_lone(us)
    out, i, n = [], 0, len(us)
    def surr(i):
        if i + 6 <= n and us[i] == 92 and us[i + 1] == 117:
            try:
                v = 0
                for d in us[i + 2:i + 6]: v = v * 16 + _hexv(d)
            except Rej:
                return None
            return v if 0xD800 <= v <= 0xDFFF else None
        return None
    FF = [92, 117, 102, 102, 102, 100]
    while i < n:
        c = us[i]
        if c == 92:
            v = surr(i)
            if v is not None:
                if v <= 0xDBFF:
                    w = surr(i + 6)
                    if w is not None and w >= 0xDC00:
                        out += us[i:i + 12]; i += 12; continue
                out += FF; i += 6; continue
            out += us[i:i + 2]; i += 2; continue
        out.append(c); i += 1
    return out

class PyRef:
    def __init__(self, t):
        self.t, self.i = t, 0
    def ws(self):
        while self.i < len(self.t) and self.t[self.i] in WS: self.i += 1
    def peek(self):
        return self.t[self.i] if self.i < len(self.t) else -1
    def lit(self, word):
        w = [ord(c) for c in word]
        if self.t[self.i:self.i + len(w)] != w: raise Rej()
        self.i += len(w)
    def string(self):
        assert self.peek() == 34
        self.i += 1
        out = []
        while True:
            if self.i >= len(self.t): raise Rej()
            c = self.t[self.i]; self.i += 1
            if c == 34: break
            if c == 92:
                if self.i >= len(self.t): raise Rej()
                e = self.t[self.i]; self.i += 1
                if e == 117:
                    if self.i + 4 > len(self.t): raise Rej()
                    v = 0
                    for d in self.t[self.i:self.i + 4]: v = v * 16 + _hexv(d)
                    self.i += 4
                    out.append(v)
                elif e in ESC: out.append(ESC[e])
                else: raise Rej()
            elif c < 32: raise Rej()
            else: out.append(c)
        return out
    def number(self):
        s = self.i
        def digits():
            n = 0
            while 48 <= self.peek() <= 57: self.i += 1; n += 1
            return n
        if self.peek() == 45: self.i += 1
        if self.peek() == 48: self.i += 1
        elif 49 <= self.peek() <= 57: digits()
        else: raise Rej()
        if self.peek() == 46:
            self.i += 1
            if digits() == 0: raise Rej()
        if self.peek() in (101, 69):
            self.i += 1
            if self.peek() in (43, 45): self.i += 1
            if digits() == 0: raise Rej()
        lex = "".join(map(chr, self.t[s:self.i]))
        return "n" + f64bits(lex)
    def value(self, depth=0):
        self.ws()
        c = self.peek()
        if c == 110: self.lit("null"); return "z"
        if c == 116: self.lit("true"); return "t"
        if c == 102: self.lit("false"); return "f"
        if c == 34: return "s" + hxu(self.string())
        if c == 91:
            self.i += 1; self.ws()
            items = []
            if self.peek() == 93: self.i += 1; return "[]"
            while True:
                items.append(self.value(depth + 1)); self.ws()
                c = self.peek()
                if c == 44: self.i += 1; continue
                if c == 93: self.i += 1; break
                raise Rej()
            return "[" + ",".join(items) + "]"
        if c == 123:
            self.i += 1; self.ws()
            ms = {}                                    # python dicts keep first-insertion position on overwrite
            if self.peek() == 125: self.i += 1; return "{}"
            while True:
                self.ws()
                if self.peek() != 34: raise Rej()
                k = tuple(self.string()); self.ws()
                if self.peek() != 58: raise Rej()
                self.i += 1
                ms[k] = self.value(depth + 1); self.ws()
                c = self.peek()
                if c == 44: self.i += 1; continue
                if c == 125: self.i += 1; break
                raise Rej()
            idx = sorted((k for k in ms if is_index(k) is not None), key=is_index)
            rest = [k for k in ms if is_index(k) is None]
            return "{" + ",".join(hxu(k) + ":" + ms[k] for k in idx + rest) + "}"
        if c == 45 or 48 <= c <= 57: return self.number()
        raise Rej()

def py_parse(t):
    """-> 'err' | 'ok <dump>' | 'ok <dump> L <dump>'"""
    import sys
    try:
        p = PyRef(t); d = p.value(); p.ws()
        if p.i != len(t): return "err"
    except Rej:
        return "err"
    except RecursionError:
        return "skip"
    t2 = fix_text(t)
    if t2 != t:
        try:
            q = PyRef(t2); d2 = q.value()
        except Rej:
            return "ok " + d + " L err"
        return "ok " + d + " L " + d2
    return "ok " + d

# ------------------------------------------------------------------------------------------ JS number text

def js_num(f):
    """Number::toString(f) for a finite double (ECMA-262 §6.1.6.1.20) from python's shortest repr."""
    if f == 0: return "0"
    sign = "-" if f < 0 else ""
    d = Decimal(repr(abs(f)))
    _, digs, exp = d.as_tuple()
    digs = list(digs)
    while len(digs) > 1 and digs[-1] == 0: digs.pop(); exp += 1
    while len(digs) > 1 and digs[0] == 0: digs.pop(0)
    k = len(digs); n = exp + k
    ds = "".join(map(str, digs))
    if k <= n <= 21: return sign + ds + "0" * (n - k)
    if 0 < n <= 21: return sign + ds[:n] + "." + ds[n:]
    if -6 < n <= 0: return sign + "0." + "0" * (-n) + ds
    e = n - 1
    es = ("+" if e >= 0 else "-") + str(abs(e))
    return sign + (ds if k == 1 else ds[0] + "." + ds[1:]) + "e" + es

# ------------------------------------------------------------------------------------------ generators: JSON texts

WS_CHOICES = ["", "", "", "", " ", " ", "\n", "\t", "\r", " \n\t\r ", "  "]
KEY_POOL = ["a", "b", "c", "", "__proto__", "0", "1", "2", "10", "7", "01", "-1", "1.0", "4294967294", "4294967295",
            "4294967296", "9007199254740991", "constructor", "toString", "length", "valueOf", "\u00e9", "k\u0000", "x y",
            "\ud800", "\udc00", "\U0001f600", "A", "00", "1e3", "+1", " 1", "3"]
PLAIN_CHARS = "abcxyzABC019 _-+.,:;[]{}'/*#<>&\u007f\u0080\u00a0\u00e9\u2028\u2029\ufeff\uffff\ufffd"
NUM_FIXED = [
    "0", "-0", "1", "-1", "10", "123", "9007199254740991", "9007199254740992", "9007199254740993", "-9007199254740993",
    "0.0", "-0.0", "0e0", "0E+0", "0e-0", "-0e5", "1e0", "1E5", "1e+5", "1e-5", "1.5", "1.25e2", "0.1", "0.5", "3.14159",
    "1e308", "1.7976931348623157e308", "1.7976931348623158e308", "1.7976931348623159e308", "1.797693134862315807e308",
    "1.797693134862315708e308", "1e309", "-1e309", "1e400", "-1e400", "1e1000000", "1e-1000000",
    "1e99999999999999999999999", "1e-99999999999999999999999", "-1e-99999999999999999999999", "0e99999999999999999999999",
    "0.0000e99999999999999999999999", "1e+000000000000000000000000000000000000002",
    "5e-324", "4.9e-324", "2.4703282292062327e-324", "2.4703282292062328e-324", "2.47032822920623272088e-324",
    "2.4703282292062327208851e-324", "2.2250738585072014e-308", "2.2250738585072011e-308", "2.225073858507201e-308",
    "1e-323", "1e-324", "1e-325", "1e-400", "-1e-400",
    "1.00000000000000011102230246251565404236316680908203125",
    "1.00000000000000011102230246251565404236316680908203124",
    "1.00000000000000011102230246251565404236316680908203126",
    "1.00000000000000033306690738754696212708950042724609375",
    "9007199254740992.5", "9007199254740993.0000000000000000001", "4503599627370496.5", "4503599627370497.5",
    "0.1e1", "100e-2", "123456789012345678901234567890", "0.000000000000000000000000000001234",
    "1" + "0" * 400, "0." + "0" * 400 + "1", "1" + "0" * 310 + "e-310", "0." + "0" * 330 + "1e331", "12345678901234567890e-20",
]
INVALID_FIXED = [
    "", " ", "01", "-01", "00", "-", "- 1", "--1", "+1", "1.", ".5", "-.5", "1.e5", "1e", "1e+", "1e-", "1E", "1e1.5", "1.5.5",
    "0x10", "1_0", "1,", "Infinity", "-Infinity", "NaN", "undefined", "nul", "nulll", "Null", "True", "tru", "fals", "falsey",
    "'a'", "\"a", "\"\\\"", "\"\\", "\"\\u12\"", "\"\\u12", "\"\\u00g0\"", "\"\\U0041\"", "\"\\x41\"", "\"\\'\"", "\"\\a\"",
    "\"\\0\"", "\"\\v\"", "\"\\ \"", "\"\t\"", "\"\n\"", "\"\r\"", "\"\u0000\"", "\"\u001f\"", "\"\u0001\"", "\"\b\"", "\"\f\"",
    "\ufeff1", "1\ufeff", "\u00a01", "1\u00a0", "\f1", "\v1", "1\f", "\u20281", "\u2029[]", "\u0085 1", "\u16801", "\u30001",
    "[1,]", "[,1]", "[,]", "[1,,2]", "{\"a\":1,}", "{,}", "{,\"a\":1}", "[1 2]", "{\"a\" 1}", "{\"a\":1 \"b\":2}", "{a:1}",
    "{'a':1}", "{1:2}", "{\"a\"}", "{\"a\":}", "{\"a\",1}", "{\"a\":1:2}", "[1:2]", "[\"a\":1]", "{[1]:2}", "{null:1}",
    "1 2", "1]", "[1]]", "[1]}", "{}}", "{}{}", "[][]", "[1],", "[1]:", "{\"a\":1}:", "{\"a\":1},", "1,", "1:", ",1", ":1",
    "//x\n1", "/*x*/1", "1//x", "1/**/", "#1", "[", "{", "]", "}", "[[", "[{", "{\"a\":[", "{\"a\":{", "[1", "{\"a\":1", "{\"a\"",
    "{\"a\":[}", "[{]", "[}", "{]", "(1)", "[1;2]", "\"a\" \"b\"", "\"a\"\"b\"", "[\"a\"\"b\"]", "nullnull", "truefalse", "1true",
    "true1", "[true1]", "[1true]", "-true", "-\"a\"", "-[]", "1e5e5", "1-1", "1+1", "1e5.0", "0.0.0", "0..0", "1 e5", "1e 5", "1. 5",
    "1 .5", "-0x0", "0b1", "0o7", "1n", "1f", "1d", "1L", "`a`", "\"a\\\nb\"", "[\"\\ud800\"", "\"\\ud800", "\"\\uD8",
]
VALID_FIXED = [
    "null", "true", "false", "\"\"", "[]", "{}", " [ ] ", " { } ", "[[]]", "[{}]", "{\"a\":{}}", "{\"a\":[]}", "[[],[]]",
    "\"\\\"\\\\\\/\\b\\f\\n\\r\\t\"", "\"\\u0041\\u00e9\\u2028\\uD83D\\uDE00\\ud83d\\ude00\\uABCD\\uabcd\\uAbCd\"",
    "\"\u007f\u0080\u00a0\u2028\u2029\ufeff\uffff\"", "\"/\"", "\"'\"", "\"\U0001f600\"",
    "{\"__proto__\":1}", "{\"__proto__\":null}", "{\"__proto__\":{\"x\":1}}", "{\"__proto__\":[]}", "[{\"__proto__\":1,\"a\":2,\"__proto__\":3}]",
    "{\"a\":1,\"a\":2}", "{\"a\":1,\"b\":2,\"a\":3}", "{\"b\":1,\"a\":2,\"b\":{\"b\":1,\"b\":2}}", "{\"\":1,\"\":2}",
    "{\"2\":1,\"1\":2,\"b\":3,\"0\":4,\"a\":5,\"10\":6,\"01\":7}", "{\"b\":1,\"4294967295\":2,\"1\":3,\"4294967294\":4,\"4294967296\":5}",
    "{\"1\":1,\"1\":2,\"0\":3}", "{\"a\":1,\"1\":1,\"a\":2,\"0\":0,\"1\":3}", "{\"-0\":1,\"0\":2,\"00\":3,\"1.0\":4,\"1e0\":5,\"9\":6}",
    "{\"constructor\":1,\"toString\":2,\"valueOf\":3,\"hasOwnProperty\":4,\"length\":5}",
    "\t\n\r [\t\n\r 1\t\n\r ,\t\n\r 2\t\n\r ]\t\n\r ", " { \"a\" : [ 1 , { \"b\" : null } ] , \"c\" : \"d\" } ",
    "[" * 8 + "]" * 8, "[" * 64 + "1" + "]" * 64, "{\"a\":" * 30 + "1" + "}" * 30, "[" * 600 + "]" * 600,
    "\"\\ud800\"", "\"\\udc00\"", "\"\\ud800\\ud800\"", "\"\\udc00\\ud800\"", "\"\\ud800x\"", "\"\\ud83d\\u0041\"", "\"\ud800\"",
    "\"\udc00a\"", "\"\ud83d\\ude00\"", "\"\\ud83d\ude00\"", "{\"\\ud800\":1,\"\\ud801\":2}", "{\"\\ud800\":1,\"\ufffd\":2}",
    "[\"\ud800\",\"\\udfff\"]",
]

def gen_ws(r):
    return r.choice(WS_CHOICES)

def gen_string_tok(r, key=False):
    if key and r.random() < 0.75:
        s = r.choice(KEY_POOL)
        # render through a random mix of raw / escaped forms
        out = []
        for ch in s:
            c = ord(ch)
            if c < 32 or ch in "\"\\" or (0xD800 <= c <= 0xDFFF and r.random() < 0.7) or r.random() < 0.15:
                out.append("\\u%04x" % c if r.random() < 0.5 else "\\u%04X" % c)
            else:
                out.append(ch)
        return "\"" + "".join(out) + "\""
    n = r.choice([0, 1, 1, 2, 3, 5, 8, 20])
    out = []
    for _ in range(n):
        k = r.random()
        if k < 0.45: out.append(r.choice(PLAIN_CHARS))
        elif k < 0.60: out.append("\\" + r.choice("\"\\/bfnrt"))
        elif k < 0.75:
            c = r.choice([r.randrange(0, 0x20), r.randrange(0x20, 0x80), r.randrange(0x80, 0xD800), r.randrange(0xE000, 0x10000), 0x2028, 0, 0xFFFF, 0x22, 0x5c])
            out.append(("\\u%04x" if r.random() < 0.5 else "\\u%04X") % c)
        elif k < 0.83:   # escaped surrogate pair
            hi, lo = r.randrange(0xD800, 0xDC00), r.randrange(0xDC00, 0xE000)
            out.append("\\u%04x\\u%04X" % (hi, lo))
        elif k < 0.90:   # raw astral
            out.append(chr(r.randrange(0x10000, 0x110000)))
        elif k < 0.95:   # lone surrogate escape (documented exception)
            out.append("\\u%04x" % r.randrange(0xD800, 0xE000))
        elif k < 0.97:   # raw lone surrogate
            out.append(chr(r.randrange(0xD800, 0xE000)))
        else:
            out.append(chr(r.randrange(0x20, 0xD800)))
    return "\"" + "".join(("\\\"" if x == "\"" else ("\\\\" if x == "\\" else x)) for x in out) + "\""

def gen_number_tok(r):
    k = r.random()
    if k < 0.25: return r.choice(NUM_FIXED)
    sign = "-" if r.random() < 0.3 else ""
    ik = r.random()
    if ik < 0.25: ip = "0"
    elif ik < 0.8: ip = str(r.randrange(1, 10)) + "".join(r.choice("0123456789") for _ in range(r.choice([0, 0, 1, 2, 5, 15, 16, 17, 20, 40])))
    else: ip = str(r.randrange(1, 10)) + "".join(r.choice("0123456789") for _ in range(r.choice([100, 308, 309, 400])))
    fp = ""
    if r.random() < 0.5:
        fp = "." + "".join(r.choice("0123456789") for _ in range(r.choice([1, 1, 2, 3, 10, 17, 25, 60, 350])))
    ep = ""
    if r.random() < 0.5:
        e = r.choice([0, 1, 2, 5, 10, 15, 16, 17, 20, 21, 22, 23, 100, 300, 307, 308, 309, 310, 323, 324, 325, 330, 400, 1000, 99999, 10 ** 12, 10 ** 25])
        if r.random() < 0.3: e = r.randrange(0, 340)
        ep = r.choice("eE") + r.choice(["", "+", "-", "-"]) + ("0" * r.choice([0, 0, 0, 1, 3])) + str(e)
    return sign + ip + fp + ep

def gen_value_text(r, depth, maxdepth):
    k = r.random()
    if depth >= maxdepth or k < 0.45:
        j = r.random()
        if j < 0.12: return "null"
        if j < 0.2: return "true"
        if j < 0.28: return "false"
        if j < 0.62: return gen_number_tok(r)
        return gen_string_tok(r)
    if k < 0.72:
        n = r.choice([0, 1, 1, 2, 3, 4])
        return "[" + gen_ws(r) + ("," ).join(gen_ws(r) + gen_value_text(r, depth + 1, maxdepth) + gen_ws(r) for _ in range(n)) + "]"
    n = r.choice([0, 1, 2, 2, 3, 4, 6])
    ms = []
    for _ in range(n):
        ms.append(gen_ws(r) + gen_string_tok(r, key=True) + gen_ws(r) + ":" + gen_ws(r) + gen_value_text(r, depth + 1, maxdepth) + gen_ws(r))
    return "{" + gen_ws(r) + ",".join(ms) + "}"

def gen_text(r):
    md = r.choice([0, 1, 2, 2, 3, 3, 4, 5, 6, 8])
    return gen_ws(r) + gen_value_text(r, 0, md) + gen_ws(r)

EDIT_ALPHABET = [ord(c) for c in "{}[],:\"\\/019-+.eEaunrtlsf \t\n\r\f\v\x00\x1f\x7f\u00a0\ufeff\u2028\u00e9'x*#"] + [0xD83D, 0xDE00, 0x85]

BASE_FOR_EDITS = [
    "{\"a\":[1,2.5e-3,true],\"b\":null}", " [ -0 , \"x\\n\\u00e9\" , {} ] ", "{\"1\":false,\"\":\"\\\\\"}", "-12.50E+10", "\"\\ud83d\\ude00\ud83d\ude00\"",
    "[[],{},[{}],\"\"]", "{\"__proto__\":{\"a\":0}}", "null", "true", "false", "0", "\"\"", "[]", "{}", "1e400", "[1,[2,[3,[4]]]]",
    "{\"a\" : 1 ,\n\"a\" :\t2}",
]

def all_single_edits(us):
    out = []
    n = len(us)
    for i in range(n):
        out.append(us[:i] + us[i + 1:])
    for i in range(n + 1):
        for c in EDIT_ALPHABET:
            out.append(us[:i] + [c] + us[i:])
    for i in range(n):
        for c in EDIT_ALPHABET:
            if c != us[i]:
                out.append(us[:i] + [c] + us[i + 1:])
    return out

def random_edit(r, us):
    n = len(us)
    k = r.random()
    if k < 0.3 and n: i = r.randrange(n); return us[:i] + us[i + 1:]
    if k < 0.65: i = r.randrange(n + 1); return us[:i] + [r.choice(EDIT_ALPHABET)] + us[i:]
    if n: i = r.randrange(n); return us[:i] + [r.choice(EDIT_ALPHABET)] + us[i + 1:]
    return us

# ------------------------------------------------------------------------------------------ generators: plain values (S ops)

S_KEYS = ["a", "b", "c", "d", "", "__proto__", "0", "1", "2", "3", "10", "7", "01", "-1", "1.5", "4294967294", "4294967295",
          "9007199254740991", "constructor", "toJSON ", "length", "\u00e9", "k\u0000", "q\"uote", "back\\slash", "\ud800", "\udc00x",
          "\U0001f600", "\u2028", "\n", "\u001f", "\u007f"]
S_STRS = ["", "a", "hello", "\"", "\\", "/", "\b\f\n\r\t", "\u0000\u0001\u001f", "\u007f\u0080\u00e9", "\u2028\u2029", "\ud800", "\udc00",
          "\ud800\ud800", "\udc00\ud800", "a\ud83d", "\ude00b", "\U0001f600", "\ud83d\ude00\ud83d", "\uffff\ufffe\ufeff", "x" * 40]

def surrogate_patterns(maxlen=4):
    """every sequence of length 1..maxlen over {high surrogate, low surrogate, 'a'}: H H L, H L L, L H L, H H, L L,
    H at end, L at start, H L H L, … (adjacency of lone surrogates and pairs)"""
    import itertools
    out = []
    for n in range(1, maxlen + 1):
        for combo in itertools.product((0xD83D, 0xDE00, 0x61), repeat=n):
            out.append("".join(chr(c) for c in combo))
    return out

SURR_KEY_PATTERNS = ["\ud83d\ud83d\ude00", "\ud83d\ude00\ude00", "\ude00\ud83d\ude00", "\ud83d\ud83d", "\ude00\ude00", "a\ud83d", "\ude00a",
                     "\ud83d\ude00\ud83d\ude00", "\ud800\udbff\udc00\udfff", "\udbff\udbff\udfff\udfff"]

S_STRS += SURR_KEY_PATTERNS
S_KEYS += SURR_KEY_PATTERNS

def gen_num_lex(r):
    k = r.random()
    if k < 0.4: return str(r.choice([0, 1, -1, 2, 10, 42, -7, 100, 255, 65536, 2 ** 31, -2 ** 31, 2 ** 32, 2 ** 53 - 1, -(2 ** 53 - 1), 2 ** 53, r.randrange(-10 ** 6, 10 ** 6), r.randrange(-2 ** 53, 2 ** 53)]))
    if k < 0.6:
        f = r.choice([0.5, 1.5, -2.25, 0.1, 0.2, 0.3, 1e21, 1e-7, 1e-6, 123456789012345680000.0, 1.7976931348623157e308, 5e-324, 2.2250738585072014e-308,
                      1e300, -1e-300, 4.35, 0.000001, 1e22, 12345.678, 2 ** 53 + 2.0, 2.0 ** 70, 1 / 3, 2 / 3, 100 / 3, 0.1 + 0.2])
        return js_num(f)
    bits = r.getrandbits(64)
    f = struct.unpack(">d", struct.pack(">Q", bits))[0]
    if f != f or f in (float("inf"), float("-inf")) or f == 0: f = r.random() * 10 ** r.randrange(-20, 25)
    if r.random() < 0.5: f = r.uniform(-1, 1) * 10 ** r.randrange(-10, 25)
    return js_num(f) if f != 0 else "0"

def gen_plain(r, depth, maxdepth):
    """-> token list"""
    k = r.random()
    if depth >= maxdepth or k < 0.4:
        j = r.random()
        if j < 0.1: return ["z"]
        if j < 0.18: return ["t"]
        if j < 0.26: return ["f"]
        if j < 0.6: return ["n" + hx(gen_num_lex(r))]
        return ["s" + hx(r.choice(S_STRS))]
    if k < 0.68:
        n = r.choice([0, 0, 1, 1, 2, 3, 4])
        toks = ["a%d" % n]
        for _ in range(n): toks += gen_plain(r, depth + 1, maxdepth)
        return toks
    n = r.choice([0, 0, 1, 2, 2, 3, 4, 6])
    keys = r.sample(S_KEYS, n)
    toks = ["o%d" % n]
    for kk in keys:
        toks.append("s" + hx(kk))
        toks += gen_plain(r, depth + 1, maxdepth)
    return toks

GAP_STR_CHARS = " \t\n\r-ab.x"
def all_gaps(r):
    gaps = ["n%d" % k for k in range(0, 13)]
    for ln in range(0, 13):
        gaps.append("s" + hx("".join(r.choice(GAP_STR_CHARS) for _ in range(ln))))
        gaps.append("s" + hx(" " * ln))
    gaps += ["s" + hx("\u00e9"), "s" + hx("\u00e9" * 11), "s" + hx("aaaaaaaaa\u00e9\u00e9"), "s" + hx("ab\U0001f600cdefghijk"),
             "s" + hx("\u2028\u2029"), "s" + hx("\ud800"), "s" + hx("abcdefghi\ud83d\ude00")]
    return gaps

# ------------------------------------------------------------------------------------------ generators: exotic JS (J ops)

def js_str(s):
    out = []
    for u in units(s):
        if 32 <= u < 127 and chr(u) not in "\"\\": out.append(chr(u))
        else: out.append("\\u%04x" % u)
    return "\"" + "".join(out) + "\""

J_KEYS = ["a", "b", "c", "0", "1", "2", "10", "__proto__", "", "x y", "\u00e9", "\ud800", "toJSON", "4294967295", "length",
          "\ud83d\ud83d\ude00", "\ude00\ud83d\ude00", "\ud83d\ude00\ude00"]

class JGen:
    def __init__(self, r):
        self.r = r
        self.stmts = []
        self.n = 0
        self.shared = []      # variables holding a finished value: every kind of value can be referenced again
                              # (same object identity at several places / depths; DAGs, never cycles)
    def fresh(self):
        self.n += 1
        return "v%d" % self.n
    def prim(self):
        r = self.r
        return r.choice(["1", "0", "-0", "-1", "1.5", "1e21", "1e-7", "NaN", "Infinity", "-Infinity", "9007199254740993", "0.1", "255", "null", "true", "false",
                         "undefined", "\"\"", "\"s\"", js_str(r.choice(S_STRS)), js_str(r.choice(SURR_KEY_PATTERNS)), "10n", "-0n", "Symbol(\"s\")", "Symbol.iterator", "function(){}", "(()=>1)",
                         "class{}", "Math.max"])
    def boxed(self):
        r = self.r
        return r.choice(["new Number(1)", "new Number(-0)", "new Number(NaN)", "new String(\"s\")", "new String(\"\")", "new Boolean(true)", "new Boolean(false)",
                         "Object(1n)", "Object(Symbol(\"w\"))", "new Date(0)", "new Date(NaN)", "new Date(8.64e15)", "/x/g", "new Map([[1,2]])", "new Set([1])",
                         "new Error(\"e\")", "new Uint8Array([1,2])", "new ArrayBuffer(2)", "Promise.resolve(1)", "new WeakMap()", "Object.create(null)",
                         "Object.create({inherited:1})", "(function(){return arguments})(1,2)", "new (class A{constructor(){this.q=1}})()",
                         "(function(){var n=new Number(1); n.valueOf=function(){LOG.push(\"valueOf\");return 7}; return n})()",
                         "(function(){var n=new Number(1); n.toString=function(){LOG.push(\"toString\");return \"8\"}; return n})()",
                         "(function(){var s=new String(\"x\"); s.toString=function(){LOG.push(\"toString\");return \"y\"}; return s})()",
                         "(function(){var s=new String(\"x\"); s.valueOf=function(){LOG.push(\"valueOf\");return \"z\"}; return s})()",
                         "(function(){var b=new Boolean(false); b.valueOf=function(){LOG.push(\"valueOf\");return true}; return b})()",
                         "(function(){var n=new Number(5); n.toJSON=function(k){LOG.push(\"tj:\"+k);return \"five\"}; return n})()",
                         ])
    def value(self, depth):
        r = self.r
        if self.shared and r.random() < 0.22:
            return r.choice(self.shared)
        e = self.value0(depth)
        if r.random() < 0.22:
            v = self.fresh(); self.stmts.append("var %s=%s;" % (v, e)); self.shared.append(v)
            return v
        return e
    def value0(self, depth):
        r = self.r
        k = r.random()
        if depth >= 4 or k < 0.3: return self.prim()
        if k < 0.42: return self.boxed()
        if k < 0.6:   # array, maybe with holes / extra props / length tricks
            n = r.choice([0, 0, 1, 2, 3, 4])
            items = []
            for _ in range(n):
                items.append("" if r.random() < 0.15 else self.value(depth + 1))
            e = "[" + ",".join(items) + ("," if items and items[-1] == "" else "") + "]"
            j = r.random()
            if j < 0.1:
                v = self.fresh(); self.stmts.append("var %s=%s; %s.extra=1; %s[%d]=%s;" % (v, e, v, v, n + r.choice([0, 1, 3]), self.prim())); return v
            if j < 0.15: return "new Array(%d)" % r.choice([0, 1, 3])
            if j < 0.2:
                v = self.fresh(); self.stmts.append("var %s=%s; %s.length=%d;" % (v, e, v, r.choice([0, 1, 2, 5]))); return v
            return e
        if k < 0.85:  # object
            n = r.choice([0, 0, 1, 2, 3, 4, 5])
            keys = r.sample(J_KEYS, n)
            parts = []
            for kk in keys:
                j = r.random()
                if j < 0.08: parts.append("get [%s](){LOG.push(\"get:\"+%s); return %s}" % (js_str(kk), js_str(kk), self.value(depth + 1)))
                elif j < 0.14: parts.append("[Symbol(\"k\")]:%s" % self.prim())
                else: parts.append("[%s]:%s" % (js_str(kk), self.value(depth + 1)))
            e = "{" + ",".join(parts) + "}"
            j = r.random()
            if j < 0.12:
                ret = r.choice(["k+\"!\"", "undefined", "this", "[k]", "{k:k}", "1n", "null", "function(){}", "new Number(3)", "typeof k", "{toJSON(){return 1}}"])
                if ret == "this" : ret = "Object.assign({}, this, {toJSON:undefined})"
                v = self.fresh(); self.stmts.append("var %s=%s; Object.defineProperty(%s,\"toJSON\",{value:function(k){LOG.push(\"toJSON:\"+k); return %s},enumerable:%s,configurable:true,writable:true});" % (v, e, v, ret, r.choice(["true", "false"]))); return v
            if j < 0.2:
                v = self.fresh(); self.stmts.append("var %s=%s; Object.defineProperty(%s,\"hid\",{value:1,enumerable:false}); Object.defineProperty(%s,\"vis\",{get(){LOG.push(\"get:vis\");return 2},enumerable:true});" % (v, e, v, v)); return v
            if j < 0.26:
                v = self.fresh(); self.stmts.append("var %s=%s; %s.self=%s;" % (v, e, v, r.choice([v, "[%s]" % v, "{x:%s}" % v]))); return v
            if j < 0.3:
                v = self.fresh(); self.stmts.append("var %s=%s; delete %s[%s]; %s.z9=1; %s[5]=5;" % (v, e, v, js_str(r.choice(J_KEYS)), v, v)); return v
            return e
        # proxy
        target = r.choice([self.value(depth + 1) if r.random() < 0.5 else "{a:1,b:[1,2],1:0}", "[1,\"x\",,{a:1}]", "function(){}", "{}", "[]"])
        if not (target.startswith("{") or target.startswith("[") or target.startswith("function") or target.startswith("v")):
            target = "{p:" + target + "}"
        if target.startswith("v"):
            tv = self.fresh(); self.stmts.append("var %s=(typeof %s===\"object\"&&%s!==null||typeof %s===\"function\")?%s:{w:%s};" % (tv, target, target, target, target, target)); target = tv
        else:
            tv = self.fresh(); self.stmts.append("var %s=%s;" % (tv, target)); target = tv
        traps = []
        if r.random() < 0.7: traps.append("get(t,k,rc){LOG.push(\"get:\"+String(k));return Reflect.get(t,k,rc)}")
        if r.random() < 0.6: traps.append("ownKeys(t){LOG.push(\"ownKeys\");return Reflect.ownKeys(t)%s}" % r.choice(["", ".reverse()", ".concat([\"ghost\"])"] if True else [""]))
        if r.random() < 0.6: traps.append("getOwnPropertyDescriptor(t,k){LOG.push(\"gopd:\"+String(k));return Reflect.getOwnPropertyDescriptor(t,k)}")
        if r.random() < 0.2: traps.append("has(t,k){LOG.push(\"has:\"+String(k));return Reflect.has(t,k)}")
        # ".reverse()" would violate the invariant only for non-configurable 'length' of arrays -> TypeError on both sides (fine)
        return "new Proxy(%s,{%s})" % (target, ",".join(traps))
    def replacer(self):
        r = self.r
        k = r.random()
        if k < 0.35: return r.choice(["undefined", "undefined", "null", "1", "\"a\"", "{}", "{0:\"a\",length:1}", "true"])
        if k < 0.65:
            return r.choice([
                "function(k,v){LOG.push(\"r:\"+k+\":\"+typeof v+\":\"+(this===undefined?\"u\":typeof this)); return v}",
                "function(k,v){return typeof v===\"number\"?v+1:v}",
                "function(k,v){return k===\"a\"?undefined:v}",
                "function(k,v){return typeof v===\"bigint\"?String(v):v}",
                "function(k,v){return typeof v===\"symbol\"?\"sym\":v}",
                "function(k,v){return typeof v===\"function\"?\"fn\":v}",
                "function(k,v){return v===undefined?null:v}",
                "function(k,v){return k===\"\"?v:(Array.isArray(v)?v.length:v)}",
                "function(k,v){return k===\"b\"?{n:new Number(1),s:new String(\"q\"),u:undefined}:v}",
                "function(k,v){return k===\"\"?[v,v===null?0:1]:v}",
                "(k,v)=>v",
                "function(k,v){LOG.push(\"r:\"+k); if(k===\"0\") return Object(Symbol()); return v}",
                "new Proxy(function(k,v){return v},{apply(t,th,a){LOG.push(\"apply:\"+a[0]);return Reflect.apply(t,th,a)}})",
                "function(k,v){if(k===\"c\") throw \"boom\"; return v}",
            ])
        n = r.choice([0, 1, 2, 3, 4, 6])
        pool = ["\"a\"", "\"b\"", "\"c\"", "\"a\"", "0", "1", "-0", "1e21", "1.5", "\"\"", "\"__proto__\"", "new String(\"b\")", "new Number(1)", "{}", "null", "undefined", "true",
                "Symbol(\"a\")", "[\"a\"]", "\"x y\"", "\"length\"", "\"toJSON\"", "10n", js_str("\u00e9"), js_str("\ud800"), "\"2\"", "\"10\"",
                "(function(){var s=new String(\"k\"); s.toString=function(){LOG.push(\"rl:toString\");return \"a\"}; return s})()",
                "(function(){var n=new Number(3); n.toString=function(){LOG.push(\"rl:toString\");return \"b\"}; return n})()"]
        items = [("" if r.random() < 0.08 else r.choice(pool)) for _ in range(n)]
        e = "[" + ",".join(items) + ("," if items and items[-1] == "" else "") + "]"
        j = r.random()
        if j < 0.12: return "new Proxy(%s,{get(t,k,rc){LOG.push(\"rget:\"+String(k));return Reflect.get(t,k,rc)}})" % e
        if j < 0.18: return "Object.assign(%s,{extra:\"c\"})" % e
        return e
    def space(self):
        r = self.r
        k = r.random()
        if k < 0.2: return "undefined"
        if k < 0.5: return r.choice([str(i) for i in range(0, 13)] + ["-1", "-0", "0.9", "1.9", "9.99", "10.5", "11", "100", "NaN", "Infinity", "-Infinity", "1e19", "1e300",
                                                                        "9223372036854775807", "9223372036854775808", "9223372036854774784", "4294967296", "4294967297", "2147483648", "1e10", "-1e19", "5e-324"])
        if k < 0.78:
            ln = r.randrange(0, 13)
            alphabet = GAP_STR_CHARS if r.random() < 0.85 else GAP_STR_CHARS + "\u00e9\u2028\u00a0\U0001f600\ud800"
            return js_str("".join(r.choice(alphabet) for _ in range(ln)))
        return r.choice(["null", "true", "false", "{}", "[]", "[2]", "\"\"", "new Number(3)", "new Number(12)", "new Number(Infinity)", "new String(\"ab\")", "new String(\"0123456789abc\")",
                         "new Boolean(true)", "Object(2n)", "2n", "Symbol()", "function(){}",
                         "(function(){var n=new Number(1); n.valueOf=function(){LOG.push(\"sp:valueOf\");return 4}; return n})()",
                         "(function(){var s=new String(\"x\"); s.toString=function(){LOG.push(\"sp:toString\");return \"--\"}; return s})()",
                         "(function(){var s=new String(\"x\"); s.valueOf=function(){LOG.push(\"sp:valueOf\");return \"++\"}; return s})()",
                         "new Proxy(new Number(3),{})", "{valueOf(){return 3}}", "new Date(3)"])
    def protos(self):
        r = self.r
        self.polluted = False
        if r.random() < 0.15:
            self.polluted = True
            self.stmts.append(r.choice([
                "Number.prototype.toJSON=function(k){LOG.push(\"NtoJSON:\"+k+typeof this);return \"N\"};",
                "String.prototype.toJSON=function(k){LOG.push(\"StoJSON:\"+k+typeof this);return \"S\"};",
                "Boolean.prototype.toJSON=function(k){LOG.push(\"BtoJSON:\"+k);return \"B\"};",
                "BigInt.prototype.toJSON=function(k){\"use strict\";LOG.push(\"BItoJSON:\"+k+typeof this);return \"big\"+this};",
                "Object.defineProperty(BigInt.prototype,\"toJSON\",{get(){\"use strict\";LOG.push(\"BIget:\"+typeof this);return function(){return 7}},configurable:true});",
                "Symbol.prototype.toJSON=function(k){LOG.push(\"SymtoJSON:\"+k);return \"Y\"};",
                "Object.prototype.toJSON=function(k){LOG.push(\"OtoJSON:\"+k+Array.isArray(this));return Array.isArray(this)?this.length:1};",
                "Function.prototype.toJSON=function(k){LOG.push(\"FtoJSON:\"+k);return \"F\"};",
                "Array.prototype.toJSON=function(k){LOG.push(\"AtoJSON:\"+k);return \"A\"+this.length};",
                "Date.prototype.toJSON=function(k){LOG.push(\"DtoJSON:\"+k);return 5};",
                "Date.prototype.toISOString=function(){LOG.push(\"toISO\");return \"iso\"};",
                "Array.prototype[1]=\"protoelem\";",
                "Object.prototype[\"a\"]=\"protoa\";",
                "Object.defineProperty(Array.prototype,0,{get(){LOG.push(\"pget0\");return \"P0\"},configurable:true});",
                "Object.defineProperty(Array.prototype,2,{get(){LOG.push(\"pget2\");return function(){}},configurable:true});",
                "Object.defineProperty(Object.prototype,\"b\",{get(){LOG.push(\"pgetb\");return [1]},configurable:true});",
                "Object.defineProperty(Object.prototype,\"toJSON\",{get(){LOG.push(\"OtjGet:\"+typeof this);return undefined},configurable:true});",
                "Number.prototype.toJSON=5; String.prototype.toJSON={}; BigInt.prototype.toJSON=null;",
            ]))
    def case(self):
        self.protos()
        v = self.value(0)
        rp = self.replacer()
        sp = self.space()
        return ("JF " if self.polluted else "J ") + hx("function mk(){ %s return [%s, %s, %s]; }" % (" ".join(self.stmts), v, rp, sp))

V_TEXTS = ["1", "null", "\"s\"", "[]", "{}", "[1,2,3]", "[1,[2,[3,[4]]]]", "{\"a\":1,\"b\":2,\"c\":3}", "{\"a\":[1,2,{\"b\":3}],\"c\":4}",
           "{\"b\":1,\"a\":{\"2\":true,\"1\":null,\"x\":[]}}", "[{\"a\":1},{\"a\":2}]", "{\"__proto__\":{\"x\":1},\"y\":[0]}", "[[],{},\"\",0,-0,1e400]",
           "{\"a\":1,\"a\":2,\"1\":0}", "{\"length\":3,\"0\":1}", "[1,2", "x", ""]
V_REVIVERS = [
    "undefined", "null", "5", "\"f\"", "{}", "[]", "Symbol()", "true",
    "function(k,v){LOG.push(k+\":\"+typeof v+\":\"+(Array.isArray(this)?\"A\":typeof this)); return v}",
    "function(k,v){return typeof v===\"number\"?v*2:v}",
    "function(k,v){return k===\"a\"||k===\"1\"?undefined:v}",
    "function(k,v){return undefined}",
    "function(k,v){return k===\"\"?v:undefined}",
    "function(k,v){LOG.push(k); if(k===\"a\"||k===\"0\") delete this.b, delete this[1]; return v}",
    "function(k,v){LOG.push(k); if(k===\"a\"||k===\"0\") this.zz=[9]; return v}",
    "function(k,v){LOG.push(k); if(k===\"0\"&&Array.isArray(this)) this.push(7); return v}",
    "function(k,v){LOG.push(k); if(k===\"0\"&&Array.isArray(this)) this.length=1; return v}",
    "function(k,v){LOG.push(k); if(k===\"a\"||k===\"0\") Object.freeze(this); return typeof v===\"number\"?v+1:undefined}",
    "function(k,v){LOG.push(k); if(k===\"a\"||k===\"0\") Object.defineProperty(this,\"b\",{value:5,configurable:false,enumerable:true,writable:true}), Object.defineProperty(this,1,{value:5,configurable:false,enumerable:true,writable:true}); return k===\"b\"||k===\"1\"?undefined:v}",
    "function(k,v){return Array.isArray(v)?new Proxy(v,{get(t,p,r){LOG.push(\"get:\"+String(p));return Reflect.get(t,p,r)},deleteProperty(t,p){LOG.push(\"del:\"+String(p));return Reflect.deleteProperty(t,p)},defineProperty(t,p,d){LOG.push(\"def:\"+String(p));return Reflect.defineProperty(t,p,d)}}):v}",
    "function(k,v){return (typeof v===\"object\"&&v!==null&&!Array.isArray(v))?new Proxy(v,{ownKeys(t){LOG.push(\"ownKeys\");return Reflect.ownKeys(t)},getOwnPropertyDescriptor(t,p){LOG.push(\"gopd:\"+String(p));return Reflect.getOwnPropertyDescriptor(t,p)}}):v}",
    "function(k,v){if(LOG.length===0&&(k===\"a\"||k===\"0\")) this.b={n:[1,2]}, this[1]={n:[1,2]}; LOG.push(k); return v}",
    "function(k,v){return k===\"\"?v:function(){}}",
    "function(k,v){return k===\"c\"||k===\"2\"?[v,v]:v}",
    "function(k,v){if(k===\"b\") throw \"boom\"; return v}",
    "function(k,v){\"use strict\"; LOG.push(typeof this); return v}",
    "(k,v)=>v",
    "new Proxy(function(k,v){return v},{apply(t,th,a){LOG.push(\"apply:\"+a[0]);return Reflect.apply(t,th,a)}})",
    "class{}",
]

def gen_v(r):
    if r.random() < 0.6: text = r.choice(V_TEXTS)
    else:
        for _ in range(20):
            text = gen_text(r)
            if len(text) < 80 and not any(0xD800 <= u <= 0xDFFF for u in units(text)): break
        else: text = "[1]"
    return "V " + hx("function mk(){ return [%s, %s]; }" % (js_str(text), r.choice(V_REVIVERS)))

# every leaf kind referenced 2-3 times (same identity) at different depths, in arrays and objects,
# with and without replacer / allow-list; only true ancestors are cycles
SHARED_KINDS = [
    "function(){}", "(()=>1)", "class{}", "Math.max", "new Proxy(function(){},{})", "Symbol(\"s\")", "Object(Symbol(\"w\"))",
    "new Number(1)", "new String(\"s\")", "new Boolean(false)", "Object(1n)", "new Date(0)", "undefined",
    "{toJSON(){LOG.push(\"tj\");return function(){}}}", "{toJSON(){return undefined}}", "{toJSON(){return Symbol()}}", "{toJSON(){return this}}",
    "{toJSON(){return [this.q]},q:function(){}}", "{a:function(){},c:1}",
    "new Proxy({a:1},{})", "new Proxy([1],{get(t,k,rc){LOG.push(\"get:\"+String(k));return Reflect.get(t,k,rc)}})",
    "[]", "[1]", "{}", "{a:1}", "[function(){}]", "Object.create(null)", "/x/", "new Map()",
]
SHARED_SHAPES = ["[x,x]", "{a:x,c:x}", "[x,[x,{k:x}],x]", "{a:[x],c:{k:x,a:x}}", "[[x],[x]]"]
SHARED_REPLACERS = ["undefined", "function(k,v){return v}", "[\"a\",\"c\",\"k\"]", "function(k,v){return typeof v===\"function\"?undefined:v}"]

def shared_family():
    out = []
    for kind in SHARED_KINDS:
        for shape in SHARED_SHAPES:
            for rp in SHARED_REPLACERS:
                for sp in ("undefined", "1"):
                    if sp == "1" and rp != "undefined": continue
                    out.append("JM " + hx("function mk(){ var x=%s; return [%s, %s, %s]; }" % (kind, shape, rp, sp)))
    return out

# toJSON on the prototypes of primitives: looked up (GetV) only for BigInt primitives and objects; `this` is the
# primitive itself in strict code; data method / getter / non-callable; wrappers go through the object path
PRIM_TOJSON = []
for _proto, _vals in (("BigInt", ["1n", "Object(2n)", "[3n]", "{a:4n}"]), ("Number", ["1", "new Number(2)", "[3]"]), ("String", ["\"s\"", "new String(\"t\")", "[\"u\"]"]),
                      ("Boolean", ["true", "new Boolean(false)", "[false]"]), ("Symbol", ["Symbol(\"y\")", "Object(Symbol(\"z\"))", "[Symbol()]"])):
    for _def in ("%s.prototype.toJSON=function(k){\"use strict\";LOG.push(\"tj:\"+k+\":\"+typeof this);return \"R\"+String(k)};",
                 "%s.prototype.toJSON=function(k){LOG.push(\"tj:\"+k+\":\"+typeof this);return typeof this===\"object\"?\"boxed\":\"prim\"};",
                 "Object.defineProperty(%s.prototype,\"toJSON\",{get(){\"use strict\";LOG.push(\"get:\"+typeof this);return function(k){return [k]}},configurable:true});",
                 "Object.defineProperty(%s.prototype,\"toJSON\",{get(){LOG.push(\"get\");return 7},configurable:true});",
                 "%s.prototype.toJSON=function(){return 9n};",
                 "%s.prototype.toJSON=function(){return this};"):
        for _v in _vals:
            for _rp in ("undefined", "function(k,v){LOG.push(\"r:\"+k+\":\"+typeof v);return v}"):
                PRIM_TOJSON.append("function mk(){ %s return [%s, %s]; }" % (_def % _proto, _v, _rp))

J_FIXED = [
    "function mk(){ return [{a:[],b:{},c:[[]],d:[{}]}, undefined, 2]; }",
    "function mk(){ return [[[],[1]], undefined, 1]; }",
    "function mk(){ return [[{},{a:undefined},[1,[]]], undefined, \"--\"]; }",
    "function mk(){ return [[1], undefined, Infinity]; }",
    "function mk(){ return [[1], undefined, 1e300]; }",
    "function mk(){ return [[1], undefined, 9223372036854775808]; }",
    "function mk(){ return [[1], undefined, new Number(Infinity)]; }",
    "function mk(){ return [Object(Symbol())]; }",
    "function mk(){ return [[Object(Symbol())]]; }",
    "function mk(){ return [{a:Object(Symbol()),b:1}]; }",
    "function mk(){ return [[1], undefined, \"\\u00e9\"]; }",
    "function mk(){ return [[1], undefined, \"\\u00e9\\u00e9\\u00e9\\u00e9\\u00e9\\u00e9\\u00e9\\u00e9\\u00e9\\u00e9\\u00e9\"]; }",
    "function mk(){ return [[\"\\u00e9\"], undefined, \"\\u00e9\"]; }",
    "function mk(){ return [{a:1}, undefined, \"\\ud800\"]; }",
    "function mk(){ return [{b:1,a:2,1:3,0:4}, [\"a\",0,\"zz\",\"b\",\"a\"], 3]; }",
    "function mk(){ return [-0]; }",
    "function mk(){ return [[-0, NaN, Infinity, 1e21, 1e-7, 5e-324]]; }",
    "function mk(){ return [1n]; }",
    "function mk(){ return [{a:1n}]; }",
    "function mk(){ var o={}; o.o=o; return [o]; }",
    "function mk(){ var a=[]; a[0]=a; return [a]; }",
    "function mk(){ var o={a:{}}; o.a.b=o; return [o, undefined, 2]; }",
    "function mk(){ var s={x:1}; return [{a:s,b:s,c:[s,s]}]; }",
    "function mk(){ return [undefined]; }",
    "function mk(){ return [function(){}]; }",
    "function mk(){ return [Symbol()]; }",
    "function mk(){ return [new Proxy(function(){},{})]; }",
    "function mk(){ return [new Proxy([1,2],{})]; }",
    "function mk(){ return [{a:1}, new Proxy([\"a\"],{})]; }",
    "function mk(){ var a=[1,2,3]; a.length=2; return [a]; }",
    "function mk(){ return [[,1,,]]; }",
    "function mk(){ Array.prototype[0]=\"P\"; return [[,1]]; }",
    "function mk(){ return [new Date(0)]; }",
    "function mk(){ return [new Date(NaN)]; }",
    "function mk(){ return [{toJSON(k){LOG.push(\"k=\"+k+typeof k);return {toJSON(){return 1}}}}]; }",
    "function mk(){ return [[{toJSON(k){LOG.push(\"k=\"+k+typeof k);return k}}]]; }",
    "function mk(){ return [{a:1,b:2},function(k,v){LOG.push(k+\"/\"+JSON.stringify(this));return v}]; }",
    "function mk(){ return [\"\\ud800\\udc00\\ud800\\u0000\\u001f\\u007f\\u2028\\\"\\\\/\"]; }",
]

# ------------------------------------------------------------------------------------------ running

def _run_chunk(exe, chunk, timeout):
    """-> (outputs, status) for one process; status: 'ok' | 'timeout' | 'died'"""
    try:
        p = subprocess.run([exe], input="\n".join(chunk) + "\n", stdout=subprocess.PIPE, stderr=subprocess.PIPE, text=True, timeout=timeout)
        out = (p.stdout or "").splitlines()
        return out, ("ok" if len(out) >= len(chunk) else "died")
    except subprocess.TimeoutExpired as e:
        o = e.stdout
        if isinstance(o, bytes): o = o.decode("utf8", "replace")
        return (o or "").splitlines(), "timeout"

def _run_chunk_robust(exe, chunk, timeout):
    """A slow machine never produces a violation: a timeout is retried once with a longer budget and then reported as
    INCONCLUSIVE for the lines without an answer.  A process that dies is a finding: the line it died on is marked CRASH
    and the rest of the chunk is run in a new process."""
    res = []
    rest = list(chunk)
    tries = 0
    while rest:
        out, st = _run_chunk(exe, rest, timeout)
        out = out[:len(rest)]
        res += out
        rest = rest[len(out):]
        if st == "ok" or not rest:
            break
        if st == "timeout":
            tries += 1
            if tries >= 2:
                res += ["INCONCLUSIVE(timeout)"] * len(rest)
                break
            timeout *= 3
            continue
        # died on rest[0]
        res.append("CRASH(the harness process died on this line)")
        rest = rest[1:]
    return res

def shard_run(ctx, exe, lines, shards=12, timeout=900):
    """Run a stateless line-protocol executable over `lines`, sharded over processes; order preserved."""
    if not lines: return []
    n = max(1, min(shards, len(lines) // 200 + 1))
    chunks = [lines[i::n] for i in range(n)]
    import threading
    outs = [None] * n
    def feed(i):
        outs[i] = _run_chunk_robust(exe, chunks[i], timeout)
    ths = [threading.Thread(target=feed, args=(i,)) for i in range(n)]
    for t in ths: t.start()
    for t in ths: t.join()
    res = [None] * len(lines)
    for i in range(n):
        o = outs[i]
        for j, idx in enumerate(range(i, len(lines), n)):
            res[idx] = o[j] if j < len(o) else "INCONCLUSIVE(no answer)"
    k = sum(1 for x in res if x.startswith("INCONCLUSIVE"))
    if k:
        ctx.stats["inconclusive_lines"] = ctx.stats.get("inconclusive_lines", 0) + k
    return res

def load_corpus():
    d = os.path.join(ROOT, "corpus", PROP)
    out = []
    if os.path.isdir(d):
        for fn in sorted(os.listdir(d)):
            if not fn.endswith(".txt"): continue
            for l in open(os.path.join(d, fn), encoding="utf8"):
                l = l.rstrip("\n")
                if l and not l.startswith("#"): out.append(l)
    return out

KNOWN_X = {
    "leak": "stringify-indent-not-restored-after-empty-container",
    "inf": "stringify-space-number-at-least-2^63-ignored",
    "sym": "stringify-symbol-wrapper-object-unwrapped",
    "gapna": "stringify-gap-string-non-ascii-handled-as-utf8-bytes",
    "rlone": "stringify-allow-list-entry-lone-surrogate-replaced",
    "gaplone": "stringify-gap-string-lone-surrogate-replaced",
}
KNOWN_DESC = {
    "leak": "JSON.stringify with a gap: indentation is not restored after an empty array / an object without members, e.g. JSON.stringify([[],[1]],null,1)",
    "inf": "JSON.stringify(v,null,space) with a Number space >= 2^63 (incl. Infinity) produces no indentation (spec: 10 spaces)",
    "sym": "JSON.stringify(Object(Symbol())) returns undefined (spec: \"{}\"): Symbol wrapper objects are unwrapped like Number/String/Boolean wrappers",
    "rlone": "JSON.stringify with a replacer allow-list entry containing a lone surrogate: the entry becomes U+FFFD and the property is not found, e.g. JSON.stringify({\"\\ud800\":1},[\"\\ud800\"]) gives {}",
    "gapna": "JSON.stringify with a String space containing non-ASCII code units: truncated to 10 UTF-8 bytes (not 10 code units) and the result is flagged ASCII",
    "gaplone": "JSON.stringify with a String space containing a lone surrogate: the surrogate becomes U+FFFD in the output",
}

def parse_fields(line):
    d = {}
    for w in line.split(" "):
        if "=" in w:
            k, _, v = w.partition("=")
            d[k] = v
    return d

def classify_parse(text_units, model, impl):
    if model == "err" and impl.startswith("ok"): return "parse-accepts-text-outside-grammar"
    if model.startswith("ok") and impl == "err":
        return "parse-rejects-grammatical-text"
    if impl.startswith("PANIC") or impl.startswith("CRASH"): return "parse-crash"
    if impl.startswith("throw:"): return "parse-throws-non-syntaxerror"
    return "parse-wrong-value"

def expected_of(model_line):
    """what goja must print for this model answer (documented lone-surrogate exception applied)"""
    if " L " in model_line:
        e = model_line.split(" L ")[1]
        return e if e == "err" else "ok " + e
    return model_line

def main(ctx):
    r = ctx.rng
    quick = ctx.tier == "quick"
    regen_ok = ctx.regen()
    targets = ["GojaModel.C19.Props", "model_c19"] + (["GojaModel.C19.Tie"] if regen_ok else [])
    ok, errs = ctx.lake_build(targets)
    if regen_ok and not ok and all("Tie.lean" in (e.get("file") or "") for e in errs):
        # only the tie broke: the model and its theorems still build — keep using them for the search
        ok2, _ = ctx.lake_build(["GojaModel.C19.Props", "model_c19"])
        ok = ok2
    elif regen_ok and ok:
        ctx.obligation("tie:Generated.C19.shapes = expectedShapes (parse-side Go text as transcribed)", "tie", True, "")
    lean_ok = ok
    if ok:
        ctx.audit("GojaModel.C19.Props", expect_min=52)
        if ctx.tier == "thorough":
            ctx.leanchecker("GojaModel.C19.Props")
    h = ctx.go_build()
    model = ctx.model_exe()
    if not os.path.exists(model): lean_ok = False
    if h is None:
        return ctx.finish(level="proof", rule="harness build failed")

    # ------------------------------------------------------------------ build op list
    corpus = load_corpus()
    P = []   # unit lists
    tags = []
    def addP(us, tag):
        P.append(us); tags.append(tag)
    for l in corpus:
        if l.startswith("P"):
            addP(units(unhx(l[2:].strip())) if len(l) > 2 else [], "corpus")
    for s in VALID_FIXED: addP(units(s), "fixed-valid")
    for s in INVALID_FIXED: addP(units(s), "fixed-invalid")
    for s in NUM_FIXED:
        addP(units(s), "fixed-number"); addP(units("[" + s + "]"), "fixed-number"); addP(units("-" + s), "fixed-number")
    bases = [units(s) for s in BASE_FOR_EDITS]
    n_gen = 1000 if quick else 10000
    gen = []
    for _ in range(n_gen):
        t = units(gen_text(r))
        gen.append(t); addP(t, "generated")
    # exhaustive single edits of the fixed bases and of some short generated texts
    short = [t for t in gen if 4 <= len(t) <= 40]
    r.shuffle(short)
    edit_bases = bases + short[:(5 if quick else 60)]
    n_ex = 0
    for b in edit_bases:
        for e in all_single_edits(b):
            addP(e, "edit-exhaustive"); n_ex += 1
    # sampled single edits of the longer ones
    for t in gen:
        if len(t) > 40:
            for _ in range(3 if quick else 10):
                addP(random_edit(r, t), "edit-sampled")
    ctx.stats["parse_cases"] = {"total": len(P), "generated": n_gen, "edit_bases": len(edit_bases), "exhaustive_edits": n_ex}

    S = [l for l in corpus if l.split(" ")[0] in ("S", "SM", "SB", "SC")]
    gaps_all = all_gaps(r)
    n_sv = 120 if quick else 1000
    for i in range(n_sv):
        toks = gen_plain(r, 0, r.choice([1, 2, 3, 4, 5]))
        if i < (8 if quick else 40): gl = gaps_all                      # every legal indent form on these values
        else: gl = r.sample(gaps_all, 4)
        for g in gl: S.append("S " + g + " " + " ".join(toks))
    # containers-with-empties family x all gaps (the shape the indent bookkeeping is sensitive to)
    for toks in (["a2", "a0", "a1", "n0031"], ["o2", "s0061", "o0", "s0062", "a1", "o0"], ["a3", "o0", "a0", "o1", "s0061", "a0"]):
        for g in gaps_all: S.append("S " + g + " " + " ".join(toks))

    # surrogate adjacency patterns as string values and as object keys (quote through the whole serialiser + MarshalJSON)
    for pat in surrogate_patterns(3) + SURR_KEY_PATTERNS:
        S.append("S n0 o2 s%s s%s s0061 a1 s%s" % (hx(pat), hx(pat), hx(pat)))
    # mechanism-level serialiser model (Mech.strM) on values with undefined / function leaves x gaps
    def gen_mval(depth, maxdepth):
        k = r.random()
        if depth >= maxdepth or k < 0.45:
            j = r.random()
            if j < 0.3: return [r.choice(["u", "F"])]
            if j < 0.45: return ["z"]
            if j < 0.55: return [r.choice(["t", "f"])]
            if j < 0.8: return ["n" + hx(str(r.choice([0, 1, 7, 42, -3])))]
            return ["s" + hx(r.choice(["", "a", "q\"", "\ud83d\ud83d\ude00"]))]
        if k < 0.72:
            n = r.choice([0, 1, 1, 2, 3])
            out = ["a%d" % n]
            for _ in range(n): out += gen_mval(depth + 1, maxdepth)
            return out
        n = r.choice([0, 1, 2, 2, 3, 4])
        keys = r.sample(["a", "b", "c", "d", "e", "", "x y", "__proto__", "\u00e9"], n)
        out = ["o%d" % n]
        for kk in keys:
            out.append("s" + hx(kk)); out += gen_mval(depth + 1, maxdepth)
        return out
    for _ in range(120 if quick else 2000):
        toks = gen_mval(0, r.choice([1, 2, 3, 4]))
        for g in r.sample(gaps_all[:14], 2):
            S.append("SM " + g + " " + " ".join(toks))
    # str with its unwrapping switch (Boxed.strB): boxed primitives, BigInt (TypeError), non-finite numbers x gaps
    def gen_bval(depth, maxdepth, bigp):
        k = r.random()
        if depth >= maxdepth or k < 0.5:
            j = r.random()
            if j < bigp: return [r.choice(["g", "Xg"])]
            if j < 0.15: return [r.choice(["u", "F"])]
            if j < 0.25: return ["I"]
            if j < 0.33: return ["Xi"]
            if j < 0.45: return ["Xn" + hx(str(r.choice([0, 1, 7, 42, -3])))]
            if j < 0.57: return ["Xs" + hx(r.choice(["", "a", "q\"", "\ud83d\ud83d\ude00"]))]
            if j < 0.67: return [r.choice(["Xt", "Xf"])]
            if j < 0.77: return ["Xy"]
            if j < 0.85: return ["z"]
            if j < 0.93: return ["n" + hx(str(r.choice([0, 1, 7, -3])))]
            return ["s" + hx(r.choice(["", "a"]))]
        if k < 0.75:
            n = r.choice([0, 1, 2, 3])
            out = ["a%d" % n]
            for _ in range(n): out += gen_bval(depth + 1, maxdepth, bigp)
            return out
        n = r.choice([0, 1, 2, 3])
        keys = r.sample(["a", "b", "c", "d", "", "x y", "\u00e9"], n)
        out = ["o%d" % n]
        for kk in keys:
            out.append("s" + hx(kk)); out += gen_bval(depth + 1, maxdepth, bigp)
        return out
    for toks in (["Xy"], ["a1", "Xy"], ["o1", "s0061", "Xy"], ["g"], ["Xg"], ["a2", "n0031", "g"], ["o2", "s0061", "u", "s0062", "Xg"], ["Xi"], ["I"], ["Xt"]):
        for g in ("n0", "n2"): S.append("SB " + g + " " + " ".join(toks))
    for _ in range(150 if quick else 2500):
        toks = gen_bval(0, r.choice([1, 2, 3, 4]), r.choice([0.0, 0.0, 0.03, 0.1]))
        for g in r.sample(gaps_all[:14], 2):
            S.append("SB " + g + " " + " ".join(toks))
    # cycle detection (Cycle.strC): object identities, shared references (same object twice), back-references (cycles), functions
    def gen_cval(depth, maxdepth, stt):
        k = r.random()
        if stt["closed"] and k < 0.18:
            return ["R%d" % r.choice(stt["closed"])]                       # the same object again
        if stt["open"] and k < 0.18 + stt["cycp"]:
            return ["R%d" % r.choice(stt["open"])]                         # an ancestor: a cycle
        if depth >= maxdepth or k < 0.5:
            j = r.random()
            if j < 0.25:
                stt["n"] += 1; stt["closed"].append(stt["n"]); return ["F%d" % stt["n"]]
            if j < 0.35: return ["u"]
            if j < 0.5: return ["z"]
            if j < 0.6: return [r.choice(["t", "f"])]
            if j < 0.85: return ["n" + hx(str(r.choice([0, 1, 7, -3])))]
            return ["s" + hx(r.choice(["", "a", "q\""]))]
        stt["n"] += 1; me = stt["n"]
        stt["open"].append(me)
        if k < 0.75:
            n = r.choice([0, 1, 2, 3]); out = ["A%d:%d" % (me, n)]
            for _ in range(n): out += gen_cval(depth + 1, maxdepth, stt)
        else:
            n = r.choice([0, 1, 2, 3]); out = ["O%d:%d" % (me, n)]
            for kk in r.sample(["a", "b", "c", "d", "", "x y"], n):
                out.append("s" + hx(kk)); out += gen_cval(depth + 1, maxdepth, stt)
        stt["open"].pop(); stt["closed"].append(me)
        return out
    for toks in (["A1:2", "F2", "R2"], ["O1:2", "s0061", "F2", "s0063", "R2"], ["A1:3", "F2", "A3:1", "O4:1", "s006b", "R2", "R2"],
                 ["A1:1", "R1"], ["O1:1", "s0061", "A2:1", "R1"], ["A1:2", "O2:1", "s0078", "n0031", "R2"], ["F1"]):
        for g in ("n0", "n2"): S.append("SC " + g + " " + " ".join(toks))
    for _ in range(150 if quick else 2500):
        toks = gen_cval(0, r.choice([2, 3, 4]), {"n": 0, "closed": [], "open": [], "cycp": r.choice([0.0, 0.0, 0.03, 0.08])})
        S.append("SC n%d " % r.choice([0, 0, 1, 2, 4]) + " ".join(toks))
    # allow-lists on plain data (model: stringifyPL = stringify ∘ project)
    SL = [l for l in corpus if l.startswith("SL ")]
    for i in range(100 if quick else 1500):
        toks = gen_plain(r, 0, r.choice([1, 2, 3, 4]))
        n = r.choice([0, 1, 2, 3, 5, 8])
        items = []
        for _ in range(n):
            if r.random() < 0.75: items.append("s" + hx(r.choice(S_KEYS)))
            else: items.append("n" + hx(str(r.choice([0, 1, 2, 3, 7, 10, 4294967294, 4294967295, -1]) if r.random() < 0.8 else "1.5")))
        for g in r.sample(gaps_all, 2):
            SL.append("SL " + g + " %d " % n + " ".join(items + toks))
    S += SL
    J = [l for l in corpus if l.split(" ")[0] in ("J", "JF", "JM", "JFM")]
    for s in J_FIXED: J.append("JF " + hx(s))
    for s in PRIM_TOJSON: J.append("JFM " + hx(s))
    J += shared_family()
    n_j = 900 if quick else 15000
    for _ in range(n_j):
        J.append(JGen(r).case())
    V = [l for l in corpus if l.startswith("V ") or l.startswith("VF ")]
    for t in V_TEXTS[:8]:
        for rv in V_REVIVERS: V.append("V " + hx("function mk(){ return [%s, %s]; }" % (js_str(t), rv)))
    # JSON.parse with a reviver as the very first operation of a fresh runtime (lazy JSON object / prototypes)
    for rv in V_REVIVERS[8:12]: V.append("VF " + hx("function mk(){ return [%s, %s]; }" % (js_str(V_TEXTS[8]), rv)))
    for _ in range(300 if quick else 6000): V.append(gen_v(r))
    # replacer function / toJSON hook catalogue of the Lean model (serH / catHooks): text + call log
    SR = [l for l in corpus if l.startswith("SR ")]
    sr_keys = ["a", "b", "c", "d", "", "0", "1", "2", "10", "__proto__", "\u00e9", "length", "toJSON", "q\"uote"]
    sr_wrap = [k for k in sr_keys if not k.isdigit()]
    for _ in range(300 if quick else 6000):
        toks = gen_plain(r, 0, r.choice([1, 2, 3, 4]))
        mode = r.choice(["r", "r", "r", "a", "o", "b", "ar", "or", "br", "br", "n"])
        D = r.sample(sr_keys, r.choice([0, 0, 1, 2])); Z = r.sample(sr_keys, r.choice([0, 0, 1, 2])); W = r.sample(sr_wrap, r.choice([0, 0, 1, 2]))
        g = r.choice(gaps_all[:13] + ["s" + hx("\t"), "s" + hx("--")])
        SR.append("SR %s %s D %s Z %s W %s V %s" % (g, mode, " ".join("s" + hx(k) for k in D), " ".join("s" + hx(k) for k in Z), " ".join("s" + hx(k) for k in W), " ".join(toks)))
    # revivers that edit their holder (Lean walkM): trigger keys T, delete X from `this`, assign constant C to this[S], undefined for D
    RM = [l for l in corpus if l.startswith("RM ")]
    rm_texts = ["{\"a\":1,\"b\":[1,2],\"c\":{\"x\":1},\"d\":4}", "[1,2,3,4]", "{\"b\":1,\"a\":2}", "[[1,2],{\"a\":[3,4],\"b\":5},6]", "{\"a\":{\"a\":{\"b\":1,\"c\":2},\"c\":3},\"b\":[0]}",
                "{\"1\":1,\"0\":{\"b\":2,\"a\":3},\"c\":[]}", "[{\"c\":1,\"a\":2,\"b\":3},[{\"a\":1}],\"s\"]", "{\"c\":1}", "[]", "3"]
    rm_consts = ["7", "\"n\"", "null", "[7,8]", "[7,{\"q\":8}]", "{\"q\":[1]}", "[]", "{}"]
    for _ in range(300 if quick else 6000):
        text = r.choice(rm_texts)
        T = r.sample(["a", "b", "c", "0", "1"], r.choice([1, 1, 2]))
        X = r.sample(["a", "b", "c", "d", "0", "1", "2", "3", "x"], r.choice([0, 1, 2, 3]))
        Sk = [r.choice(["b", "c", "d", "z", "zz"])] if r.random() < 0.7 else []
        D = r.sample(["a", "b", "c", "0", "1", "2", "z", ""], r.choice([0, 0, 1, 2]))
        RM.append("RM %s T %s X %s S %s C %s D %s" % (hx(text), " ".join("s" + hx(k) for k in T), " ".join("s" + hx(k) for k in X),
                                                  " ".join("s" + hx(k) for k in Sk), hx(r.choice(rm_consts)), " ".join("s" + hx(k) for k in D)))
    # pure revivers of the Lean model (revive / calls): text x dropped keys x nulled keys
    RV = [l for l in corpus if l.startswith("RV ")]
    rv_keys = ["", "0", "1", "2", "3", "10", "a", "b", "c", "__proto__", "x", "\u00e9", "length", "4294967295"]
    rv_texts = [t for t in V_TEXTS if t not in ("[1,2", "x", "")] + ["[[1,2],[3,[4,5]],{\"0\":[6]}]", "{\"1\":{\"1\":{\"1\":1}},\"0\":[0]}"]
    for _ in range(400 if quick else 8000):
        if r.random() < 0.5: text = r.choice(rv_texts)
        else:
            text = gen_text(r)
            if len(text) > 120: text = r.choice(rv_texts)
        D = r.sample(rv_keys, r.choice([0, 0, 1, 2, 3]))
        Z = r.sample(rv_keys, r.choice([0, 0, 1, 2]))
        RV.append("RV " + hx(text) + " D " + " ".join("s" + hx(k) for k in D) + " Z " + " ".join("s" + hx(k) for k in Z))
    Q = [l for l in corpus if l.startswith("Q ")]
    for s in S_STRS + KEY_POOL: Q.append("Q " + hx(s))
    for s in surrogate_patterns(4 if quick else 5): Q.append("Q " + hx(s))           # exhaustive adjacency patterns
    for _ in range(200 if quick else 3000):                                            # random surrogate-dense strings
        Q.append("Q " + hxu([r.choice([r.randrange(0xD800, 0xDC00), r.randrange(0xDC00, 0xE000), r.randrange(0xD800, 0xE000), 0x61, 0xD83D, 0xDE00]) for _ in range(r.choice([2, 3, 4, 5, 8]))]))
    for _ in range(300 if quick else 5000):
        n = r.choice([1, 2, 3, 6])
        Q.append("Q " + hxu([r.choice([r.randrange(0, 0x30), r.randrange(0, 0x10000), r.randrange(0xD800, 0xE000), 0x22, 0x5c]) for _ in range(n)]))

    Plines = ["P " + hxu(us) for us in P]
    ctx.log("ops: P=%d S=%d J=%d V=%d Q=%d" % (len(Plines), len(S), len(J), len(V), len(Q)))

    # ------------------------------------------------------------------ run
    t0 = time.time()
    implP = shard_run(ctx, h, Plines)
    implS = shard_run(ctx, h, S)
    implJ = shard_run(ctx, h, J)
    implQ = shard_run(ctx, h, Q)
    implV = shard_run(ctx, h, V)
    implRV = shard_run(ctx, h, RV)
    implSR = shard_run(ctx, h, SR)
    implRM = shard_run(ctx, h, RM)
    ctx.log("harness done in %.1fs" % (time.time() - t0))
    if lean_ok:
        t0 = time.time()
        modP = shard_run(ctx, model, Plines)
        modS = shard_run(ctx, model, S)
        modQ = shard_run(ctx, model, Q)
        modRV = shard_run(ctx, model, RV)
        modSR = shard_run(ctx, model, SR)
        modRM = shard_run(ctx, model, RM)
        ctx.log("model done in %.1fs" % (time.time() - t0))
    else:
        modP = modS = modQ = modRV = modSR = modRM = None
    t0 = time.time()
    pyP = [py_parse(us) for us in P]
    ctx.log("python reference done in %.1fs" % (time.time() - t0))

    # ------------------------------------------------------------------ compare: parse
    ctx.count(len(P) + len(S) + len(J) + len(Q) + len(V))
    cls = {"accept": 0, "reject": 0, "accept-lone-surrogate": 0}
    bytag = {}
    mm_model_py = []
    bad_parse = []
    mechdiff = []
    if modP is not None:
        for i in range(len(P)):
            if " MECHDIFF " in modP[i]:
                mechdiff.append((i, modP[i]))
                modP[i] = modP[i].split(" MECHDIFF ")[0]
        ctx.obligation("corr:mechanism model (Go token stream + goja decode functions, Tok.lean) = spec parser on every text", "correspondence", not mechdiff,
                       "; ".join("%s -> %s" % (show(unhx(hxu(P[i]))), m[:160]) for i, m in mechdiff[:4]))
    for i, us in enumerate(P):
        ref = pyP[i]
        if modP is not None:
            if ref != "skip" and modP[i] != ref and not modP[i].startswith("INCONCLUSIVE"):
                mm_model_py.append(i)
            ref = modP[i]
        if ref == "skip": continue
        want = expected_of(ref)
        got = implP[i]
        if got.startswith("INCONCLUSIVE") or ref.startswith("INCONCLUSIVE"): continue
        c = "reject" if ref == "err" else ("accept-lone-surrogate" if " L " in ref else "accept")
        cls[c] += 1
        bytag.setdefault(tags[i], [0, 0])[0 if ref != "err" else 1] += 1
        ctx.nontriv(("P", tuple(us)))
        if got != want:
            bad_parse.append((i, ref, got))
    ctx.stats["parse_classes"] = cls
    ctx.stats["parse_by_source(accept,reject)"] = bytag
    ctx.obligation("corr:model-parse-vs-python-reference", "correspondence", not mm_model_py,
                   "; ".join("%s model=%s py=%s" % (show(unhx(hxu(P[i]))), modP[i][:80], pyP[i][:80]) for i in mm_model_py[:5]))
    ctx.obligation("corr:parse(model vs goja): accept/reject class + structural dump", "correspondence", not bad_parse,
                   "; ".join("%s want=%s got=%s" % (show(unhx(hxu(P[i]))), expected_of(ref)[:80], got[:80]) for i, ref, got in bad_parse[:5]))
    # every disagreement here is a failing input of the PROPERTY (the model/reference is the ECMA-404 judge)
    seen_sig = {}
    for i, ref, got in bad_parse:
        sig = classify_parse(P[i], ref, got)
        if sig in seen_sig and len(P[seen_sig[sig]]) <= len(P[i]): continue
        seen_sig[sig] = i
    for sig, i in seen_sig.items():
        us = shrink_parse(ctx, h, model if lean_ok else None, P[i], sig)
        ref = oracle_parse(ctx, model if lean_ok else None, us)
        got = shard_run(ctx, h, ["P " + hxu(us)])[0]
        if sig == "parse-rejects-grammatical-text" and re.fullmatch(r"ok n[7f]ff0000000000000", ref or ""):
            sig = "json-parse-number-beyond-double-range"
        ctx.violation(sig, "JSON.parse(%s): specification %s, goja %s" % (show(unhx(hxu(us))), expected_of(ref)[:100], got[:100]),
                      {"kind": "input", "op": "P " + hxu(us), "text": unhx(hxu(us)).encode("unicode_escape").decode("ascii"),
                       "expected": expected_of(ref), "observed": got})

    # ------------------------------------------------------------------ compare: quote
    badq = []
    if modQ is not None:
        for i, l in enumerate(Q):
            if implQ[i].startswith("INCONCLUSIVE") or modQ[i].startswith("INCONCLUSIVE"): continue
            if implQ[i] != modQ[i]: badq.append(i)
            ctx.nontriv(l)
    ctx.obligation("corr:quote(model vs goja)", "correspondence", not badq,
                   "; ".join("%s model=%s goja=%s" % (Q[i], modQ[i], implQ[i]) for i in badq[:5]))
    for i in badq[:1]:
        ctx.violation("stringify-quote-differs", "JSON.stringify(string) differs from QuoteJSONString for units %s" % Q[i][2:],
                      {"kind": "input", "op": Q[i], "expected": modQ[i], "observed": implQ[i]})

    # ------------------------------------------------------------------ resource: allow-list memory must not scale with its length
    aout = shard_run(ctx, h, ["A 1048576"])[0]
    af = parse_fields(aout)
    asig = "stringify-allow-list-preallocates-by-length-host-oom"
    if "perslot" not in af or aout.startswith("INCONCLUSIVE"):
        ctx.stats["allowlist_memory"] = "inconclusive: " + aout[:100]
    else:
        ctx.stats["allowlist_memory"] = aout
        prealloc = int(af["perslot"]) >= 8
        ctx.obligation("resource:JSON.stringify allow-list memory independent of the array's length", "correspondence",
                       (not prealloc) or ctx.known_signature(asig) is not None, aout)
        if prealloc:
            ctx.violation(asig, "JSON.stringify(v, list) allocates >= 8 bytes per unit of list.length up front: `var a=[]; a.length=4294967295; JSON.stringify({}, a)` aborts the host process with 'fatal error: out of memory' (not recoverable)",
                          {"kind": "input", "op": "A 1048576", "source": "var a=[]; a.length=4294967295; JSON.stringify({}, a)", "observed": aout,
                           "expected": "memory obtained from the OS during the call does not grow with list.length"})

    # ------------------------------------------------------------------ compare: reviver walk
    badv = []
    for i, l in enumerate(V):
        if implV[i].startswith("INCONCLUSIVE"): continue
        f = parse_fields(implV[i])
        ctx.nontriv(l)
        if "N" not in f or "O" not in f or f["N"] != f["O"]:
            badv.append((l, implV[i]))
    vknown = []
    vreal = []
    for l, out in badv:
        src = unhx(l.split(" ")[1])
        f = parse_fields(out)
        if src.endswith(", null]; }") and f.get("N", "").startswith("throw:TypeError") and f.get("O", "").startswith("ok:"):
            vknown.append((l, out))
        else:
            vreal.append((l, out))
    vsig = "parse-reviver-null-throws-typeerror"
    ctx.obligation("corr:JSON.parse reviver walk (InternalizeJSONProperty oracle vs goja) result dump + call log", "correspondence",
                   not vreal and (not vknown or ctx.known_signature(vsig) is not None),
                   "; ".join("%s -> %s" % (unhx(l.split(" ")[1])[:200], out[:200]) for l, out in (vreal + vknown)[:3]))
    if vknown:
        l, out = vknown[0]
        ctx.violation(vsig, "JSON.parse(text, null) throws TypeError (spec: a non-callable reviver is ignored)",
                      {"kind": "input", "op": l, "source": unhx(l.split(" ")[1]), "observed": out})
    if vreal:
        vreal.sort(key=lambda t: len(t[0]))
        l, out = vreal[0]
        f = parse_fields(out)
        ctx.violation("parse-reviver-walk-differs-from-specification", "JSON.parse with reviver differs from InternalizeJSONProperty on %s" % unhx(l.split(" ")[1])[:300],
                      {"kind": "input", "op": l, "source": unhx(l.split(" ")[1]), "expected": f.get("O"), "observed": f.get("N"), "others": len(vreal) - 1})

    # ------------------------------------------------------------------ compare: pure revivers, Lean model vs goja
    badrv = []
    if modRV is not None:
        for i, l in enumerate(RV):
            if implRV[i].startswith("INCONCLUSIVE") or modRV[i].startswith("INCONCLUSIVE"): continue
            ctx.nontriv(l)
            want = modRV[i]
            if " L " in want: continue
            if want != implRV[i]:
                # documented exception: texts with lone surrogates are outside this comparison
                t = units(unhx(l.split(" ")[1]))
                if fix_text(t) != t: continue
                badrv.append((l, want, implRV[i]))
    ctx.count(len(RV))
    ctx.obligation("corr:reviver walk (Lean revive/calls vs goja) result with holes + call order", "correspondence", not badrv,
                   "; ".join("%s model=%s goja=%s" % (a[:160], b[:120], c[:120]) for a, b, c in badrv[:3]))
    if badrv:
        badrv.sort(key=lambda t: len(t[0]))
        l, want, got = badrv[0]
        ctx.violation("parse-reviver-walk-differs-from-model", "JSON.parse(%s, pure reviver): model %s, goja %s" % (show(unhx(l.split(" ")[1])), want[:120], got[:120]),
                      {"kind": "input", "op": l, "expected": want, "observed": got, "others": len(badrv) - 1})

    # ------------------------------------------------------------------ compare: holder-editing revivers, Lean walkM vs goja
    badrm = []
    if modRM is not None:
        for i, l in enumerate(RM):
            if implRM[i].startswith("INCONCLUSIVE") or modRM[i].startswith("INCONCLUSIVE") or modRM[i] == "fuel": continue
            ctx.nontriv(l)
            if modRM[i].strip() != implRM[i].strip():
                badrm.append((l, modRM[i], implRM[i]))
    ctx.count(len(RM))
    ctx.obligation("corr:reviver that edits its holder (Lean walkM vs goja): key snapshot, current values, result with holes, call log", "correspondence", not badrm,
                   "; ".join("%s model=%s goja=%s" % (a[:200], b[:160], c[:160]) for a, b, c in badrm[:3]))
    if badrm:
        badrm.sort(key=lambda t: len(t[0]))
        l, want, got = badrm[0]
        ctx.violation("parse-reviver-holder-mutation-differs-from-model", "JSON.parse with a reviver that edits its holder: %s: model %s, goja %s" % (l[:200], want[:160], got[:160]),
                      {"kind": "input", "op": l, "expected": want, "observed": got, "others": len(badrm) - 1})

    # ------------------------------------------------------------------ compare: replacer function / toJSON hooks, Lean model vs goja
    badsr = []
    if modSR is not None:
        for i, l in enumerate(SR):
            if implSR[i].startswith("INCONCLUSIVE") or modSR[i].startswith("INCONCLUSIVE"): continue
            ctx.nontriv(l)
            if modSR[i].strip() != implSR[i].strip():
                badsr.append((l, modSR[i], implSR[i]))
    ctx.count(len(SR))
    ctx.obligation("corr:replacer function / toJSON hooks (Lean serH vs goja) text + call order with holder and key", "correspondence", not badsr,
                   "; ".join("%s model=%s goja=%s" % (a[:200], b[:160], c[:160]) for a, b, c in badsr[:3]))
    if badsr:
        badsr.sort(key=lambda t: len(t[0]))
        l, want, got = badsr[0]
        ctx.violation("stringify-replacer-tojson-differs-from-model", "JSON.stringify with replacer function / toJSON hooks: %s: model %s, goja %s" % (l[:200], want[:160], got[:160]),
                      {"kind": "input", "op": l, "expected": want, "observed": got, "others": len(badsr) - 1})

    # ------------------------------------------------------------------ compare: stringify
    xs = {}
    bad_oracle_model = []
    unexplained = []
    mjbad = []
    res_kinds = {"ok": 0, "undef": 0, "throw": 0}
    gapkinds = {}
    for kind, ops, impl, mod in (("S", S, implS, modS), ("J", J, implJ, None)):
        for i, l in enumerate(ops):
            if impl[i].startswith("INCONCLUSIVE"): continue
            f = parse_fields(impl[i])
            if "N" not in f or "O" not in f:
                unexplained.append((l, impl[i], "harness failure")); continue
            ctx.nontriv(l)
            rk = f["N"].split(":")[0].split("|")[0]
            res_kinds[rk if rk in res_kinds else "throw"] = res_kinds.get(rk if rk in res_kinds else "throw", 0) + 1
            if kind == "S":
                g = l.split(" ")[1]
                if l.startswith("SL "): gapkinds["allow-list"] = gapkinds.get("allow-list", 0) + 1
                gapkinds[g[0] + str(len(g[1:]) // 4 if g[0] == "s" else g[1:])] = gapkinds.get(g[0] + str(len(g[1:]) // 4 if g[0] == "s" else g[1:]), 0) + 1
                if mod is not None and not mod[i].startswith("INCONCLUSIVE"):
                    want = mod[i].replace("ok ", "ok:", 1)
                    if want != f["O"]:
                        bad_oracle_model.append((l, mod[i], f["O"]))
            if f.get("MJ", "na") not in ("na", "same"):
                mjbad.append((l, f["MJ"]))
            if f["N"] != f["O"]:
                x = f.get("X", "none")
                if x == "none":
                    unexplained.append((l, impl[i], "no known deviation reproduces goja's output"))
                else:
                    for part in x.replace(":", "+").split("+"):
                        xs.setdefault(part, (l, f))
    ctx.stats["stringify_result_kinds"] = res_kinds
    ctx.stats["stringify_S_gap_forms"] = dict(sorted(gapkinds.items()))
    ctx.obligation("corr:stringify(Lean model vs spec oracle prelude.js) on plain data x indents", "correspondence", not bad_oracle_model,
                   "; ".join("%s model=%s oracle=%s" % (a[:200], b[:120], c[:120]) for a, b, c in bad_oracle_model[:3]))
    n_dev = sum(1 for _ in xs)
    unlisted = [p for p in xs if ctx.known_signature(KNOWN_X[p]) is None]
    ctx.obligation("corr:stringify(spec oracle vs goja) text + call log", "correspondence", not unexplained and not unlisted,
                   "deviations: " + ", ".join(sorted(xs)) + "; unexplained: %d" % len(unexplained))
    ctx.obligation("corr:Object.MarshalJSON vs JSON.stringify", "correspondence", not mjbad, "; ".join("%s %s" % (a[:200], b[:200]) for a, b in mjbad[:3]))
    for part, (l, f) in sorted(xs.items()):
        src = unhx(l.split(" ")[1]) if l[0] == "J" else l
        ctx.violation(KNOWN_X[part], KNOWN_DESC[part], {"kind": "input", "op": l, "source": src, "expected": f["O"], "observed": f["N"], "explanation": f.get("X")})
    if unexplained:
        unexplained.sort(key=lambda t: len(t[0]))
        l, out, why = unexplained[0]
        f = parse_fields(out)
        src = unhx(l.split(" ")[1]) if l[0] == "J" else l
        ctx.violation("stringify-differs-from-specification", "JSON.stringify differs from ECMA-262 §25.5.2 on %s (%s)" % (src[:300], why),
                      {"kind": "input", "op": l, "source": src, "expected": f.get("O"), "observed": f.get("N"), "raw": out, "others": len(unexplained) - 1})
    if mjbad:
        mjbad.sort(key=lambda t: len(t[0]))
        l, d = mjbad[0]
        ctx.violation("marshaljson-differs-from-stringify", "Object.MarshalJSON differs from JSON.stringify: %s" % d[:300],
                      {"kind": "input", "op": l, "source": unhx(l.split(" ")[1]) if l[0] == "J" else l, "observed": d})

    for s in (P[len(corpus)] if P else [], ):
        pass
    for i in r.sample(range(len(P)), min(4, len(P))):
        ctx.sample({"op": "P", "text": unhx(hxu(P[i]))[:80].encode("unicode_escape").decode("ascii"), "goja": implP[i][:80]})
    for i in r.sample(range(len(S)), min(3, len(S))):
        ctx.sample({"op": S[i][:100], "goja": implS[i][:100]})
    for i in r.sample(range(len(J)), min(4, len(J))):
        ctx.sample({"op": "J", "source": unhx(J[i].split(" ")[1])[:160], "goja": implJ[i][:100]})
    ctx.stats["ops"] = {"P": len(P), "S": len(S), "J": len(J), "V": len(V), "Q": len(Q)}
    ctx.assumptions += [
        "number text <-> double (StringToNumber / Number::toString) is C12's subject: the theorems treat the canonical number text abstractly (NumCanon); the driver's exact decimal->double conversion is cross-checked against python's float() on every number",
        "documented exception (README §JSON): lone surrogates in string tokens of JSON.parse input come back as U+FFFD; compared against the model with exactly that substitution",
        "exotic stringify semantics (replacer, toJSON, boxed primitives, proxies, cycles) are judged by harness/cmd/c19/prelude.js, a transcription of ECMA-262 §25.5.2 executed by goja itself (uses Reflect/Object primitives, not the JSON object); the Lean model is compared with that oracle on plain data x indents",
    ]
    ctx.trusted_base += ["python3 float()/repr() (decimal<->double reference)", "harness/cmd/c19/prelude.js (spec oracle for exotic stringify inputs) and goja's non-JSON built-ins it runs on"]
    return ctx.finish(level="proof",
                      rule="P: distinct JSON texts (grammar-generated, every single-unit deletion/insertion/substitution over a %d-unit alphabet of %d base texts, fixed corner lists); S: distinct (plain value, indent) pairs; J: distinct generated JS cases (value x replacer x space); a case is non-trivial when it is a distinct op line" % (len(EDIT_ALPHABET), len(edit_bases)))

def oracle_parse(ctx, model, us):
    if model:
        return shard_run(ctx, model, ["P " + hxu(us)])[0]
    return py_parse(us)

def shrink_parse(ctx, h, model, us, sig):
    """ddmin over code units keeping the same disagreement class"""
    def fails(sub):
        ref = oracle_parse(ctx, model, sub)
        got = shard_run(ctx, h, ["P " + hxu(sub)])[0]
        if ref == "skip": return False
        return got != expected_of(ref) and classify_parse(sub, ref, got) == sig
    if len(us) > 400: return us
    try:
        return Ctx.ddmin(us, fails)
    except Exception:
        return us

def replay(ctx, path):
    rp = json.load(open(path))
    if rp.get("kind") == "broken-obligation":
        print(json.dumps(rp, indent=1)); return 0
    op = rp["op"]
    ctx.lake_build(["model_c19"])
    h = ctx.go_build()
    got = shard_run(ctx, h, [op])[0] if h else "harness build failed"
    print("op      :", op[:300])
    if "source" in rp: print("source  :", rp["source"][:600])
    if "text" in rp: print("text    :", rp["text"][:300])
    print("goja    :", got)
    if (op[0] in "PSQ" or op.startswith("RV ") or op.startswith("SR ") or op.startswith("RM ")) and not op.startswith("SJ") and os.path.exists(ctx.model_exe()):
        print("model   :", shard_run(ctx, ctx.model_exe(), [op])[0])
    if op[0] == "P":
        print("python  :", py_parse(units(unhx(op[2:].strip())) if len(op) > 2 else []))
    print("expected:", rp.get("expected"))
    return 0
