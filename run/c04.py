"""
C04 — essential object invariants for every object kind and key kind.

Obligations checked on every run (see design/C04.md):
  * Lean theorems of GojaModel.C04.Props (audited for axioms);
  * tie  (regenerated): KeyKindCopies — branch structure of the triplicated method families (GojaModel.C04.Tie);
  * corr A (EXHAUSTIVE): every cell of baseObject._defineOwnProperty (66 existing shapes x 1296 descriptors x 2) through the
    hook VerifC04DefineOwn against the Lean transcription of the function (exact equality), each implementation result
    judged against ValidateAndApplyPropertyDescriptor by the Lean driver;
  * corr B: op sequences over modelled kinds, every result and every dumped state diffed with the spec-level Lean model;
  * monitor: the essential invariants (Lean `monitorStep`/`snapOk`) on the dumped states of ALL kinds, modelled or not;
  * white-box: the propNames/lastSortedPropLen/idxPropCount invariants the Lean proof needs (Rel), after every op.
"""
import json, os, re, subprocess, sys, time, glob
from vlib import *

MODELLED = ["plain", "nullproto", "arrow", "bound", "class", "strobj", "sargs", "args", "u8", "func"]
ARRAYS = ["arr", "sparr"]                       # dense [101,102,103] / sparse (a[5000]) arrays: monitored (modelled by C07)
TEMPLATED = ["fproto", "aproto", "sproto", "dproto", "taproto", "mapproto", "setproto", "promproto", "symproto", "regproto",
             "json", "math", "global"]           # lazily-templated built-in prototypes / namespace objects (fresh runtime per case)
MONITORED = ARRAYS + TEMPLATED + [ "gomap", "goslice", "goslicecap", "gostruct", "dyn", "dynarr"]
# kinds for the key-kind metamorphic check (no model of the kind needed): every kind with hand-written Str/Idx method copies
META_KINDS = ["goslice", "goslicecap", "gomap", "gostruct", "dyn", "dynarr", "u8", "args", "sargs", "strobj", "arr", "sparr", "func", "plain"]
GENERAL_MONITORED = [k for k in MONITORED if k not in TEMPLATED or k in ("math", "global")]
WRAPPERS = {"gomap", "goslice", "goslicecap", "gostruct", "dyn", "dynarr"}          # documented non-ordinary variants: key order not checked
DEFAULT_PROTO = {"plain": "O", "nullproto": "null", "arrow": "F", "bound": "F", "class": "F", "strobj": "?", "sargs": "O", "args": "O", "u8": "?", "func": "F"}

# well-known symbols are SYM[3..] of the harness prelude
WK = {"iterator": "y3", "hasInstance": "y4", "toStringTag": "y5", "toPrimitive": "y6", "unscopables": "y7", "match": "y9",
      "matchAll": "y10", "replace": "y11", "search": "y12", "split": "y13"}
# ECMA-262 attributes of the well-known-symbol properties of the templated built-ins: D/writable/enumerable/configurable
# or A/enumerable/configurable (accessor with a getter)
EXPECTED_SYMS = {
    "fproto": {"hasInstance": "D/f/f/f"},                                   # 20.2.3.6
    "aproto": {"iterator": "D/t/f/t", "unscopables": "D/f/f/t"},            # 23.1.3.37/38
    "sproto": {"iterator": "D/t/f/t"},                                      # 22.1.3.36
    "dproto": {"toPrimitive": "D/f/f/t"},                                   # 21.4.4.45
    "taproto": {"iterator": "D/t/f/t", "toStringTag": "A/f/t"},             # 23.2.3.37/38
    "mapproto": {"iterator": "D/t/f/t", "toStringTag": "D/f/f/t"},          # 24.1.3.12/13
    "setproto": {"iterator": "D/t/f/t", "toStringTag": "D/f/f/t"},          # 24.2.3.11/12
    "promproto": {"toStringTag": "D/f/f/t"},                                # 27.2.5.5
    "symproto": {"toPrimitive": "D/f/f/t", "toStringTag": "D/f/f/t"},       # 20.4.3.5/6
    "regproto": {"match": "D/t/f/t", "matchAll": "D/t/f/t", "replace": "D/t/f/t", "search": "D/t/f/t", "split": "D/t/f/t"},
    "json": {"toStringTag": "D/f/f/t"},                                     # 25.5.3
    "math": {"toStringTag": "D/f/f/t"},                                     # 21.3.1.9
    "global": {},
}
SIG_GOSLICE_GROWS = "goslice:non-extensible-slice-grows"
SIG_GOSLICE_SHRINKS = "goslice:length-shrink-removes-nonconfigurable-elements"


# ----------------------------------------------------------------------------------------------- table (corr A)
def table_cells():
    existing = [(0, -1, 0, 0, 0, 0, -1, -1), (1, 0, 0, 0, 0, 0, -1, -1)]
    for w in (0, 1):
        for e in (0, 1):
            for c in (0, 1):
                for g in (-1, 0):
                    for s in (-1, 1):
                        existing.append((2, 0, w, e, c, 0, g, s))       # data (+ getter/setter residue)
                        existing.append((2, -1, w, e, c, 1, g, s))      # accessor (+ writable residue)
    descs = []
    for v in (-1, 0, 1):
        for w in (0, 1, 2):
            for e in (0, 1, 2):
                for c in (0, 1, 2):
                    for g in (-2, -1, 0, 2):
                        for s in (-2, -1, 1, 3):
                            descs.append((v, w, e, c, g, s))
    cells = []
    for ex in existing:
        for d in descs:
            for ext in (0, 1):
                cells.append(ex + d + (ext,))
    return cells


def classify_cell(cell, verdict):
    """descriptive class (for the signature) of a cell on which the implementation's result contradicts the spec / breaks the rep invariant"""
    ek, ev, ew, ee, ec, ea, eg, es, dv, dw, de, dc, dg, ds, ext = cell
    d_acc = dg != -2 or ds != -2
    d_data = dv != -1 or dw != 0
    ex_acc = ek == 2 and ea == 1
    ex_data = ek == 1 or (ek == 2 and ea == 0)
    if ex_data and d_acc:
        if verdict == "spec" and ek == 2 and ec == 0:
            return "D1"
        if verdict == "repinv":
            return "D2"
    if ex_acc and d_data:
        if verdict == "spec" and ec == 0:
            return "D1"
        return "D3"
    return None


def run_sharded(cmd, lines_by_shard, timeout=900):
    procs = []
    for lines in lines_by_shard:
        p = subprocess.Popen(cmd, stdin=subprocess.PIPE, stdout=subprocess.PIPE, stderr=subprocess.PIPE, text=True, errors="replace")
        procs.append((p, "\n".join(lines) + "\n"))
    outs = []
    import threading
    res = [None] * len(procs)

    def work(i, p, data):
        try:
            o, e = p.communicate(data, timeout=timeout)
            res[i] = (p.returncode, o.splitlines(), e)
        except subprocess.TimeoutExpired:
            p.kill()
            res[i] = (124, [], "timeout")
    ths = [threading.Thread(target=work, args=(i, p, d)) for i, (p, d) in enumerate(procs)]
    for t in ths:
        t.start()
    for t in ths:
        t.join()
    return res


def run_sharded_retry(cmd, lines_by_shard, timeout=900):
    """run_sharded, but a shard that timed out (slow machine) is inconclusive and is run again, alone, with a longer timeout"""
    res = run_sharded(cmd, lines_by_shard, timeout)
    for i, r in enumerate(res):
        if r[0] == 124:
            res[i] = run_sharded(cmd, [lines_by_shard[i]], timeout * 4)[0]
    return res


def shard(items, n):
    k = max(1, (len(items) + n - 1) // n)
    return [items[i:i + k] for i in range(0, len(items), k)]


def table_check(ctx, h, model):
    cells = table_cells()
    ctx.stats["table_cells"] = len(cells)
    lines0 = ["T " + " ".join(map(str, c)) for c in cells]
    nsh = 8
    sh = shard(lines0, nsh)
    impl = []
    for rc, out, err in run_sharded_retry([h], sh):
        impl += out
    if len(impl) != len(cells):
        ctx.obligation("corr:defineOwn-table(exhaustive)", "correspondence", False, "harness produced %d lines for %d cells" % (len(impl), len(cells)))
        return False
    if model is None:
        return False
    ctx.count(len(cells))
    # one pass of the Lean driver: for every cell, is the implementation's result the transcription's, and does it agree
    # with ValidateAndApplyPropertyDescriptor / keep the representation invariant
    jl = ["J " + " ".join(map(str, cells[i])) + " " + impl[i] for i in range(len(cells))]
    jout = []
    for rc, out, err in run_sharded_retry([model], shard(jl, nsh)):
        jout += out
    if len(jout) != len(cells):
        ctx.obligation("corr:defineOwn-table(exhaustive)", "correspondence", False, "model driver produced %d lines for %d cells" % (len(jout), len(cells)))
        return False
    d0 = [i for i in range(len(cells)) if jout[i][:1] != "1"]
    verdicts = [l.split(" ", 1)[1] if " " in l else "?" for l in jout]
    ctx.stats["table_diff_vs_transcription"] = len(d0)
    ctx.stats["table_results"] = {"reject": sum(1 for x in impl if x == "R"), "plain": sum(1 for x in impl if x.startswith("P 1")),
                                  "valueProperty": sum(1 for x in impl if x.startswith("P 2"))}
    for c in cells:
        ctx.nontriv(("cell", c))              # every cell is a distinct (existing shape, descriptor shape, extensible) triple
    ctx.stats["table_distinct_cells"] = len(set(cells))
    ok = not d0
    detail = "implementation == Lean transcription of _defineOwnProperty on all %d cells" % len(cells)
    if not ok:
        k = d0[0]
        a, b = single_run(h, model, ["T " + " ".join(map(str, cells[k]))])
        detail = ("implementation differs from the transcription on %d cells; first: cell=%s impl=%s model=%s"
                  % (len(d0), cells[k], impl[k], b[0] if b else "?"))
    ctx.obligation("corr:defineOwn-table(exhaustive)", "correspondence", ok, detail)
    vc = {}
    for v in verdicts:
        vc[v] = vc.get(v, 0) + 1
    ctx.stats["table_spec_verdicts"] = vc
    bad = [i for i, v in enumerate(verdicts) if v not in ("ok", "na")]
    classes = {}
    for i in bad:
        cl = classify_cell(cells[i], verdicts[i])
        classes.setdefault(cl, []).append(i)
    ctx.stats["table_defect_cells"] = {str(k): len(v) for k, v in classes.items()}
    for cl, idxs in classes.items():
        i = idxs[0]
        sig = "defineOwn:%s:cell:%s" % (cl or "other", "_".join(map(str, cells[i])))
        ctx.violation(sig, "_defineOwnProperty contradicts ValidateAndApplyPropertyDescriptor (%s) on %d cells, e.g. cell %s -> %s"
                      % (verdicts[i], len(idxs), cells[i], impl[i]),
                      {"kind": "input", "mode": "table", "cell": list(cells[i]), "observed": impl[i], "verdict": verdicts[i],
                       "cells_in_class": len(idxs),
                       "cell_format": "ek ev ew ee ec ea eg es | dv dw de dc dg ds | ext (see harness/cmd/c04, Driver.lean tableCell)"})
    return ok


# ----------------------------------------------------------------------------------------------- sequences (corr B)
IDX = [0, 1, 2, 3, 4, 7]          # around the length of the 2- and 3-element array-likes: len-1, len, len+1
STRS = ["a", "b", "c"]
SYMS = [0, 1]
VALS = ["n0", "n1", "n2", "n3", "n4", "n5", "u"]


def gen_key(rng, extra=None):
    r = rng.random()
    if extra and r < 0.3:
        return rng.choice(extra)
    r = rng.random()
    if r < 0.22:
        return "i%d" % rng.choice(IDX)
    if r < 0.42:
        return "I%d" % rng.choice(IDX)
    if r < 0.75:
        return "s" + rng.choice(STRS)
    return "y%d" % rng.choice(SYMS)


def gen_flag(rng):
    return rng.choice(["-", "-", "t", "f"])


def gen_desc(rng):
    r = rng.random()
    e, c = gen_flag(rng), gen_flag(rng)
    if r < 0.5:      # data
        v = rng.choice(VALS) if rng.random() < 0.7 else "-"
        w = gen_flag(rng)
        if v == "-" and w == "-":
            v = rng.choice(VALS)
        return [v, w, e, c, "-", "-"]
    if r < 0.8:      # accessor
        g = rng.choice(["-", "u", "f0", "f1", "f2"])
        s = rng.choice(["-", "u", "f0", "f1", "f3"])
        if g == "-" and s == "-":
            g = "f0"
        return ["-", "-", e, c, g, s]
    return ["-", "-", e, c, "-", "-"]     # generic (possibly empty)


FAR_IDX = [4097, 5000, 100000]


def gen_array_case(rng, maxops=40):
    """arrays (monitored): index defines incl. far indices that force the dense->sparse switch, length changes"""
    n = rng.choice([1, 2, 2, 3])
    objs = []
    for i in range(n):
        kind = rng.choice(ARRAYS) if (i == 0 or rng.random() < 0.5) else "plain"
        proto = "-" if kind in ARRAYS else "O"
        if i > 0 and rng.random() < 0.3:
            proto = "o%d" % rng.randrange(0, i)
        objs.append((kind, proto))
    arrs = [i for i, (k, _) in enumerate(objs) if k in ARRAYS]
    lens = ["l0", "l1", "l2", "l3", "n0", "n5", "l7"]

    def akey():
        r = rng.random()
        if r < 0.3:
            return rng.choice(["i", "I"]) + str(rng.choice(FAR_IDX))
        if r < 0.75:
            return rng.choice(["i", "I"]) + str(rng.choice(IDX))
        if r < 0.85:
            return "slength"
        return gen_key(rng)
    nops = rng.randrange(4, maxops + 1)
    ops = []
    for j in range(nops):
        o = "o%d" % (rng.choice(arrs) if rng.random() < 0.85 else rng.randrange(n))
        dump = "D" if (rng.random() < 0.45 or j == nops - 1) else "-"
        r = rng.random()
        if r < 0.35:
            ops.append(["def", rng.choice(["O", "R", "R", "G"]), o, akey()] + gen_desc(rng) + [dump])
        elif r < 0.60:      # length change through every entry point
            v = rng.choice(lens)
            m = rng.random()
            if m < 0.3:
                ops.append(["set", rng.choice(["S", "T"]), o, "slength", v, "=", dump])
            elif m < 0.6:
                ops.append(["set", "R", o, "slength", v, rng.choice(["=", "=", o]), dump])
            elif m < 0.75:
                ops.append(["set", "G", o, "slength", v, "=", dump])
            else:
                ops.append(["def", rng.choice(["O", "R"]), o, "slength", v, gen_flag(rng), "-", "-", "-", "-", dump])
        elif r < 0.75:
            ops.append(["set", rng.choice(["S", "T", "R", "G"]), o, akey(), rng.choice(VALS), "=", dump])
        elif r < 0.85:
            ops.append(["del", rng.choice(["S", "T", "R", "G"]), o, akey(), dump])
        elif r < 0.90:
            ops.append([rng.choice(["has", "hasown"]), rng.choice(["S", "R"]), o, akey(), dump])
        elif r < 0.94:
            ops.append(["get", rng.choice(["S", "R", "G"]), o, akey(), "=", dump])
        elif r < 0.97:
            ops.append(["pe", rng.choice(["O", "R"]), o, dump])
        else:
            ops.append([rng.choice(["frz", "seal"]), o, dump])
    return {"objs": objs, "ops": ops, "monitored": True}


def gen_templated_case(rng, maxops=24):
    """lazily-templated built-ins in a FRESH runtime: a symbol-keyed defineProperty (fresh symbol or one of the template's
    well-known symbols) is, with probability 1/2, the very first operation that touches the object's symbol table"""
    kind = rng.choice(TEMPLATED)
    objs = [(kind, "-")]
    if rng.random() < 0.5:
        objs.append(("plain", rng.choice(["O", "o0"])))
    n = len(objs)
    wk = [WK[x] for x in EXPECTED_SYMS.get(kind, {})] or ["y5"]
    symkeys = ["y0", "y1"] + wk + [rng.choice(list(WK.values()))]

    def tkey():
        r = rng.random()
        if r < 0.45:
            return rng.choice(symkeys)
        if kind == "aproto" or r < 0.85:          # never index keys on Array.prototype: the harness itself pushes to arrays
            return "s" + rng.choice(STRS + ["length", "name", "constructor"])
        return rng.choice(["i", "I"]) + str(rng.choice(IDX))
    nops = rng.randrange(2, maxops + 1)
    ops = []
    for j in range(nops):
        o = "o0" if rng.random() < 0.8 else "o%d" % rng.randrange(n)
        dump = "D" if (rng.random() < 0.45 or j == nops - 1) else "-"
        if j == 0 and rng.random() < 0.5:
            d = gen_desc(rng)
            ops.append(["def", rng.choice(["O", "R", "G"]), "o0", rng.choice(symkeys)] + d + [dump])
            continue
        r = rng.random()
        if r < 0.35:
            ops.append(["def", rng.choice(["O", "R", "G"]), o, tkey()] + gen_desc(rng) + [dump])
        elif r < 0.55:
            ops.append(["set", rng.choice(["S", "T", "R", "G"]), o, tkey(), rng.choice(VALS), "=", dump])
        elif r < 0.68:
            ops.append(["get", rng.choice(["S", "R", "G"]), o, tkey(), "=", dump])
        elif r < 0.80:
            ops.append(["del", rng.choice(["S", "T", "R", "G"]), o, tkey(), dump])
        elif r < 0.90:
            ops.append([rng.choice(["has", "hasown"]), rng.choice(["S", "R"]), o, tkey(), dump])
        elif r < 0.95:
            ops.append(["pe", rng.choice(["O", "R"]), o, dump])
        else:
            ops.append([rng.choice(["frz", "seal"]), o, dump])
    return {"objs": objs, "ops": ops, "monitored": True}


def gen_meta_case(rng, maxops=26):
    """key-kind metamorphic cases: an exotic / wrapper object under a custom prototype that carries accessors and non-writable
    data at index keys around the object's length; every index key is written as an integer (variant A)"""
    kind = rng.choice(META_KINDS + ["goslice", "goslice", "dynarr", "u8", "arr"])      # array-likes weigh more
    objs = [("plain", "O"), (kind, "o0" if rng.random() < 0.9 else "-")]
    if rng.random() < 0.3:
        objs.append(("plain", "o1"))
    n = len(objs)
    L = {"arr": 3, "sparr": 5001}.get(kind, 2)      # initial length of the array-like
    near = [L - 1, L, L + 1]                        # the last element, the first missing index, the one after

    def idx():
        return rng.choice(near) if rng.random() < 0.65 else rng.choice(IDX)

    def ikey():
        return "i%d" % idx() if rng.random() < 0.85 else rng.choice(["slength", "sa", "sA", "y0"])
    ops = []
    for _ in range(rng.randrange(2, 6)):       # the prototype: setters, getters, non-writable data, plain data at index keys
        r = rng.random()
        k = "i%d" % idx()
        if r < 0.4:
            d = ["-", "-", gen_flag(rng), "t", rng.choice(["-", "f1", "u"]), rng.choice(["f0", "f3"])]
        elif r < 0.7:
            d = [rng.choice(VALS), "f", gen_flag(rng), "t", "-", "-"]
        else:
            d = [rng.choice(VALS), "t", "t", "t", "-", "-"]
        ops.append(["def", rng.choice(["O", "R"]), "o0", k] + d + ["-"])
    nops = rng.randrange(4, maxops + 1)
    for j in range(nops):
        o = "o1" if rng.random() < 0.8 else "o%d" % rng.randrange(n)
        dump = "D" if (rng.random() < 0.5 or j == nops - 1) else "-"
        r = rng.random()
        if r < 0.40:
            via = rng.choice(["S", "T", "R", "R", "G"])
            recv = "="
            if via == "R" and rng.random() < 0.3:
                recv = rng.choice(["o%d" % rng.randrange(n), "p"])
            ops.append(["set", via, o, ikey(), rng.choice(VALS), recv, dump])
        elif r < 0.58:
            ops.append(["def", rng.choice(["O", "R", "G"]), o, ikey()] + gen_desc(rng) + [dump])
        elif r < 0.70:
            ops.append(["get", rng.choice(["S", "R", "G"]), o, ikey(), "=", dump])
        elif r < 0.80:
            ops.append(["del", rng.choice(["S", "T", "R", "G"]), o, ikey(), dump])
        elif r < 0.90:
            ops.append([rng.choice(["has", "hasown"]), rng.choice(["S", "R"]), o, ikey(), dump])
        elif r < 0.96:
            ops.append(["set", rng.choice(["S", "R", "G"]), o, "slength", rng.choice(["l0", "l1", "l2", "l3", "l4"]), "=", dump])
        else:
            ops.append(["pe", rng.choice(["O", "R"]), o, dump])
    return {"objs": objs, "ops": ops, "monitored": True, "meta": True}


KEYED = ("def", "set", "get", "del", "has", "hasown")


def variant_string_keys(case):
    """variant B: the same sequence with every index key spelled as its canonical numeric STRING"""
    ops = []
    for op in case["ops"]:
        op = list(op)
        if op[0] in KEYED and op[3].startswith("i") and op[3][1:].isdigit():
            op[3] = "I" + op[3][1:]
        ops.append(op)
    return {"objs": case["objs"], "ops": ops, "monitored": True}


def variant_reflect(case):
    """variant C: the same sequence issued through Reflect.* only"""
    ops = []
    for op in case["ops"]:
        op = list(op)
        if op[0] in ("def", "set", "get", "del", "has", "pe", "sp"):
            op[1] = "R"
        ops.append(op)
    return {"objs": case["objs"], "ops": ops, "monitored": True}


def norm_result(l):
    """(success?, rest) of a harness answer line, entry-point independent: ok/t -> 1, throw/f -> 0, '-' (sloppy assignment) -> None"""
    l = strip_impl(l)[0]
    if l.startswith("err:"):
        # a non-TypeError exception: compare its class only (the JS and Go sides format the message differently)
        i = l.find(" # ")
        return "err:" + re.split(r"[^A-Za-z]", l[4:])[0], (l[i:] if i >= 0 else "")
    head, _, rest = l.partition(" ")
    m = {"ok": 1, "t": 1, "throw": 0, "f": 0, "-": None}
    return (m[head] if head in m else head), rest


def canon_unordered(l):
    """a Go map wrapper lists its keys in Go map iteration order (random): sort every key/props/for-in list of the line"""
    def srt(m):
        return m.group(1) + ",".join(sorted(m.group(2).split(","))) + "]"
    return re.sub(r"((?:keys|props|forin)=\[)([^\]]*)\]", srt, l)


def meta_compare(case, a, b, strict):
    """first line where two runs of the same abstract sequence differ (strict: whole line; else success flag + log + dump)"""
    lines = case_lines(case)
    unordered = any(k == "gomap" for k, _ in case["objs"])
    if unordered:
        a = [canon_unordered(x) for x in a]
        b = [canon_unordered(x) for x in b]
    for i in range(len(case["objs"]) + 1, min(len(a), len(b))):
        if strict:
            if strip_impl(a[i])[0] != strip_impl(b[i])[0]:
                return i
        else:
            ra, xa = norm_result(a[i])
            rb, xb = norm_result(b[i])
            op = lines[i].split()
            if xa != xb or (ra is not None and rb is not None and ra != rb and op[0] != "hasown"):
                return i
    if len(a) != len(b):
        return min(len(a), len(b))
    return None


def check_template_symbols(case, impl):
    """first observed state of a templated built-in: every well-known-symbol property the spec gives it must be there with the
    spec's attributes, unless an earlier op of the case named that key (or froze/sealed the object: presence only).
    Returns a list of (signature, message)."""
    out = []
    lines = case_lines(case)
    for oid, (kind, _) in enumerate(case["objs"]):
        exp = EXPECTED_SYMS.get(kind)
        if not exp:
            continue
        for li, l in enumerate(impl):
            l0 = strip_impl(l)[0]
            if " # " not in l0:
                continue
            od = [x.strip() for x in l0.split(" # ", 1)[1].split(" | ") if x.strip().startswith("O%d " % oid)]
            if not od:
                break
            props = parse_props(od[0])
            keys = od[0].split("keys=[", 1)[1].split("]", 1)[0].split(",")
            before = [x.split() for x in lines[:li + 1]]
            # a templated built-in is one object per runtime: every id of this kind in the case names the same object
            aliases = set("o%d" % j for j, (k2, _) in enumerate(case["objs"]) if k2 == kind)
            hardened = any(w[0] in ("frz", "seal", "pe") and w[1 if w[0] != "pe" else 2] in aliases for w in before)
            for name, want in exp.items():
                tk = WK[name]
                if any(len(w) > 3 and w[0] in ("def", "set", "del") and w[3] == tk for w in before):
                    continue
                if tk not in props or tk not in keys:
                    out.append(("template-symbol-missing:%s:%s" % (kind, name),
                                "%s lost its own property Symbol.%s (spec attributes %s) although no operation named that key; first symbol-keyed ops: %s"
                                % (kind, name, want, [" ".join(w) for w in before if len(w) > 3 and w[3].startswith("y")][:3])))
                    continue
                got = props[tk]
                g = got[0] + "/" + ("/".join(got[2:]) if got[0] == "D" else "/".join(got[3:]))
                if not hardened and g != want:
                    out.append(("template-symbol-attrs:%s:%s" % (kind, name),
                                "%s[Symbol.%s] has attributes %s, spec %s" % (kind, name, g, want)))
            break
    return out


def gen_case(rng, monitored=False, maxops=40):
    if monitored:
        r = rng.random()
        if r < 0.30:
            return gen_array_case(rng, maxops)
        if r < 0.60:
            return gen_templated_case(rng)
    n = rng.choice([2, 3, 3, 4])
    objs = []
    for i in range(n):
        if monitored and i == n - 1:
            kind = rng.choice(GENERAL_MONITORED)
        elif monitored and rng.random() < 0.25:
            kind = rng.choice(GENERAL_MONITORED)
        else:
            kind = "plain" if rng.random() < 0.65 else rng.choice(MODELLED)
        proto = "-"
        if i > 0 and rng.random() < 0.75:
            proto = "o%d" % rng.randrange(max(0, i - 2), i) if rng.random() < 0.85 else "o%d" % rng.randrange(0, i)
        if kind in DEFAULT_PROTO:
            proto = proto if proto != "-" else DEFAULT_PROTO[kind]
        objs.append((kind, proto))
    extra = ["slength", "scallee", "sprototype", "sname", "i0", "I1"]
    if monitored:
        extra = ["slength", "sprototype", "sname", "i0", "i1", "I0", "sa", "scallee", "sA", "sB"]
    nops = rng.randrange(8, maxops + 1)
    ops = []
    for j in range(nops):
        o = "o%d" % rng.randrange(n)
        if j < 6 and rng.random() < 0.6:
            o = "o%d" % rng.randrange(max(1, n - 1))        # populate the upper part of the chain first
        k = gen_key(rng, extra)
        dump = "D" if (rng.random() < 0.45 or j == nops - 1) else "-"
        r = rng.random()
        if r < 0.30:
            via = rng.choice(["O", "O", "R", "R", "G"])
            ops.append(["def", via, o, k] + gen_desc(rng) + [dump])
        elif r < 0.56:
            recv = "="
            via = rng.choice(["S", "T", "R", "R", "G"])
            if via == "R" and rng.random() < 0.6:
                recv = rng.choice(["o%d" % rng.randrange(n), "o%d" % rng.randrange(n), "p"])
            ops.append(["set", via, o, k, rng.choice(VALS), recv, dump])
        elif r < 0.66:
            recv = "="
            via = rng.choice(["S", "R", "G"])
            if via == "R" and rng.random() < 0.5:
                recv = rng.choice(["o%d" % rng.randrange(n), "p"])
            ops.append(["get", via, o, k, recv, dump])
        elif r < 0.76:
            ops.append(["del", rng.choice(["S", "T", "R", "G"]), o, k, dump])
        elif r < 0.81:
            ops.append([rng.choice(["has", "has", "hasown"]), rng.choice(["S", "R"]), o, k, dump])
        elif r < 0.86:
            ops.append(["pe", rng.choice(["O", "R"]), o, dump])
        elif r < 0.93:
            p = rng.choice(["null", "O"] + ["o%d" % i for i in range(n)] * 2)
            ops.append(["sp", rng.choice(["O", "R", "G"]), o, p, dump])
        elif r < 0.97:
            ops.append([rng.choice(["frz", "seal"]), o, dump])
        else:
            ops.append(["def", "O", o, k, rng.choice(VALS), "f", "-", "f", "-", "-", dump])   # non-writable non-configurable data
    return {"objs": objs, "ops": ops, "monitored": monitored}


def case_lines(case):
    lines = ["N"]
    for i, (kind, proto) in enumerate(case["objs"]):
        lines.append("mk %d %s %s" % (i, kind, proto))
    for op in case["ops"]:
        lines.append(" ".join(op))
    return lines


def strip_impl(l):
    """(comparable part, white-box annotation) of a harness line; ` @CYCLE oN` stays in the comparable part on purpose"""
    cut = [x for x in (l.find(" @PO-BAD"), l.find(" @INV")) if x >= 0]
    i = min(cut) if cut else -1
    return (l[:i], l[i:]) if i >= 0 else (l, "")


def strip_model(l):
    return l


def run_cases(ctx, h, model, cases):
    """returns per-case (impl_lines, model_lines)"""
    nsh = 12
    chunks = shard(cases, nsh)
    lines_by = [[l for c in ch for l in case_lines(c)] for ch in chunks]
    impl_res = run_sharded_retry([h], lines_by)
    model_res = run_sharded_retry([model], lines_by) if model else [(0, [], "")] * len(chunks)
    out = []
    for ch, (rc1, o1, e1), (rc2, o2, e2) in zip(chunks, impl_res, model_res):
        p = 0
        for c in ch:
            n = len(case_lines(c))
            out.append((o1[p:p + n], o2[p:p + n] if model else None))
            p += n
    return out


def monitor_lines(case, impl_lines):
    """M lines for every dumped object state of the implementation"""
    ls = ["N"]
    idxs = [0]
    kinds = [k for k, _ in case["objs"]]
    for li, l in enumerate(impl_lines):
        l, _ = strip_impl(l)
        l = l.split(" @CYCLE")[0]
        if " # " not in l:
            continue
        dump = l.split(" # ", 1)[1]
        for od in dump.split(" | "):
            od = od.strip()
            if not od.startswith("O"):
                continue
            oid = od.split(" ", 1)[0][1:]
            if not oid.isdigit() or int(oid) >= len(kinds):
                continue
            ordflag = " ord=f" if kinds[int(oid)] in WRAPPERS else ""
            ls.append("M %s %s%s" % (oid, od.split(" ", 1)[1] if " " in od else "", ordflag))
            idxs.append(li)
    return ls, idxs


def parse_props(ml):
    try:
        inner = ml.split("props=[", 1)[1].split("]", 1)[0]
    except IndexError:
        return {}
    d = {}
    for t in inner.split(","):
        if ":" in t:
            k, v = t.split(":", 1)
            d[k] = v.split("/")
    return d


def norm_key(k):
    return "i" + k[1:] if k.startswith("I") else k


def classify_monitor(case, mon, idxs, j, verdict):
    """signature of a monitor alarm: a known defect class if the alarm is fully explained by it, else a fresh signature"""
    ml = mon[j]
    oid = int(ml.split()[1])
    kind = case["objs"][oid][0]
    lines = case_lines(case)
    prev = None
    for q in range(j - 1, 0, -1):
        if mon[q].split()[1] == str(oid):
            prev = q
            break
    if kind in ("goslice", "goslicecap") and verdict.strip() == "bad step" and prev is not None:
        a, b = parse_props(mon[prev]), parse_props(ml)
        removed, added = set(a) - set(b), set(b) - set(a)
        if removed and all(k.startswith("i") for k in removed):
            return SIG_GOSLICE_SHRINKS          # elements reported non-configurable vanished through a smaller length
        if " ext=f" in mon[prev] and added and any(k.startswith("i") for k in added):
            return SIG_GOSLICE_GROWS            # a non-extensible slice gained index keys
    return "monitor:%s:%s" % (kind, verdict.replace(" ", "_"))


def first_diff(case, impl, mdl):
    for i in range(min(len(impl), len(mdl))):
        a, _ = strip_impl(impl[i])
        if a != strip_model(mdl[i]):
            return i
    if len(impl) != len(mdl):
        return min(len(impl), len(mdl))
    return None


def _run1(exe, data):
    # a slow machine is not a finding: generous timeout, one retry, then an empty (inconclusive) answer
    for attempt in range(2):
        try:
            return subprocess.run([exe], input=data, stdout=subprocess.PIPE, stderr=subprocess.PIPE, text=True,
                                  timeout=600 * (attempt + 1)).stdout.splitlines()
        except subprocess.TimeoutExpired:
            continue
    return []


def single_run(h, model, lines):
    data = "\n".join(lines) + "\n"
    return _run1(h, data), _run1(model, data)


def shrink_case(ctx, h, model, case):
    head = case_lines({"objs": case["objs"], "ops": []})

    def fails(ops):
        # make sure the last op dumps
        ops = [list(o) for o in ops]
        if ops:
            ops[-1][-1] = "D"
        lines = head + [" ".join(o) for o in ops]
        a, b = single_run(h, model, lines)
        return first_diff(None, a, b) is not None
    ops = [list(o) for o in case["ops"]]
    # cut after the first diverging op
    try:
        small = ctx.ddmin(ops, fails)
    except Exception:
        small = ops
    if small:
        small[-1][-1] = "D"
    return {"objs": case["objs"], "ops": small, "monitored": False}


SIG_THROWER_SLOPPY = "throwTypeError:does-not-throw-for-sloppy-function-receiver"


def seq_signature(case, lines=None, dd=None, a=None, b=None):
    """class of a (minimised) diverging sequence: its op/entry-point shape.  One known finding is recognised, narrowly (the
    rules for the arguments iterator, the typed-array delete message and the function `prototype` key position are gone:
    repaired in /repo by 52d9686, 4b86f46, fcdbd47 - such divergences alarm again)."""
    if a is not None and b is not None and lines is not None and dd is not None and dd < len(a) and dd < len(b) and dd < len(lines):
        # %ThrowTypeError% reached as the `callee` accessor of a strict arguments object, with a sloppy ordinary function
        # as the receiver: goja's thrower does not throw then.  Only the outcome token differs, the dumps are equal.
        op = lines[dd].split()
        if op[0] in ("get", "set") and len(op) >= 6 and op[3] == "scallee":
            recv = op[5] if op[0] == "set" else op[4]
            if recv == "=":
                recv = op[2]
            ia, ib = strip_impl(a[dd])[0].split(" ", 1), strip_model(b[dd]).split(" ", 1)
            if recv[:1] == "o" and recv[1:].isdigit() and int(recv[1:]) < len(case["objs"]) \
                    and case["objs"][int(recv[1:])][0] == "func" and any(k == "sargs" for k, _ in case["objs"]) \
                    and ib[0] == "throw" and ia[0] != "throw" and ia[1:] == ib[1:]:
                return SIG_THROWER_SLOPPY
    return "seq:" + "-".join(o[0] + (o[1] if o[0] not in ("frz", "seal") else "") for o in case["ops"])[:80]


def main(ctx):
    t0 = time.time()
    quick = ctx.tier == "quick"
    for old in glob.glob(os.path.join(ROOT, "replay", "C04", "C04_%s_seed%d_*.json" % (ctx.tier, ctx.seed))):
        os.remove(old)
    ctx.assumptions += [
        "parametricity: _defineOwnProperty and the set/define paths use property values and accessor functions only through identity (SameAs / pointer equality); the exhaustive table draws them from a pool of distinct identities",
        "SameAs on property values coincides with SameValue (number/string canonical forms are C05/C06)",
        "sort.Search on a monotone predicate returns the first index where it holds (fixPropOrder's binary search is modelled as insertion before the first greater-or-equal index)",
        "propNames with the counters lastSortedPropLen/idxPropCount is modelled as three list segments; the copy-on-write marker is modelled separately (Cow.lean) with the logical content given by those segments; an iterator over an empty name list is taken to be exhausted by its first next() (no user code in between)",
        "mapped arguments: the parameter variables are written only through the arguments object (no closure over the parameters) — the situation of every arguments object the harness creates",
        "typed arrays: only canonical array-index keys are issued (Key.idx); other canonical numeric strings (-0, 1.5, 2^32-1 …) are not exercised",
        "descriptors are well-formed (never both accessor and data fields): toPropertyDescriptor and the Go API cannot build others",
        "getter/setter fields hold undefined or a callable object (propGetter/propSetter throw otherwise)",
    ]
    ctx.trusted_base += [
        "hook /repo/verif_hooks_c04.go (VerifC04DefineOwn builds the existing slot and calls the real _defineOwnProperty; VerifC04PropOrder reads propNames and counters)",
        "lean/GojaModel/C07 (array abstraction and its refinement theorem history_refines) for the two theorems of PropsArray.lean",
        "hand transcription of ECMA-262 10.4.3 (String exotic), 10.4.4 (arguments), 10.4.5 (integer-indexed), 20.2.4/10.2.5 (function prototype) next to the mechanism models",
        "hand transcription of ECMA-262 10.1.6.3 ValidateAndApplyPropertyDescriptor, 10.1.9.2 OrdinarySetWithOwnDescriptor, 10.1.11.1 OrdinaryOwnPropertyKeys, 7.3.15/16 integrity levels in Model.lean",
        "JS prelude of harness/cmd/c04 (dump/tok canonicalisation; candidate-key probe and pre-delete descriptor probe of the op-level invariant annotations)",
        "hand transcription of object_gomap.go / checkHostObjectPropertyDescr in GoMap.lean (text tied by Tie2.lean); ToValue(Export(v)) taken as an arbitrary function of v; symbol keys of the wrapper (ordinary symValues) not modelled",
    ]
    have_tie = os.path.exists(os.path.join(ROOT, "extract", "c04.go"))
    if have_tie:
        ctx.regen()
    targets = ["GojaModel.C04.Props", "GojaModel.C04.PropsArray", "GojaModel.C04.PropsGoMap", "model_c04"] + (["GojaModel.C04.Tie", "GojaModel.C04.Tie2"] if have_tie else [])
    # PropsArray imports lean/GojaModel/C07, which its owner may be rebuilding at this moment (olean files vanish for a
    # while): let such a transient state settle before the judged build.  Errors in C04's own files are never waited for.
    for _ in range(3):
        rc0, out0, err0 = sh(["lake", "build"] + targets, cwd=LEAN, timeout=3000)
        txt0 = out0 + "\n" + err0
        if rc0 == 0 or re.search(r"^error: GojaModel/C04/", txt0, re.M) or not re.search(r"GojaModel/C07|GojaModel\.C07", txt0):
            break
        ctx.log("lake build disturbed by a concurrent rebuild of GojaModel/C07; retrying in 40 s")
        time.sleep(40)
    ok, errs = ctx.lake_build(targets)
    lean_ok = ok
    if not ok:
        # a broken theorem / tie must not take the model driver away from the search
        sh(["lake", "build", "model_c04"], cwd=LEAN, timeout=3000)
    names = ctx.audit("GojaModel.C04.Props", expect_min=48)
    ctx.audit("GojaModel.C04.PropsArray", expect_min=2)          # rests on lean/GojaModel/C07 (array abstraction)
    ctx.audit("GojaModel.C04.PropsGoMap", expect_min=6)         # Go map wrapper: mechanism model GoMap.lean
    if have_tie and ok:
        ctx.audit("GojaModel.C04.Tie", expect_min=1)
        ctx.audit("GojaModel.C04.Tie2", expect_min=19)
    if ctx.tier == "thorough" and ok:
        ctx.leanchecker("GojaModel.C04.Props")
    ctx.log("lean done %.1fs" % (time.time() - t0))
    h = ctx.go_build()
    model = ctx.model_exe()
    if not os.path.exists(model):
        model = None
        ctx.obligation("model-driver", "theorem", False, "model_c04 could not be built")
    if h is None:
        return ctx.finish(level="proof", rule="harness did not build")

    # ---------------- corpus first
    corpus = []
    for p in sorted(glob.glob(os.path.join(ROOT, "corpus", "C04", "*.json"))):
        with open(p) as f:
            c = json.load(f)
        c["name"] = os.path.basename(p)
        c.setdefault("monitored", False)
        corpus.append(c)

    table_ok = table_check(ctx, h, model)
    ctx.log("table done %.1fs ok=%s" % (time.time() - t0, table_ok))

    # ---------------- sequences
    n_mod = 2500 if quick else 12000
    n_mon = 900 if quick else 4000
    cases = list(corpus)
    for i in range(n_mod):
        cases.append(gen_case(ctx.rng, False))
    for i in range(n_mon):
        cases.append(gen_case(ctx.rng, True))
    results = run_cases(ctx, h, model, cases)
    ctx.log("sequences run %.1fs" % (time.time() - t0))
    opmix, viamix, kindmix, reskinds, lens = {}, {}, {}, {}, {}
    diverging = []
    crashed = []
    po_bad = []
    inv_hits = {}
    panics = []
    n_lines = 0
    for c, (impl, mdl) in zip(cases, results):
        for k, _ in c["objs"]:
            kindmix[k] = kindmix.get(k, 0) + 1
        lens[len(c["ops"]) // 10 * 10] = lens.get(len(c["ops"]) // 10 * 10, 0) + 1
        for op in c["ops"]:
            opmix[op[0]] = opmix.get(op[0], 0) + 1
            if op[0] not in ("frz", "seal"):
                viamix[op[1]] = viamix.get(op[1], 0) + 1
        n_lines += len(c["ops"])
        ctx.nontriv(("case", c["objs"], c["ops"]))
        for l in impl:
            a, po = strip_impl(l)
            if " @PO-BAD" in po:
                po_bad.append((c, l))
            for what, oid, key in re.findall(r" @INV (\S+) o(\d+) (\S+)", po):
                kind = c["objs"][int(oid)][0] if int(oid) < len(c["objs"]) else "?"
                kind = {"goslicecap": "goslice"}.get(kind, kind)
                kc = "length" if key == "slength" else "index" if key[:1] in ("i", "I") else key
                inv_hits.setdefault("%s:%s:%s" % (kind, what, kc), (c, impl.index(l), l))
            r = a.split(" ")[0]
            rk = r if not r.startswith(("n", "r", "o", "err", "PANIC")) else r[:1] if not r.startswith(("err", "PANIC")) else r[:5]
            reskinds[rk] = reskinds.get(rk, 0) + 1
            if a.startswith("PANIC"):
                panics.append((c, l, impl.index(l)))
        if len(impl) != len(case_lines(c)):
            crashed.append((c, impl))
            continue
        if not c["monitored"] and mdl is not None:
            d = first_diff(c, impl, mdl)
            if d is not None:
                diverging.append((c, impl, mdl, d))
    ctx.count(n_lines)
    ctx.stats.update({"cases_modelled": len([c for c in cases if not c["monitored"]]), "cases_monitored": len([c for c in cases if c["monitored"]]),
                      "op_mix": opmix, "via_mix": viamix, "kind_mix": kindmix, "result_kinds": reskinds, "ops_per_case_hist": lens,
                      "corpus_cases": len(corpus)})
    for c in cases[len(corpus):len(corpus) + 4]:
        ctx.sample(" ; ".join(case_lines(c))[:600])

    # ---------------- key-kind / entry-point metamorphic check on kinds that have no model
    n_meta = 600 if quick else 4000
    meta_cases = [c for c in corpus if c.get("meta")] + [gen_meta_case(ctx.rng) for _ in range(n_meta)]
    meta_cases += [c for c in cases if c.get("monitored") and any(k in ARRAYS for k, _ in c["objs"])][:150 if quick else 800]
    meta_a = []
    for c in meta_cases:
        ops = []
        for op in c["ops"]:
            op = list(op)
            if op[0] in KEYED and op[3].startswith("I") and op[3][1:].isdigit():
                op[3] = "i" + op[3][1:]
            ops.append(op)
        meta_a.append({"objs": c["objs"], "ops": ops, "monitored": True})
    meta_b = [variant_string_keys(c) for c in meta_a]
    meta_c = [variant_reflect(c) for c in meta_a]
    ra = [x[0] for x in run_cases(ctx, h, None, meta_a)]
    rb = [x[0] for x in run_cases(ctx, h, None, meta_b)]
    rc = [x[0] for x in run_cases(ctx, h, None, meta_c)]
    ctx.count(sum(len(c["ops"]) for c in meta_a) * 3)
    meta_bad, seen_m = 0, set()
    kinds_m = {}
    for c, cb, cc, a, b, cr in zip(meta_a, meta_b, meta_c, ra, rb, rc):
        kind = c["objs"][1][0] if len(c["objs"]) > 1 else c["objs"][0][0]
        kinds_m[kind] = kinds_m.get(kind, 0) + 1
        ctx.nontriv(("meta", c["objs"], c["ops"]))
        for tag, other, oc, strict in (("int-vs-string-key", b, cb, True), ("entry-point", cr, cc, False)):
            if len(a) != len(case_lines(c)) or len(other) != len(case_lines(c)):
                continue            # incomplete shard output: reported by harness-completed-every-case of the main stream only
            d = meta_compare(c, a, other, strict)
            if d is None:
                continue
            la, lo = case_lines(c), case_lines(oc)
            okind = kind
            opw = la[d].split()
            if len(opw) > 2 and opw[2][1:].isdigit() and int(opw[2][1:]) < len(c["objs"]):
                okind = c["objs"][int(opw[2][1:])][0]
            sig = "keykind-metamorphic:%s:%s:%s" % (tag, okind, opw[0])
            if ctx.known_signature(sig) is None:
                meta_bad += 1
            if sig in seen_m:
                continue
            seen_m.add(sig)
            # shrink: drop ops while the two spellings still disagree
            def fails(ops, c=c, tag=tag, strict=strict):
                ca = {"objs": c["objs"], "ops": [list(o) for o in ops], "monitored": True}
                if ca["ops"]:
                    ca["ops"][-1][-1] = "D"
                co = variant_string_keys(ca) if tag == "int-vs-string-key" else variant_reflect(ca)
                xa = _run1(h, "\n".join(case_lines(ca)) + "\n")
                xo = _run1(h, "\n".join(case_lines(co)) + "\n")
                return bool(xa) and bool(xo) and meta_compare(ca, xa, xo, strict) is not None
            small = c["ops"]
            if len(seen_m) <= (6 if quick else 20):
                try:
                    small = ctx.ddmin([list(o) for o in c["ops"]], fails)
                    if small:
                        small[-1][-1] = "D"
                except Exception:
                    small = c["ops"]
            sa = {"objs": c["objs"], "ops": small, "monitored": True}
            so = variant_string_keys(sa) if tag == "int-vs-string-key" else variant_reflect(sa)
            xa = _run1(h, "\n".join(case_lines(sa)) + "\n")
            xo = _run1(h, "\n".join(case_lines(so)) + "\n")
            dd = meta_compare(sa, xa, xo, strict)
            if dd is None:
                sa, so, xa, xo, dd = c, oc, a, other, d
            ctx.violation(sig, "the same operation gives different answers/states when %s: `%s` -> %s   vs   `%s` -> %s"
                          % ("the index key is an integer vs its canonical numeric string" if tag == "int-vs-string-key" else "issued through Reflect.* instead of syntax/Object.*/Go API",
                             case_lines(sa)[dd], strip_impl(xa[dd])[0][:200], case_lines(so)[dd], strip_impl(xo[dd])[0][:200]),
                          {"kind": "history", "objs": sa["objs"], "ops": sa["ops"], "lines": case_lines(sa), "lines_variant": case_lines(so),
                           "observed": [strip_impl(x)[0][:500] for x in xa], "observed_variant": [strip_impl(x)[0][:500] for x in xo]})
    ctx.stats["metamorphic_cases"] = len(meta_a)
    ctx.stats["metamorphic_kind_mix"] = kinds_m
    ctx.obligation("keykind-metamorphic(int vs numeric-string key; Reflect vs other entry points)", "correspondence", meta_bad == 0,
                   "%d sequences on kinds %s each run with integer keys, with numeric-string keys and through Reflect.*; %d disagreements not attributed to a known finding"
                   % (len(meta_a), ",".join(META_KINDS), meta_bad))

    # spec attributes of the well-known-symbol properties of templated built-ins at their first observed state
    tmpl_bad, seen_t = 0, set()
    n_tmpl = 0
    for c, (impl, mdl) in zip(cases, results):
        if not any(k in EXPECTED_SYMS and EXPECTED_SYMS[k] for k, _ in c["objs"]):
            continue
        n_tmpl += 1
        for sig, msg in check_template_symbols(c, impl):
            tmpl_bad += 1
            if sig in seen_t:
                continue
            seen_t.add(sig)
            ctx.violation(sig, msg, {"kind": "history", "objs": c["objs"], "ops": c["ops"], "lines": case_lines(c),
                                     "observed": [strip_impl(x)[0][:600] for x in impl]})
    ctx.stats["templated_cases_checked"] = n_tmpl
    ctx.obligation("builtin-template-symbols(spec attributes at first observation)", "correspondence", tmpl_bad == 0,
                   "%d cases on lazily-templated built-ins in fresh runtimes; %d deviations" % (n_tmpl, tmpl_bad))

    # a harness process that died (fatal Go error: stack overflow, ...) or hung takes the rest of its shard with it
    ctx.obligation("harness-completed-every-case", "correspondence", not crashed,
                   "" if not crashed else "%d cases without complete output; first incomplete case: %s" % (len(crashed), " ; ".join(case_lines(crashed[0][0]))[:800]))
    if crashed:
        c, impl = crashed[0]
        ctx.violation("harness-died:" + "-".join(k for k, _ in c["objs"]), "the implementation crashed or hung the harness process in this case (fatal Go error or endless loop)",
                      {"kind": "history", "objs": c["objs"], "ops": c["ops"], "lines": case_lines(c), "observed": impl[-3:]})

    # operation-level essential invariants on wrapper kinds (annotated by the harness): [[Delete]] must not answer true for
    # a property observed non-configurable; [[OwnPropertyKeys]] must list every non-configurable own property (and every
    # own property of a non-extensible object)
    inv_unknown = 0
    for sig, (c, li, l) in sorted(inv_hits.items()):
        st = ctx.violation(sig, "essential invariant (ECMA-262 6.1.7.3) broken at `%s`:%s" % (case_lines(c)[li], strip_impl(l)[1][:200]),
                           {"kind": "history", "objs": c["objs"], "ops": c["ops"][:max(0, li - len(c["objs"]))], "lines": case_lines(c)[:li + 1],
                            "observed": [strip_impl(x)[0][:300] + strip_impl(x)[1] for x in (results[cases.index(c)][0][:li + 1])]})
        if st != "known":
            inv_unknown += 1
    ctx.obligation("op-level-essential-invariants(wrapper kinds: Delete on non-configurable, OwnPropertyKeys completeness)", "correspondence",
                   inv_unknown == 0, "%d classes observed (%s), %d not attributed to a known finding" % (len(inv_hits), ", ".join(sorted(inv_hits)), inv_unknown))

    # white-box prop-order invariants
    ctx.obligation("whitebox:propNames-invariants(Rel)", "correspondence", not po_bad,
                   "" if not po_bad else "first: %s" % po_bad[0][1][-300:])
    if po_bad:
        c, l = po_bad[0]
        ctx.violation("propOrder:" + strip_impl(l)[1].split()[2], "propNames/lastSortedPropLen/idxPropCount invariant broken: " + strip_impl(l)[1][:200],
                      {"kind": "history", "objs": c["objs"], "ops": c["ops"], "observed": l})
    seen_p = set()
    for c, l, li in panics:
        op = case_lines(c)[li].split()
        kind = c["objs"][int(op[2][1:])][0] if len(op) > 2 and op[2][1:].isdigit() else "?"
        if op[0] in ("frz", "seal"):
            kind = c["objs"][int(op[1][1:])][0]
        sig = "panic:%s:%s" % (kind, op[0] + (op[1] if op[0] not in ("frz", "seal") else ""))
        if sig in seen_p:
            continue
        seen_p.add(sig)
        ctx.violation(sig, "Go runtime panic escaped an object operation on a %s object (%s): %s" % (kind, " ".join(op), l[:120]),
                      {"kind": "history", "objs": c["objs"], "ops": c["ops"][:li - len(c["objs"])], "lines": case_lines(c)[:li + 1], "observed": l[:300]})

    # prototype cycles (reported and cut by the harness)
    cyc = {}
    for c, (impl, mdl) in zip(cases, results):
        for li, l in enumerate(impl):
            if " @CYCLE o" in l:
                oid = int(l.split(" @CYCLE o")[1].split()[0])     # the target of the setPrototypeOf that closed the cycle
                kind = c["objs"][oid][0]
                if kind not in cyc:
                    cyc[kind] = (c, li, l)
    ctx.stats["prototype_cycles_by_kind"] = {k: 1 for k in cyc}
    for kind, (c, li, l) in cyc.items():
        sig = "proto-cycle:" + kind
        ctx.violation(sig, "[[SetPrototypeOf]] created a prototype cycle through a %s object (every later lookup of a missing key / for-in spins): %s"
                      % (kind, case_lines(c)[li]),
                      {"kind": "history", "objs": c["objs"], "ops": c["ops"][:li - len(c["objs"])], "lines": case_lines(c)[:li + 1], "observed": l[:300]})

    # diverging modelled sequences: shrink, report (the spec-level model is the judge).  A divergence is tolerated only if
    # it is attributed to a `known` finding.
    shrunk = 0
    budget = 6 if quick else 20
    diverging.sort(key=lambda t: len(t[0]["ops"]))
    unexplained = 0
    sig_count = {}
    for n, (c, impl, mdl, d) in enumerate(diverging):
        lines = case_lines(c)
        sig0 = seq_signature(c, lines, d, impl, mdl)
        sig_count[sig0 if not sig0.startswith("seq:") else "seq:*"] = sig_count.get(sig0 if not sig0.startswith("seq:") else "seq:*", 0) + 1
        if ctx.known_signature(sig0) is not None and any(h["signature"] == sig0 for h in ctx.known_hits):
            continue                                    # same known class already reported with a concrete replay
        if shrunk >= budget:
            if ctx.known_signature(sig0) is None:
                unexplained += 1
            continue
        shrunk += 1
        small = shrink_case(ctx, h, model, c) if model else c
        slines = case_lines(small)
        a, b = single_run(h, model, slines)
        dd = first_diff(small, a, b)
        if dd is None:
            # did not reproduce in isolation: report the unshrunk case
            small, slines, a, b, dd = c, lines, impl, mdl, d
        sig = seq_signature(small, slines, dd, a, b)
        st = ctx.violation(sig, "implementation diverges from the spec model at op %s: impl=%s model=%s"
                           % (slines[dd] if dd < len(slines) else "?",
                              (strip_impl(a[dd])[0][:160] if dd < len(a) else "?"),
                              (strip_model(b[dd])[:160] if dd < len(b) else "?")),
                           {"kind": "history", "objs": small["objs"], "ops": small["ops"], "lines": slines,
                            "expected": [strip_model(x) for x in b], "observed": [strip_impl(x)[0] for x in a]})
        if st != "known":
            unexplained += 1
    ctx.stats["diverging_sequences"] = len(diverging)
    ctx.stats["diverging_by_class"] = sig_count
    ctx.obligation("corr:op-sequences(modelled kinds)", "correspondence", unexplained == 0,
                   "%d modelled sequences, %d diverging (%d shrunk), %d not attributed to a known finding"
                   % (ctx.stats["cases_modelled"], len(diverging), shrunk, unexplained))

    # monitor on all dumped states
    if model:
        mon_pairs = [monitor_lines(c, impl) for c, (impl, mdl) in zip(cases, results)]
        mon_in = [m for m, _ in mon_pairs]
        mon_idx = [x for _, x in mon_pairs]
        chunks = shard(list(range(len(cases))), 12)
        res = run_sharded([model], [[l for i in ch for l in mon_in[i]] for ch in chunks])
        n_states, bad_mon = 0, []
        for ch, (rc, out, err) in zip(chunks, res):
            p = 0
            for i in ch:
                n = len(mon_in[i])
                o = out[p:p + n]
                p += n
                n_states += n - 1
                for j, l in enumerate(o):
                    if l.startswith("bad"):
                        bad_mon.append((cases[i], mon_in[i][j], l, i, j))
                        break
        ctx.stats["monitored_states"] = n_states
        ctx.count(n_states)
        mon_ok = True
        seen = set()
        for c, ml, l, ci, mj in bad_mon:
            oid = int(ml.split()[1])
            kind = c["objs"][oid][0]
            sig = classify_monitor(c, mon_in[ci], mon_idx[ci], mj, l)
            if sig in seen:
                continue
            seen.add(sig)
            st = ctx.violation(sig, "essential invariant broken on a %s object (%s): %s" % (kind, l, ml[:200]),
                               {"kind": "history", "objs": c["objs"], "ops": c["ops"], "lines": case_lines(c), "state": ml, "verdict": l})
            if st != "known":
                mon_ok = False
        ctx.stats["monitor_alarms"] = len(bad_mon)
        ctx.obligation("monitor:essential-invariants(all kinds)", "correspondence", mon_ok,
                       "%d observed object states of %d cases checked by Lean monitorStep/snapOk; kinds not modelled (%s) are checked by this monitor only"
                       % (n_states, len(cases), ",".join(MONITORED)))
    ctx.log("all done %.1fs" % (time.time() - t0))
    return ctx.finish(level="proof",
                      rule="table: EXHAUSTIVE over 66 existing-slot shapes x 1296 descriptor shapes x 2 extensibility (every cell distinct). "
                           "sequences: generated from the seed (2-4 objects, kinds %s modelled / %s monitored, prototype chains <= 3, 8-40 ops "
                           "rotating syntax/Object/Reflect/Go API and index/numeric-string/string/symbol keys); a case is counted distinct & non-trivial "
                           "by its full (objects, ops) text" % (",".join(MODELLED), ",".join(MONITORED)))


def replay(ctx, path):
    with open(path) as f:
        rp = json.load(f)
    h = ctx.go_build()
    ctx.lake_build(["model_c04"])
    model = ctx.model_exe()
    if rp.get("mode") == "table":
        cell = rp["cell"]
        line = "T " + " ".join(map(str, cell))
        a, b = single_run(h, model, [line])
        j, _ = single_run(model, model, ["J " + " ".join(map(str, cell)) + " " + a[0]])
        print("cell          :", cell)
        print("implementation:", a[0])
        print("model         :", b[0])
        print("spec verdict on implementation result:", j[0])
        return 0 if j[0].split(" ", 1)[-1] in ("ok", "na") and a[0] == b[0].split(" ; ")[0] else 1
    lines = rp.get("lines") or case_lines(rp)
    a, b = single_run(h, model, lines)
    rc = 0
    for i, l in enumerate(lines):
        ai = strip_impl(a[i])[0] if i < len(a) else "?"
        bi = strip_model(b[i]) if i < len(b) else "?"
        mark = "  " if ai == bi else "!!"
        if ai != bi:
            rc = 1
        print("%s %s\n     impl : %s\n     model: %s" % (mark, l, ai, bi))
    return rc
