"""
C13 — Go<->JS bridge: round-trip identity and aliasing coherence.

Order: regen (toValue case order) -> lake build Props/Tie/driver -> audit -> go build harness ->
correspondence (mechanism model vs implementation) on W/N/F/S lines, spec oracle (python, the documented
copy-on-change semantics) vs implementation on W lines, in-harness oracles on T (random reflect types),
P (no host panic under script op sequences) and E (export sharing) lines.
"""
import json, os, re, struct, sys
from concurrent.futures import ThreadPoolExecutor
from vlib import *

KINDS = {"int": (-2**63, 2**63 - 1), "int8": (-128, 127), "int16": (-2**15, 2**15 - 1), "int32": (-2**31, 2**31 - 1),
         "int64": (-2**63, 2**63 - 1), "uint": (0, 2**64 - 1), "uint8": (0, 255), "uint16": (0, 65535),
         "uint32": (0, 2**32 - 1), "uint64": (0, 2**64 - 1)}
SAFE = 2**53

# ------------------------------------------------------------------------------------------------ generators

def gen_W(rng, maxops=20):
    fixed = rng.random() < 0.2
    n = rng.randint(0, 5)
    cap = n + rng.choice([0, 0, 1, 2, 4])
    vals = [rng.randint(-9, 30) for _ in range(n)]
    ops = []
    gets = 0
    ln = n
    spare = [] if fixed or rng.random() < 0.5 else [rng.randint(700, 799) for _ in range(rng.randint(1, 3))]
    cap = max(cap, n + len(spare))
    vtok = (",".join(map(str, vals)) if vals else "-") + ("/" + ",".join(map(str, spare)) if spare else "")
    head = "W %d %d %s |" % (1 if fixed else 0, cap, vtok)
    for _ in range(rng.randint(1, maxops)):
        if ops:   # exact current length according to the documented semantics
            rec = spec_W(head + " " + " ".join(ops))[-1]
            m = re.search(r"len=(\d+)", rec)
            if m: ln = int(m.group(1))
        r = rng.random()
        hi = max(ln, 1)
        if r < 0.22:
            ops.append("get:%d" % rng.randint(0, hi)); gets += 1
        elif r < 0.36:
            i = rng.randint(0, hi + 1)
            ops.append("set:%d:%d" % (i, rng.randint(-9, 99))); ln = ln if fixed else max(ln, i + 1)
        elif r < 0.395:
            i = rng.randint(0, hi + 1)
            ops.append("bad:%d" % i); ln = ln if fixed else max(ln, i + 1)
        elif r < 0.41:
            i = rng.randint(0, hi + 1)
            ops.append("def:%d:%d" % (i, rng.randint(500, 599))); ln = ln if fixed else max(ln, i + 1)
        elif r < 0.47:
            ops.append("del:%d" % rng.randint(0, hi))
        elif r < 0.56:
            m = rng.randint(0, hi + 2); ops.append("len:%d" % m); ln = ln if fixed else m
        elif r < 0.62:
            ops.append("swap:%d:%d" % (rng.randint(0, ln + 1), rng.randint(0, ln + 1)))   # also beyond the length (fix 60ad8ae)
        elif r < 0.74 and gets:
            ops.append("ww:%d:%d" % (rng.randint(0, gets), rng.randint(100, 199)))
        elif r < 0.80:
            ops.append("gw:%d:%d" % (rng.randint(0, hi), rng.randint(200, 299)))
        elif r < 0.83:
            ops.append("ga:%d" % rng.randint(300, 399)); ln += 0 if fixed else 1   # only an upper estimate
        elif r < 0.86:
            ops.append("ra:%d" % rng.randint(0, 2))
        elif r < 0.88:
            ops.append("nop:%d" % rng.randint(0, 2))
        elif r < 0.90:
            ops.append("sort")
        elif r < 0.915 and not fixed:
            ops.append("splice:%d:%d:%d" % (rng.randint(0, hi), rng.randint(0, 3), rng.randint(0, 2)))
        elif r < 0.925:
            ops.append(rng.choice(["reverse", "shift", "unshift:%d" % rng.randint(600, 699)])); gets += 1
        elif r < 0.95:
            ops.append("push:%d" % rng.randint(400, 499)); ln += 0 if fixed else 1
        elif r < 0.98:
            ops.append("pop"); gets += 1; ln = max(0, ln - (0 if fixed else 1))
        elif not fixed:
            ops.append("gr:%d" % (ln + rng.randint(0, 4)))
    return "%s %s" % (head, " ".join(ops))


def f64bits(x):
    return struct.unpack(">Q", struct.pack(">d", x))[0]


def flt_class(x):
    if x != x: return "nan"
    if x == float("inf"): return "pinf"
    if x == float("-inf"): return "ninf"
    if x == 0 and f64bits(x) >> 63: return "negzero"
    if x == int(x): return "intval %d" % int(x)
    return "frac %016x" % f64bits(x)


def gen_numeric(rng, count):
    lines = []
    for k, (lo, hi) in KINDS.items():
        cands = {lo, hi, 0, 1, -1, lo + 1, hi - 1, SAFE, SAFE + 1, SAFE - 1, -SAFE, -SAFE - 1, -SAFE + 1, SAFE + 2, 2**63 - 1, 2**63,
                 2**63 + 1025, 2**64 - 1, 2**62 + 1, -(2**62) - 3}
        for _ in range(count):
            b = rng.randint(0, 64)
            cands.add(rng.randint(-(2**b), 2**b))
        for v in sorted(cands):
            if lo <= v <= hi:
                lines.append("N %s %d" % (k, v))
    fl = [0.0, -0.0, 1.0, -1.0, 0.5, -2.5, float("nan"), float("inf"), float("-inf"), float(SAFE), float(SAFE) * 2, -float(SAFE),
          float(SAFE) + 2, 1e300, -1e300, 5e-324, 2.0**63, 2.0**64, 1.7976931348623157e308, float(SAFE - 1), 0.1, 1 / 3]
    for _ in range(count * 4):
        e = rng.randint(-60, 80)
        fl.append(rng.choice([-1, 1]) * rng.randint(0, 2**53) * 2.0**e)
    for x in fl:
        lines.append("F " + flt_class(x))
        y = struct.unpack(">f", struct.pack(">f", x))[0] if abs(x) < 3e38 or x != x or abs(x) == float("inf") else None
        if y is not None:
            lines.append("G " + flt_class(y))
    return lines


def gen_shapes():
    out = ["S nilIface", "S objectPtr 0", "S objectPtr 1", "S nativeFunc v=0", "S nativeFunc v=1", "S nativeCtor v=0", "S nativeCtor v=1",
           "S float32 v=1", "S float64 v=2", "S bigInt 0 v=3", "S bigInt 1", "S mapStrIface 0", "S mapStrIface 1",
           "S ptrSliceIface 0", "S ptrSliceIface 1"]
    out += ["S jsValue v=%d" % v for v in range(4)] + ["S str v=%d" % v for v in range(5)] + ["S bool v=0", "S bool v=1"]
    out += ["S sliceIface v=%d" % v for v in range(3)]
    out += ["S intKind %s v=%d" % (k, v) for k in KINDS for v in (0, 57)]
    for d in range(0, 4):
        for np in (0, 1):
            if np and d == 0:
                continue
            for v in range(10):
                out.append("S rMap %d %d 1 0 v=%d" % (d, np, v))
                out.append("S rMap %d %d 0 0 v=%d" % (d, np, v))
                out.append("S rMap %d %d 1 1 v=%d" % (d, np, v))
                out.append("S rArray %d %d v=%d" % (d, np, v))
                out.append("S rSlice %d %d v=%d" % (d, np, v))
                out.append("S rFunc %d %d v=%d" % (d, np, v))
                out.append("S rOther %d %d v=%d" % (d, np, v))
    return out


P_TARGETS = ["sliceS", "sliceInt", "sliceIface", "sliceIfaceVal", "sliceSVal", "arrS", "arrSVal", "mapStrInt", "nilMap", "ptrNilMap",
             "mapIntS", "zoo", "zooL", "nested", "nilFunc", "mapSimple", "zooVal", "embNil",
             "timeVal", "bytes", "chanVal", "mapStrSlice", "mixed", "ptrptr"]
P_OPS = ["get", "getf", "set", "setf", "del", "def", "push", "pop", "shift", "unshift", "splice", "sort", "sortcmp", "sortshrink", "sortgrow",
         "reverse", "fill", "copyWithin", "len", "forin", "json", "spread", "keys", "freeze", "pe", "proto", "sym", "neg", "goappend", "goshrink", "call", "defnov", "seal", "fld", "deep", "tostr"]


def gen_P(rng):
    t = rng.choice(P_TARGETS)
    ops = []
    for _ in range(rng.randint(1, 20)):
        o = rng.choice(P_OPS)
        ops.append("%s:%d:%d" % (o, rng.randint(0, 7), rng.randint(0, 7)))
    return "P %s %s" % (t, " ".join(ops))


def gen_V(rng):
    """struct with k fields of type S, through the same model as a Go array (objectGoReflect.valueCache)"""
    k = rng.randint(1, 5)
    vals = [rng.randint(-9, 30) for _ in range(k)]
    ops, gets = [], 0
    for _ in range(rng.randint(1, 20)):
        r = rng.random()
        if r < 0.3:
            ops.append("get:%d" % rng.randint(0, k)); gets += 1
        elif r < 0.5:
            ops.append("set:%d:%d" % (rng.randint(0, k), rng.randint(-9, 99)))
        elif r < 0.58:
            ops.append("bad:%d" % rng.randint(0, k))
        elif r < 0.75 and gets:
            ops.append("ww:%d:%d" % (rng.randint(0, gets), rng.randint(100, 199)))
        elif r < 0.88:
            ops.append("gw:%d:%d" % (rng.randint(0, k), rng.randint(200, 299)))
        elif r < 0.95:
            ops.append("ra:%d" % rng.randint(0, 2))
        else:
            ops.append("nop:%d" % rng.randint(0, 1))
    return "V 1 %d %s | %s" % (k, ",".join(map(str, vals)), " ".join(ops))


def gen_M(rng):
    ents = ["%d=%d" % (k, rng.randint(-9, 30)) for k in sorted(rng.sample(range(6), rng.randint(0, 4)))]
    ops, gets = [], 0
    for _ in range(rng.randint(1, 20)):
        r = rng.random()
        k = rng.randint(0, 6)
        if r < 0.3:
            ops.append("get:%d" % k); gets += 1
        elif r < 0.5:
            ops.append("set:%d:%d" % (k, rng.randint(-9, 99)))
        elif r < 0.6:
            ops.append("del:%d" % k)
        elif r < 0.75 and gets:
            ops.append("ww:%d:%d" % (rng.randint(0, gets), rng.randint(100, 199)))
        elif r < 0.9:
            ops.append("gw:%d:%d" % (k, rng.randint(200, 299)))
        else:
            ops.append("gd:%d" % k)
    return "M %s %s | %s" % (rng.choice("si"), ",".join(ents) if ents else "-", " ".join(ops))


def gen_Y(rng):
    """One ExportTo into *YNode (untyped field first) / *ZNode (typed field first) over a script graph with heavy
    sharing and cycles: every object is reachable through interface{} AND typed destinations in both visit orders."""
    n = rng.randint(1, 5)
    kinds = ["n"] + [rng.choice("nnnml") for _ in range(n - 1)]
    ids = {k: [i for i, x in enumerate(kinds) if x == k] for k in "nml"}
    toks = []
    for i, k in enumerate(kinds):
        if k == "n":
            fs = []
            for f in ("Any", "Next", "M", "L", "Any2", "Kids", "Next2"):
                if rng.random() < 0.6:
                    pool = {"Any": list(range(n)), "Any2": list(range(n)), "Next": ids["n"], "Next2": ids["n"], "M": ids["m"], "L": ids["l"], "Kids": ids["l"]}[f]
                    if pool:
                        fs.append("%s=r%d" % (f, rng.choice(pool)))
            if rng.random() < 0.3:
                fs.append("V=%d" % rng.randint(1, 99))
            toks.append("n:" + ",".join(fs))
        elif k == "m":
            toks.append("m:" + ",".join("k%d=r%d" % (j, rng.choice(ids["n"])) for j in range(rng.randint(0, 3))))
        else:
            toks.append("l:" + ",".join("r%d" % rng.choice(ids["n"]) for _ in range(rng.randint(0, 3))))
    return "Y %s %s" % (rng.choice("YZ"), " ".join(toks))


def gen_B(rng):
    """a Go func(a, b *Node, s string) called with two nodes of a Y graph (often the same one) and a primitive"""
    toks = gen_Y(rng).split()
    ns = [i for i, t in enumerate(toks[2:]) if t.startswith("n:")]
    ra = rng.choice(ns)
    rb = ra if rng.random() < 0.4 else rng.choice(ns)
    sarg = rng.choice(["i%d" % rng.randint(-999, 999), "i0", "t", "F", "u", "n"])
    return "B %s %d %d %s %s" % (toks[1], ra, rb, sarg, " ".join(toks[2:]))


def gen_I(rng):
    """plain objectGoSlice: []interface{} by value / *[]interface{}; backing array with stale items in the spare capacity"""
    byptr = rng.random() < 0.65
    ncell = rng.randint(0, 7)
    cells = [("-" if rng.random() < 0.15 else str(rng.randint(1, 99))) for _ in range(ncell)]
    n0 = rng.randint(0, ncell)
    ops = []
    for _ in range(rng.randint(1, 20)):
        r = rng.random()
        if r < 0.14: ops.append("get:%d" % rng.randint(0, 8))
        elif r < 0.30: ops.append("set:%d:%s" % (rng.randint(0, 9), rng.choice(["n"] + [str(rng.randint(100, 199))] * 4)))
        elif r < 0.46: ops.append("len:%d" % rng.randint(0, 9))
        elif r < 0.52: ops.append("del:%d" % rng.randint(0, 8))
        elif r < 0.58: ops.append("push:%d" % rng.randint(200, 299))
        elif r < 0.64: ops.append("pop")
        elif not byptr: ops.append("len:%d" % rng.randint(0, 9))
        elif r < 0.76: ops.append("gt:%d" % rng.randint(0, 6))
        elif r < 0.84: ops.append("gs:%d" % rng.randint(0, 9))
        elif r < 0.90: ops.append("ga:%d" % rng.randint(300, 399))
        elif r < 0.94: ops.append("gr:%d" % rng.randint(0, 10))
        else: ops.append("gw:%d:%s" % (rng.randint(0, 8), rng.choice(["n", str(rng.randint(400, 499))])))
    return "I %s %d %s | %s" % ("p" if byptr else "v", n0, ",".join(cells) if cells else ".", " ".join(ops))


def gen_K(rng):
    n = rng.randint(1, 4)
    vals = [rng.randint(1, 30) for _ in range(n)]
    ops, ne, nn = [], 0, 0
    for _ in range(rng.randint(2, 20)):
        r = rng.random()
        if r < 0.22: ops.append("get:%d" % rng.randint(0, n)); ne += 1
        elif r < 0.40 and ne: ops.append("in:%d" % rng.randint(0, ne - 1)); nn += 1
        elif r < 0.50: ops.append("set:%d:%d" % (rng.randint(0, n), rng.randint(40, 99)))
        elif r < 0.62: ops.append("cp:%d:%d" % (rng.randint(0, n - 1), rng.randint(0, n - 1)))
        elif r < 0.72 and nn: ops.append("wx:%d:%d" % (rng.randint(0, nn - 1), rng.randint(100, 199)))
        elif r < 0.80 and ne: ops.append("wpx:%d:%d" % (rng.randint(0, ne - 1), rng.randint(200, 299)))
        elif r < 0.88: ops.append("gw:%d:%d" % (rng.randint(0, n), rng.randint(300, 399)))
        elif r < 0.94: ops.append("len:%d" % rng.randint(0, n + 6))
        else: ops.append("sort")
    return "K %d %s | %s" % (n + rng.choice([0, 0, 2]), ",".join(map(str, vals)), " ".join(ops))


def spec_K(line):
    """documented semantics for *[]Outer{In Inner{X}; Y}: element wrappers as in spec_W; a nested wrapper p.In is a
    reference to the In of whatever its parent wrapper denotes (slot while attached, the copy once detached)."""
    f = line.split()
    sl = [[int(x), 100 + i] for i, x in enumerate(f[2].split(","))] if f[2] != "-" else []
    H, at, N = [], {}, {}      # H[h] = ["att", i] | ["det", [x, y]];  N: elem handle -> nested handle number
    order = []                  # nested handle number -> parent elem handle
    def cur(h): return sl[H[h][1]] if H[h][0] == "att" else H[h][1]
    def detach(i):
        if i in at:
            h = at.pop(i); H[h] = ["det", list(sl[i])]
    out = []
    for tok in f[4:]:
        p = tok.split(":"); o = p[0]; g = ""
        if o == "get":
            i = int(p[1])
            if i < len(sl):
                if i not in at: at[i] = len(H); H.append(["att", i])
                g = "g=%d " % at[i]
            else: g = "g=- "
        elif o == "in":
            h = int(p[1])
            if h < len(H):
                if h not in N: N[h] = len(order); order.append(h)
                g = "n=%d " % N[h]
        elif o in ("set", "cp"):
            i = int(p[1])
            if o == "cp":
                j = int(p[2])
                if j >= len(sl): out.append(None); continue
                newv = list(sl[j])
            else:
                newv = [int(p[2]), 0]
            if i >= len(sl): sl.extend([[0, 0] for _ in range(i + 1 - len(sl))])
            detach(i); sl[i] = newv
        elif o == "wx":
            k = int(p[1])
            if k < len(order): cur(order[k])[0] = int(p[2])
        elif o == "wpx":
            h = int(p[1])
            if h < len(H): cur(h)[0] = int(p[2])
        elif o == "gw":
            if int(p[1]) < len(sl): sl[int(p[1])][0] = int(p[2])
        elif o == "len":
            n = int(p[1])
            for i in range(n, len(sl)): detach(i)
            if n > len(sl): sl.extend([[0, 0] for _ in range(n - len(sl))])
            else: del sl[n:]
        elif o == "sort":
            perm = sorted(range(len(sl)), key=lambda k: sl[k][0])
            sl = [sl[k] for k in perm]
            nat = {}
            for newpos, old in enumerate(perm):
                if old in at: nat[newpos] = at[old]; H[at[old]] = ["att", newpos]
            at = nat
        out.append("%slen=%d s=[%s] h=[%s] n=[%s]" % (g, len(sl), ",".join("%d/%d" % (x, y) for x, y in sl),
                   ",".join("%d/%d" % tuple(cur(h)) for h in range(len(H))), ",".join(str(cur(h)[0]) for h in order)))
    return out


def gen_A(rng):
    """argument conversion through the Go-func gateway: integer parameters of every kind, arguments at the kind's
    boundaries, beyond them (wrap), non-integral / special doubles, booleans, undefined, null; missing and extra args"""
    kinds = [rng.choice(list(KINDS) + ["bool", "float64", "bool", "float64"]) for _ in range(rng.randint(1, 4))]
    variadic = rng.random() < 0.4
    args = []
    for j in range(rng.randint(0, len(kinds) + 3)):
        k = kinds[min(j, len(kinds) - 1)]
        lo, hi = KINDS.get(k, (-(2**31), 2**31))
        r = rng.random()
        if r < 0.35:
            v = rng.choice([lo, hi, lo - 1, hi + 1, 0, -1, 1, hi // 2, 2 * hi + 1, lo + 1, hi - 1, 255, 256, 65535, 65536, -129, 2**31, 2**32, -(2**31) - 1])
            v = max(-SAFE, min(SAFE, v)); args.append("i%d" % v)
        elif r < 0.55:
            args.append("i%d" % rng.randint(-(2**rng.randint(1, 53)), 2**rng.randint(1, 53)))
        elif r < 0.75:
            x = rng.choice([-1, 1]) * (rng.randint(0, 2**20) + rng.random()) * 2.0**rng.randint(-3, 30)
            if x == int(x): x += 0.5
            args.append("f%016x" % f64bits(x))
        else:
            args.append(rng.choice(["t", "F", "u", "n", "fn", "fp", "fm", "fz"]))
    return "A %d %s | %s" % (1 if variadic else 0, ",".join(kinds), " ".join(args))


D_SRCS = ["arr", "arrHole", "arrEmpty", "arr2", "arrIter", "arrIterGone", "set", "setEmpty", "map", "u8", "i16", "dv", "ab", "alike",
          "alikeHole", "fn", "plain", "gen", "iterObj", "proxyArr"]
D_DSTS = ["sl", "st", "by", "a2", "a3", "ms", "mi"]


def gen_dispatch():
    """typed export dispatch: every catalogued source class x every destination class (exhaustive)"""
    return ["D %s %s" % (s, d) for s in D_SRCS for d in D_DSTS] + ["DS %s %s" % (s, d) for s in D_SRCS for d in D_DSTS]


def gen_gateways():
    """every arity / argument count / result shape up to the bounds below (all branches of both gateways)"""
    lines = []
    for nargs in range(0, 6):
        for va in (0, 1):
            if va and nargs == 0: continue
            for l in range(0, 9):
                for nout in range(0, 4):
                    for le in (0, 1):
                        for en in (0, 1):
                            if (en and not le) or (le and nout == 0): continue
                            lines.append("C %d %d %d %d %d %d" % (nargs, va, l, nout, le, en))
    for nf in range(0, 4):
        for va in (0, 1):
            for tl in range(0, 4):
                if tl and not va: continue
                for nout in range(0, 4):
                    for le in (0, 1):
                        if le and nout == 0: continue
                        for th in (0, 1):
                            lines.append("J %d %d %d %d %d %d" % (nf, va, tl, nout, le, th))
    return lines


def gen_X(rng):
    """script graph: objects (data properties and getters), arrays (with holes), Maps, Sets; references everywhere
    (sharing, cycles, self loops) except that Map / Set entries refer only to leaf objects (a cycle through a Map would
    overflow the host stack on the current code: that case is a separate E line)."""
    n = rng.randint(1, 7)
    kinds = ["o" if i == 0 and rng.random() < 0.5 else rng.choice("ooooaaams") for i in range(n)]
    leaf = [k == "o" and rng.random() < 0.4 for k in kinds]
    leaves = [i for i in range(n) if leaf[i]]
    toks = []
    for i, kind in enumerate(kinds):
        if kind in "ms":
            keys = sorted(rng.sample(range(10), rng.randint(0, 3)))
            fs, used = [], set()
            for k in keys:
                if leaves and rng.random() < 0.5:
                    r = rng.choice(leaves)
                    if kind == "s" and r in used: continue     # a Set keeps one copy of an element
                    used.add(r); fs.append("%d=r%d" % (k, r))
                else:
                    fs.append("%d=%d" % (k, 100 + k))            # distinct primitives
            toks.append(kind + ":" + ",".join(fs))
            continue
        keys = list(range(rng.randint(0, 4))) if kind == "a" else sorted(rng.sample(range(10), rng.randint(0, 4)))
        fs = []
        for k in keys:
            r = rng.random()
            if leaf[i] or r >= 0.55:
                v = "%d" % rng.randint(-9, 99)
            else:
                v = "r%d" % rng.randint(0, n - 1)
            if kind == "a" and rng.random() < 0.15: v = "h"
            elif kind == "o" and rng.random() < 0.2: v = "g" + v
            fs.append("%d=%s" % (k, v))
        toks.append(kind + ":" + ",".join(fs))
    return "X " + " ".join(toks)


E_CASES = [
    ("E var o={x:1}; [o,o]", "#0[#1{x:1},#1]"),
    ("E var a=[1]; a[1]=a; a", "#0[1,#0]"),
    ("E var o={}; o.self=o; o.l=[o,o]; o", "#0{l:#1[#0,#0],self:#0}"),
    ("E var s={v:1}; ({a:s,b:{c:s},d:[s,[s]]})", "#0{a:#1{v:1},b:#2{c:#1},d:#3[#1,#4[#1]]}"),
    ("E var x=[]; var y=[x,x]; [y,y,x]", None),
    ("E [1,,3]", None),
    ("E var h=[1,2,3]; delete h[1]; h", None),
    ("E var sp=[]; sp[5000]=1; sp[2]=7; sp", None),
    ("E Array.prototype[1]='P'; [1,,3]", None),
    ("E [[1,,2],[,]]", None),
    ("E var cm = new Map(); cm.set('self', cm); cm", None),
    ("E var cs = new Set(); cs.add(cs); [cs]", None),
    ("E var sm = new Map([[1,{a:1}]]); [sm, sm]", "#0[#1[<1,#2{a:1}>],#1]"),
    ("E ({a:[1,,3]})", None),
    ("E new Map([[1,{a:1}]])", None),
    ("E new Set([1,[2]])", None),
    ("E (function(){ return arguments })(1,2)", None),
]

# ------------------------------------------------------------------------------------------------ spec oracle (W lines)

def spec_W(line, observed=None):
    """Documented copy-on-change semantics (runtime.go ToValue doc comment): element wrappers are live references until the
    slot is re-assigned / deleted / cut off, then they denote a copy of the old value.  Returns one record per op:
    (len, slice, handle values, g)  — or None where the documentation leaves the outcome open."""
    f = line.split()
    fixed = f[1] == "1"
    live, _, spare = f[3].partition("/")
    vals = [] if live in ("-", "") else [int(x) for x in live.split(",")]
    cap = max(int(f[2]), len(vals) + (len(spare.split(",")) if spare else 0))
    sl = list(vals)
    H = []            # handle -> ["att", idx] | ["det", val]
    at = {}           # idx -> handle

    def detach(i):
        if i in at:
            h = at.pop(i); H[h] = ["det", sl[i]]

    def get(i):
        if i >= len(sl): return None
        if i not in at:
            at[i] = len(H); H.append(["att", i])
        return at[i]
    out = []
    for tok in f[5:]:
        p = tok.split(":"); g = ""
        o = p[0]
        if o == "get":
            h = get(int(p[1])); g = "g=%s " % ("-" if h is None else h)
        elif o == "reverse":
            L = len(sl)
            for lo in range(L // 2):
                up = L - 1 - lo
                vl, vu = sl[lo], sl[up]                       # both read first (wrappers created internally are not observable)
                detach(lo); sl[lo] = vu
                detach(up); sl[up] = vl
        elif o == "shift":
            L = len(sl)
            if L == 0: g = "g=- "
            else:
                g = "g=- " if fixed else "g=%d " % get(0)
                for i in range(1, L):
                    v = sl[i]; detach(i - 1); sl[i - 1] = v
                detach(L - 1); sl[L - 1] = 0
                if not fixed: del sl[L - 1:]
        elif o == "unshift":
            L = len(sl)
            if fixed:
                pass
            else:
                sl.append(0)
                for k2 in range(L - 1, -1, -1):
                    v = sl[k2]; detach(k2 + 1); sl[k2 + 1] = v
                detach(0); sl[0] = int(p[1]); cap = max(cap, len(sl))
        elif o == "splice":
            if not fixed:
                L = len(sl); s0 = min(int(p[1]), L); d0 = min(int(p[2]), L - s0); k0 = int(p[3])
                items = [900 + q for q in range(k0)]
                def put(i, v):
                    if i >= len(sl): sl.extend([0] * (i + 1 - len(sl)))
                    detach(i); sl[i] = v
                def dele(i):
                    if i < len(sl): detach(i); sl[i] = 0
                if k0 < d0:
                    for q in range(L - d0 - s0): put(s0 + q + k0, sl[s0 + q + d0])
                    for q in range(d0 - k0): dele(L - 1 - q)
                elif d0 < k0:
                    for q in range(L - d0 - s0): put(L - d0 - q + k0 - 1, sl[L - q - 1])
                for q, v in enumerate(items): put(s0 + q, v)
                n2 = L - d0 + k0
                for i in range(n2, len(sl)): detach(i)
                if n2 > len(sl): sl.extend([0] * (n2 - len(sl)))
                else: del sl[n2:]
                cap = max(cap, len(sl))
        elif o in ("set", "bad", "push", "def"):
            i = len(sl) if o == "push" else int(p[1])
            if i >= len(sl) and fixed:
                pass                                  # a Go array cannot grow: TypeError, nothing changes (fix 1c31366)
            else:
                if i >= len(sl):
                    sl.extend([0] * (i + 1 - len(sl))); cap = max(cap, len(sl))
                if o != "bad":
                    detach(i); sl[i] = int(p[-1])
        elif o == "del":
            i = int(p[1])
            if i < len(sl): detach(i); sl[i] = 0
        elif o == "len":
            n = int(p[1])
            if not fixed:
                for i in range(n, len(sl)): detach(i)
                if n > len(sl): sl.extend([0] * (n - len(sl))); cap = max(cap, n)
                else: del sl[n:]
        elif o == "swap":
            i, j = int(p[1]), int(p[2])
            if i >= len(sl) or j >= len(sl):
                pass                                  # the comparator shrank the slice: the swap is ignored (fix 60ad8ae)
            else:
                sl[i], sl[j] = sl[j], sl[i]
                hi, hj = at.pop(i, None), at.pop(j, None)
                if hi is not None: at[j] = hi; H[hi] = ["att", j]
                if hj is not None: at[i] = hj; H[hj] = ["att", i]
        elif o == "ww":
            w = int(p[1])
            if w < len(H):
                if H[w][0] == "att": sl[H[w][1]] = int(p[2])
                else: H[w][1] = int(p[2])
        elif o == "gw":
            if int(p[1]) < len(sl): sl[int(p[1])] = int(p[2])
        elif o == "ga":
            # whether there is spare capacity is a fact about the Go heap, not about the bridge: take it from the observation
            k = len(out)
            if observed is not None and k < len(observed):
                m = re.search(r"len=(\d+)", observed[k])
                room = bool(m) and int(m.group(1)) == len(sl) + 1
            else:
                room = len(sl) < cap
            if not fixed and room: sl.append(int(p[1]))
        elif o == "gr":
            # A Go-side re-allocation (append beyond capacity): an element wrapper is "a reference to the literal value"
            # (ToValue doc), i.e. like &a[i] in Go it keeps referring to the OLD backing array: every handed-out wrapper is
            # detached with its current value.  What must stay live is the container: a[i] evaluated afterwards.
            if not fixed and len(sl) <= int(p[1]):
                cap = int(p[1])
                for i in list(at): detach(i)
        elif o == "sort":
            order = sorted(range(len(sl)), key=lambda k: sl[k])      # stable
            sl = [sl[k] for k in order]
            nat = {}
            for newpos, old in enumerate(order):
                if old in at: nat[newpos] = at[old]; H[at[old]] = ["att", newpos]
            at = nat
        elif o == "pop":
            if len(sl) == 0: g = "g=- "
            else:
                i = len(sl) - 1
                if fixed:
                    g = "g=- "; detach(i); sl[i] = 0
                else:
                    h = get(i); g = "g=%d " % h; detach(i); del sl[i:]
        hv = [str(sl[h[1]]) if h[0] == "att" else str(h[1]) for h in H]
        out.append("%slen=%d s=[%s] h=[%s]" % (g, len(sl), ",".join(map(str, sl)), ",".join(hv)))
    return out


def strip_c(rec):
    return re.sub(r" c=\[[^\]]*\]$", "", rec)

# ------------------------------------------------------------------------------------------------ running

def run_sharded(ctx, exe, lines, shards=12, timeout=1800):
    """Feed `lines` to `shards` harness processes.  A chunk that times out or dies is retried once line by line group
    (smaller chunks, longer timeout); what still has no answer is INCONCLUSIVE (never a violation)."""
    if not lines:
        return []
    n = max(1, min(shards, len(lines) // 50 + 1))
    chunks = [lines[i::n] for i in range(n)]
    with ThreadPoolExecutor(max_workers=n) as ex:
        res = list(ex.map(lambda ch: ctx.run_lines([exe], ch, timeout=timeout), chunks))
    out = [None] * len(lines)
    for k, (rc, o, err) in enumerate(res):
        idx = list(range(k, len(lines), n))
        if len(o) != len(idx):
            # retry the unanswered tail in small pieces
            rest = idx[len(o):]
            for a in range(0, len(rest), 20):
                part = rest[a:a + 20]
                rc2, o2, err2 = ctx.run_lines([exe], [lines[i] for i in part], timeout=timeout)
                if len(o2) < len(part):
                    # find the single line that kills / stalls the harness: answer what we can
                    o2 = o2 + ["INCONCLUSIVE rc=%s" % rc2] * (len(part) - len(o2))
                    ctx.stats["inconclusive"] = ctx.stats.get("inconclusive", 0) + 1
                o += o2
        for i, l in zip(idx, o):
            out[i] = l
    return out


def model_lines(lines):
    return [("F" + l[1:]) if l.startswith("G ") else ("W" + l[1:]) if l.startswith("V ") else l for l in lines]


def classify_P(line, res):
    ops = [t.split(":")[0] for t in line.split()[2:]]
    target = line.split()[1]
    if "nil pointer to embedded struct" in res:
        return "nil-embedded-pointer-field"
    m = re.search(r"op=(\w+)", res)
    if m and m.group(1) in ("defnov", "seal", "freeze") and "nil pointer dereference" in res and target in ("mapStrInt", "mapIntS", "nilMap", "ptrNilMap"):
        return "gomap-reflect-define-without-value"
    return "panic:%s:%s:%s" % (target, m.group(1) if m else "?", re.sub(r"[^a-z ]", "", res.split("msg=")[-1].lower())[:40].strip().replace(" ", "-"))


SPEC_EXE = [None]      # the Lean model driver, when it built: judge = Spec.lean (the documented semantics as a Lean model)


def lean_spec(ctx, line):
    """documented semantics of a W history: Spec.lean through the driver (WS line); the python transcription spec_W is
    only the fallback when the Lean driver is not available (and the generator's length tracker)"""
    if SPEC_EXE[0]:
        rc, o, _ = ctx.run_lines([SPEC_EXE[0]], ["WS" + line[1:]], timeout=300)
        if o and not o[0].startswith("BAD"):
            return o[0].split(" ; ")
    return None


def check_W(ctx, h, line, hres, spec, stats):
    """returns list of (signature, summary, replay) for property-level failures on this history;
    `spec` = the Lean spec model's records for this line (None: ask the driver / fall back to python)"""
    viol = []
    hrec = hres.split(" ; ")
    if spec is None:
        spec = lean_spec(ctx, line)
    if spec is None:
        spec = spec_W(line, hrec)
    ops = line.split()[5:]
    has_gr_before = False
    for k, tok in enumerate(ops):
        if k >= len(hrec):
            break
        o = tok.split(":")[0]
        if o == "gr":
            has_gr_before = True
        got = hrec[k]
        want = spec[k] if k < len(spec) else None
        if got.startswith("INCONCLUSIVE"):
            break
        if got.startswith("PANIC"):
            fixed = line.split()[1] == "1"
            sig = "wrapcache-panic:%s:%s%s" % ("array" if fixed else "slice", o, ":after-go-realloc" if has_gr_before else "")
            viol.append((sig, "Go panic escapes script operation %s on a wrapped Go %s" % (tok, "array" if fixed else "slice"), k))
            break
        if want is None:
            break
        if strip_c(got) != want:
            sig = "stale-elem-wrapper-after-go-realloc" if has_gr_before else "wrapcache-live-view:%s" % o
            viol.append((sig, "wrapped slice is no longer a live view / snapshot wrong after %s (spec %s, got %s)" % (tok, want, strip_c(got)), k))
            break
    return viol


def main(ctx):
    quick = ctx.tier == "quick"
    rng = ctx.rng
    # the Go harness build does not depend on Lean: run both at once
    bg = ThreadPoolExecutor(max_workers=6)
    f_go = bg.submit(ctx.go_build)
    ctx.regen()
    ctx.lake_build(["GojaModel.C13.Props", "GojaModel.C13.Tie"])
    # the driver does not depend on Props/Tie: a broken theorem or tie must not switch the correspondence off
    ok, errs = ctx.lake_build(["model_c13"])
    # the axiom audit (and leanchecker) only read the built .olean files: run them while the streams run
    def audit_job():
        ctx.audit("GojaModel.C13.Props", expect_min=59)
        if not quick:
            ctx.leanchecker("GojaModel.C13.Props")
    f_audit = bg.submit(audit_job)
    ctx.log("lean built")
    h = f_go.result()
    ctx.log("go build done")
    model = ctx.model_exe()
    model_ok = ok and os.path.exists(model)
    ctx.trusted_base += [
        "Go reflect, the Go runtime's slice growth and memory model (modelled: backing arrays as cells, append-in-capacity, explicit re-allocation)",
        "amd64 float64->int64 conversion of out-of-range values (MinInt64), used by the model of toInt64/toUint64 beyond 2^63",
        "python spec oracle spec_W in run/c13.py: the documented copy-on-change semantics of the ToValue doc comment",
        "harness canonicalisation (relOf / classify / dump) in harness/cmd/c13/main.go; white-box hooks verif_hooks_c13.go (valueCache contents, swap)",
    ]
    ctx.assumptions += [
        "element type of the wrapped slice/array in W histories is struct{Field int}; other element kinds are covered by the T/P streams without a model",
        "integers beyond ±2^53 and uint64 > MaxInt64 coming back as float64 is documented behaviour (Export: 'For integer numbers it's int64, for any other numbers float64'; numbers are JS Numbers) — not a finding",
        "typed nil pointers / nil map[string]interface{} / nil *[]interface{} coming back as untyped nil is documented ('Nil is converted to null')",
    ]
    if h is None:
        f_audit.result()
        return ctx.finish(rule="harness did not build")

    # ---------------- cases
    corpus = []
    cdir = os.path.join(ROOT, "corpus", "C13")
    if os.path.isdir(cdir):
        for fn in sorted(os.listdir(cdir)):
            if fn.endswith(".txt"):
                corpus += [l.strip() for l in open(os.path.join(cdir, fn)) if l.strip() and not l.startswith("#")]
    corpus_set = set(corpus)
    nW = 800 if quick else 40000
    nP = 400 if quick else 40000
    nT = 200 if quick else 12000
    W = [l for l in corpus if l.startswith("W ")] + [gen_W(rng) for _ in range(nW)]
    NF = [l for l in corpus if l[:2] in ("N ", "F ", "G ")] + gen_numeric(rng, 6 if quick else 60)
    Sx = gen_shapes()
    P = [l for l in corpus if l.startswith("P ")] + [gen_P(rng) for _ in range(nP)]
    T = ["T %d %d" % (rng.getrandbits(62), m) for _ in range(nT) for m in (0, 1, 2)]
    E = [c[0] for c in E_CASES]

    # ---------------- correspondence: mechanism model vs implementation
    X = [l for l in corpus if l.startswith("X ")] + [gen_X(rng) for _ in range(400 if quick else 20000)]
    V = [l for l in corpus if l.startswith("V ")] + [gen_V(rng) for _ in range(300 if quick else 10000)]
    Mm = [l for l in corpus if l.startswith("M ")] + [gen_M(rng) for _ in range(300 if quick else 10000)]
    CJ = gen_gateways()
    Ig = [l for l in corpus if l.startswith("I ")] + [gen_I(rng) for _ in range(800 if quick else 30000)]
    Ag = [l for l in corpus if l.startswith("A ")] + [gen_A(rng) for _ in range(600 if quick else 30000)]
    Y = [l for l in corpus if l.startswith("Y ")] + [gen_Y(rng) for _ in range(1500 if quick else 60000)]
    Dd = gen_dispatch()
    Bg = [l for l in corpus if l.startswith("B ")] + [gen_B(rng) for _ in range(400 if quick else 15000)]
    both = W + NF + Sx + X + V + Mm + CJ + Ig + Ag + Y + Dd + Bg
    K = [l for l in corpus if l.startswith("K ")] + [gen_K(rng) for _ in range(400 if quick else 15000)]
    f_k = bg.submit(run_sharded, ctx, h, K, 3)

    # ---------------- all streams at once: implementation (sharded), model driver, and the oracle-only streams
    f_h = bg.submit(run_sharded, ctx, h, both, 8)
    f_t = bg.submit(run_sharded, ctx, h, T, 4)
    f_p = bg.submit(run_sharded, ctx, h, P, 4)
    def run_E():
        res = []
        for l in E:       # one process per line: a runaway recursion kills the process (fatal stack overflow)
            rc, o, err = ctx.run_lines([h], [l], timeout=600)
            if o:
                res.append(o[0])
            elif "stack overflow" in err or "stack exceeds" in err:
                res.append("FATAL host process killed: stack overflow")
            else:
                res.append("INCONCLUSIVE rc=%s" % rc)
        return res
    f_e = bg.submit(run_E)
    if model_ok:
        rc, mres, err = ctx.run_lines([model], model_lines(both), timeout=3600)
        if rc == 124:      # slow machine: inconclusive, once more with a longer limit
            rc, mres, err = ctx.run_lines([model], model_lines(both), timeout=7200)
        if len(mres) != len(both):
            ctx.obligation("corr:model-driver-ran", "correspondence", False, "model printed %d lines for %d inputs: %s" % (len(mres), len(both), err[-300:]))
            mres = mres + ["MODEL-DIED"] * (len(both) - len(mres))
    else:
        mres = [None] * len(both)
    hres = f_h.result()
    ctx.log("correspondence streams done")
    ctx.count(len(both))
    groups = {"W": [], "N": [], "F": [], "G": [], "S": [], "X": [], "V": [], "M": [], "C": [], "J": [], "I": [], "A": [], "Y": [], "D": [], "B": []}
    for i, l in enumerate(both):
        groups[l[0]].append(i)
    opmix, lens = {}, {}
    for gname, idxs in groups.items():
        bad = [i for i in idxs if mres[i] is not None and hres[i] != mres[i] and not hres[i].startswith("INCONCLUSIVE")]
        if model_ok:
            detail = "%d cases" % len(idxs)
            if bad:
                i = bad[0]
                detail = "first of %d disagreements: %s | impl: %s | model: %s" % (len(bad), both[i], hres[i][:300], (mres[i] or "")[:300])
            ctx.obligation("corr:%s-model-vs-impl" % gname, "correspondence", not bad, detail)
        ctx.stats["cases_" + gname] = len(idxs)

    # ---------------- property-level judgement
    found = {}   # signature -> (summary, replay)
    def report(sig, summary, replay):
        if sig not in found:
            found[sig] = (summary, replay)

    for i in groups["D"]:
        ctx.nontriv(both[i])
        r = hres[i]
        if r.startswith("INCONCLUSIVE"): continue
        if both[i].startswith("DS "):
            # the property: the same object through the same destination type is ONE Go value
            if r == "split" or r.startswith("PANIC"):
                f2 = both[i].split()
                sig = "set-exportToMap-not-cached" if (r == "split" and f2[1].startswith("set") and f2[2] in ("ms", "mi")) else "typed-export-identity:%s:%s" % (f2[1], f2[2])
                report(sig, "one ExportTo of [x, x] (x = %s) into a slice of %s: %s" % (f2[1], f2[2], r), {"kind": "input", "lines": [both[i]], "expected": ["shared"], "observed": [r]})
        elif r.startswith("PANIC") or (mres[i] is not None and r != mres[i]):
            f2 = both[i].split()
            report("typed-export-dispatch:%s:%s" % (f2[1], f2[2]), "ExportTo of %s into %s: implementation %s, documented %s" % (f2[1], f2[2], r, mres[i]),
                   {"kind": "input", "lines": [both[i]], "expected": [mres[i]], "observed": [r]})
    for gname in ("M", "C", "J", "I", "A", "B"):
        for i in groups[gname]:
            ctx.nontriv(both[i])
            if hres[i].startswith("INCONCLUSIVE"): continue
            if "PANIC" in hres[i] or (mres[i] is not None and hres[i] != mres[i]):
                what = {"M": "map-wrapper", "C": "gofunc-gateway", "J": "jsfunc-gateway", "I": "goslice-live-view", "A": "gofunc-arg-conversion", "B": "gofunc-composite-arg"}[gname]
                if gname == "I":
                    ishrunk = ctx.stats.get("I_shrunk", 0)
                    if ishrunk >= 3:
                        continue          # three minimised replays are enough; the obligation already records the count
                    ctx.stats["I_shrunk"] = ishrunk + 1
                    # shrink the history and name the op after which the views diverge
                    pre, ops_i = both[i].split()[:5], both[i].split()[5:]
                    def bad_at(sub, pre=pre):
                        l2 = " ".join(pre + sub)
                        rc, o, _ = ctx.run_lines([h], [l2], timeout=300)
                        rc2, m2, _ = ctx.run_lines([model], [l2], timeout=300) if model_ok else (0, o, "")
                        return bool(o) and bool(m2) and o[0] != m2[0]
                    try:
                        sub = Ctx.ddmin(ops_i, bad_at)
                    except Exception:
                        sub = ops_i
                    l2 = " ".join(pre + sub)
                    rc, o, _ = ctx.run_lines([h], [l2], timeout=300)
                    rc2, m2, _ = ctx.run_lines([model], [l2], timeout=300) if model_ok else (0, [None], "")
                    report("goslice-live-view:%s" % "+".join(sorted(set(x.split(":")[0] for x in sub))),
                           "plain []interface{} wrapper: script view / Go value differ from the documented behaviour: %s -> %s (expected %s)" % (l2, (o or ["?"])[0][:300], (m2 or ["?"])[0]),
                           {"kind": "history", "lines": [l2], "expected": m2, "observed": o})
                    continue
                if gname == "B":
                    if ctx.stats.get("B_reported", 0) >= 3:
                        continue          # three replays are enough; the obligation records the count
                    ctx.stats["B_reported"] = ctx.stats.get("B_reported", 0) + 1
                report("%s:%s" % (what, re.sub(r"\W+", "-", both[i])[:40]), "%s: implementation %s, documented behaviour (model) %s" % (both[i], hres[i][:300], (mres[i] or "")[:300]),
                       {"kind": "history" if gname == "M" else "input", "lines": [both[i]], "expected": [mres[i]], "observed": [hres[i]]})
    # the judge for W / V histories: the Lean spec model (Spec.lean), run through the driver on the same lines
    wspec = {}
    if model_ok:
        SPEC_EXE[0] = model
        widx = groups["W"] + groups["V"]
        rc, sres, err = ctx.run_lines([model], ["WS" + both[i][1:] for i in widx], timeout=3600)
        if len(sres) == len(widx):
            wspec = {i: r.split(" ; ") for i, r in zip(widx, sres) if not r.startswith("BAD")}
        ctx.obligation("oracle:lean-spec-model-ran", "correspondence", len(wspec) == len(widx), "%d of %d W/V histories judged by Spec.lean" % (len(wspec), len(widx)))
    ctx.stats["W_judged_by_lean_spec"] = len(wspec)
    for i in groups["W"] + groups["V"]:
        line = both[i] if both[i].startswith("W ") else "W" + both[i][1:]
        isV = both[i].startswith("V ")
        ops = line.split()[5:]
        lens[len(ops)] = lens.get(len(ops), 0) + 1
        for t in ops:
            opmix[t.split(":")[0]] = opmix.get(t.split(":")[0], 0) + 1
        if len(ops) >= 3:
            ctx.nontriv(line)
        for sig, summary, k in check_W(ctx, h, line, hres[i], wspec.get(i), ctx.stats):
            # shrink: shortest prefix is k+1 ops; then ddmin inside the prefix
            pre = line.split()[:5]
            def hline(l2, isV=isV):
                return ("V" + l2[1:]) if isV else l2
            def fails(sub, sig=sig, pre=pre):
                l2 = " ".join(pre + sub)
                rc, o, _ = ctx.run_lines([h], [hline(l2)], timeout=300)
                return bool(o) and any(s == sig for s, _, _ in check_W(ctx, h, l2, o[0], None, {}))
            sub = ops[:k + 1]
            if sig not in found:
                try:
                    if both[i] not in corpus_set:      # corpus lines are minimised already
                        sub = Ctx.ddmin(sub, fails)
                except Exception:
                    pass
                l2 = " ".join(pre + sub)
                rc, o, _ = ctx.run_lines([h], [hline(l2)], timeout=300)
                if isV: sig = sig.replace("wrapcache", "structfield")
                report(sig, summary, {"kind": "history", "lines": [hline(l2)], "expected": lean_spec(ctx, l2) or spec_W(l2), "observed": o})
    # numeric: exact part of the table is a property-level statement
    for i in groups["N"]:
        if hres[i].startswith("INCONCLUSIVE"): continue
        _, k, v = both[i].split(); v = int(v)
        ctx.nontriv(both[i])
        m = re.match(r"(?:i64|f64 intval) (-?\d+) to=(-?\d+)$", hres[i])
        if not (-SAFE <= v <= SAFE) and (m is None or abs(int(m.group(1)) - v) > abs(v) >> 52):
            # beyond ±2^53 the documented result is the nearest float64: anything further away is a wrong number
            report("numeric-roundtrip-big:%s" % k, "ToValue/Export of %s(%d) gives %s (not the nearest double)" % (k, v, hres[i]), {"kind": "input", "lines": [both[i]], "observed": [hres[i]]})
        if -SAFE <= v <= SAFE and hres[i] != "i64 %d to=%d" % (v, v):
            report("numeric-roundtrip:%s" % k, "ToValue/Export/ExportTo of %s(%d) gives %s" % (k, v, hres[i]), {"kind": "input", "lines": [both[i]], "observed": [hres[i]]})
    for gname in ("F", "G"):
        for i in groups[gname]:
            ctx.nontriv(both[i])
            cls = both[i][2:]
            if hres[i].startswith("INCONCLUSIVE"): continue
            if not hres[i].endswith(" to=" + cls):
                report("float-roundtrip", "ExportTo own float type of %s gives %s" % (cls, hres[i]), {"kind": "input", "lines": [both[i]], "observed": [hres[i]]})
    wraps = {}
    for i in groups["S"]:
        ctx.nontriv(both[i])
        wraps[hres[i]] = wraps.get(hres[i], 0) + 1
        if hres[i].startswith("INCONCLUSIVE"): continue
        if hres[i].startswith("PANIC") or (mres[i] is not None and hres[i] != mres[i]):
            report("shape-roundtrip:" + " ".join(t for t in both[i].split()[1:] if not t.startswith("v=")),
                   "ToValue/Export of shape %s: implementation %s, documented table %s" % (both[i], hres[i], mres[i]),
                   {"kind": "input", "lines": [both[i]], "expected": [mres[i]], "observed": [hres[i]]})
    xspec = {}
    if model_ok:
        rc, xs, err = ctx.run_lines([model], ["XS" + both[i][1:] for i in groups["X"]], timeout=3600)
        if len(xs) == len(groups["X"]):
            xspec = dict(zip(groups["X"], xs))
    xshared = 0
    for i in groups["X"]:
        ctx.nontriv(both[i])
        if re.search(r"#(\d+)(?![\[{\d])", hres[i]):
            xshared += 1      # at least one back-reference: sharing or a cycle was exercised
        if hres[i].startswith("INCONCLUSIVE"): continue
        want = xspec.get(i, mres[i])     # the judge: every object through get-then-put (one Go value per script object)
        if hres[i].startswith("PANIC") or (want is not None and hres[i] != want):
            mapset = any(tk[:2] in ("m:", "s:") for tk in both[i].split()[1:])
            sig = "mapset-export-ignores-cache" if mapset and not hres[i].startswith("PANIC") else "export-sharing:" + re.sub(r"\W+", "-", both[i])[:50]
            if sig == "mapset-export-ignores-cache" and sig in found:
                continue
            line2 = both[i]
            if sig == "mapset-export-ignores-cache" and both[i] in corpus_set:
                hres_i = hres[i]
            elif sig == "mapset-export-ignores-cache":
                # shrink: drop fields while implementation and isomorphic image still differ
                toks = both[i].split(); changed = True
                while changed:
                    changed = False
                    for ti in range(1, len(toks)):
                        kind, _, body = toks[ti].partition(":")
                        parts = [x for x in body.split(",") if x]
                        for j in range(len(parts)):
                            cand = toks[:ti] + [kind + ":" + ",".join(parts[:j] + parts[j + 1:])] + toks[ti + 1:]
                            if kind == "a" and j != len(parts) - 1: continue     # keep array indices dense
                            l2 = " ".join(cand)
                            rc, o, _ = ctx.run_lines([h], [l2], timeout=300)
                            rc2, s2, _ = ctx.run_lines([model], ["XS" + l2[1:]], timeout=300)
                            if o and s2 and o[0] != s2[0] and not o[0].startswith(("PANIC", "JSERR")):
                                toks, changed = cand, True
                                break
                        if changed: break
                line2 = " ".join(toks)
                rc, o, _ = ctx.run_lines([h], [line2], timeout=300)
                rc2, s2, _ = ctx.run_lines([model], ["XS" + line2[1:]], timeout=300)
                hres_i, want = (o or ["?"])[0], (s2 or ["?"])[0]
            else:
                hres_i = hres[i]
            report(sig, "Export of the script graph %s: implementation %s, isomorphic image (one Go value per script object) %s" % (line2, hres_i, want),
                   {"kind": "input", "lines": [line2], "expected": [want], "observed": [hres_i]})
    ctx.stats["X_graphs_with_sharing_or_cycle"] = xshared
    ctx.stats["wrap_rel_seen"] = wraps
    ctx.stats["W_opmix"] = opmix
    ctx.stats["W_history_lengths"] = dict(sorted(lens.items()))

    # ---------------- harness-only streams with in-harness / python oracles
    ctx.log("W judged")
    tres = f_t.result()
    ctx.count(len(T))
    tkinds = {}
    tbad = [i for i, r in enumerate(tres) if not r.startswith("ok") and not r.startswith("INCONCLUSIVE")]
    for i, r in enumerate(tres):
        if r.startswith("ok"):
            key = r.split(" rel=")[0]
            tkinds[key] = tkinds.get(key, 0) + 1
            ctx.nontriv(T[i])
    ctx.stats["T_kinds"] = dict(sorted(tkinds.items(), key=lambda kv: -kv[1])[:40])
    ctx.obligation("oracle:random-reflect-types-roundtrip", "correspondence", not tbad, "%d cases; %s" % (len(T), ("first failure: %s -> %s" % (T[tbad[0]], tres[tbad[0]][:400])) if tbad else "all ok"))
    for i in tbad[:3]:
        report("reflect-type-roundtrip:" + re.sub(r"[^A-Za-z]+", "-", tres[i].split(" type=")[0])[:50], "random Go type round trip: %s" % tres[i][:300],
               {"kind": "input", "lines": [T[i]], "observed": [tres[i]]})

    ctx.log("T done")
    pres = f_p.result()
    ctx.count(len(P))
    ptargets = {}
    for i, r in enumerate(pres):
        t = P[i].split()[1]
        ptargets[t] = ptargets.get(t, 0) + 1
        ctx.nontriv(P[i])
        if r != "ok" and not r.startswith("INCONCLUSIVE"):
            sig0 = classify_P(P[i], r)
            if sig0 in found:
                continue
            head, ops = P[i].split()[:2], P[i].split()[2:]
            def fails(sub, head=head, sig0=sig0):
                l2 = " ".join(head + sub)
                rc, o, _ = ctx.run_lines([h], [l2], timeout=300)
                return bool(o) and o[0] != "ok" and classify_P(l2, o[0]) == sig0
            try:
                sub = Ctx.ddmin(ops, fails)
            except Exception:
                sub = ops
            l2 = " ".join(head + sub)
            rc, o, _ = ctx.run_lines([h], [l2], timeout=300)
            report(classify_P(l2, o[0] if o else r), "Go panic escapes a script operation on a wrapper: %s -> %s" % (l2, (o[0] if o else r)[:200]),
                   {"kind": "history", "lines": [l2], "expected": ["ok (no host panic)"], "observed": o})
    ctx.stats["P_targets"] = ptargets

    ctx.log("P done")
    eres = f_e.result()
    ctx.count(len(E))
    for (line, want), got in zip(E_CASES, eres):
        ctx.nontriv(line)
        if got.startswith("FATAL"):
            sig = "mapset-export-ignores-cache" if ("new Map" in line or "new Set" in line) else "export-fatal:" + re.sub(r"\W+", "-", line)[:40]
            report(sig, "Export of %s: %s" % (line[2:], got), {"kind": "input", "lines": [line], "expected": ["terminates with the cycle preserved"], "observed": [got]})
        elif got.startswith("PANIC"):
            sig = "export-panic:" + re.sub(r"\W+", "-", line)[:40]
            report(sig, "Go panic escapes Export/ExportTo of %s: %s" % (line[2:], got[:200]), {"kind": "input", "lines": [line], "observed": [got]})
        elif want is not None and got != want and ("new Map" in line or "new Set" in line):
            report("mapset-export-ignores-cache", "Export of %s loses sharing: got %s want %s" % (line[2:], got, want),
                   {"kind": "input", "lines": [line], "expected": [want], "observed": [got]})
        elif want is not None and got != want:
            report("export-sharing:" + re.sub(r"\W+", "-", line)[:40], "Export of %s loses sharing/cycles: got %s want %s" % (line[2:], got, want),
                   {"kind": "input", "lines": [line], "expected": [want], "observed": [got]})
    ctx.stats["E_results"] = dict(zip(E, eres))

    # K: nested wrappers (element wrapper -> field wrapper): documented semantics vs implementation
    kres = f_k.result()
    ctx.count(len(K))
    kbad = []
    kspec = {}
    def lean_spec_K(line):
        """documented semantics of a K history: NestedSpec.lean through the driver; python spec_K only as fallback"""
        if model_ok:
            rc, o, _ = ctx.run_lines([model], ["KS" + line[1:]], timeout=300)
            if o and not o[0].startswith("BAD"):
                return [None if x == "?" else x for x in o[0].split(" ; ")]
        return spec_K(line)
    if model_ok:
        rc, ks, err = ctx.run_lines([model], ["KS" + l[1:] for l in K], timeout=3600)
        if len(ks) == len(K):
            kspec = {l: [None if x == "?" else x for x in r.split(" ; ")] for l, r in zip(K, ks) if not r.startswith("BAD")}
    ctx.stats["K_judged_by_lean_spec"] = len(kspec)
    for line, r in zip(K, kres):
        ctx.nontriv(line)
        if r.startswith("INCONCLUSIVE"):
            continue
        spec = kspec.get(line) or spec_K(line)
        for k, (got, want) in enumerate(zip(r.split(" ; "), spec)):
            if want is None:
                break
            if got != want:
                kbad.append((line, k, got, want))
                break
    ctx.stats["K_cases"] = len(K)
    if kbad:
        line, k, got, want = min(kbad, key=lambda x: (x[1], len(x[0])))
        pre, ops_k = line.split()[:4], line.split()[4:k + 5]
        def kfails(sub, pre=pre):
            l2 = " ".join(pre + sub)
            rc, o, _ = ctx.run_lines([h], [l2], timeout=300)
            if not o: return False
            for g, w in zip(o[0].split(" ; "), lean_spec_K(l2)):
                if w is None: return False
                if g != w: return True
            return False
        try:
            ops_k = Ctx.ddmin(ops_k, kfails)
        except Exception:
            pass
        l2 = " ".join(pre + ops_k)
        rc, o, _ = ctx.run_lines([h], [l2], timeout=300)
        sig = "PANIC" in (o or [""])[0] and "nested-wrapper-panic" or "nested-wrapper-not-repointed"
        report(sig, "a nested field wrapper (p.In) does not follow the value its parent element wrapper denotes: %s -> %s (documented: %s)" % (l2, (o or ["?"])[0][:300], " ; ".join(x or "?" for x in lean_spec_K(l2))[:300]),
               {"kind": "history", "lines": [l2], "expected": lean_spec_K(l2), "observed": o})

    # Y: within ONE ExportTo the same script object must be the same Go value at every destination of the same type,
    # whatever the order of untyped (interface{}) and typed (struct pointer / named map / typed slice) visits
    ymulti = 0
    ybad = []
    for i in groups["Y"]:
        line, r = both[i], hres[i]
        ctx.nontriv(line)
        if r.startswith("INCONCLUSIVE"):
            continue
        if re.search(r"#(\d+)(?![*\[{\d])", r):
            ymulti += 1          # some identity is reached more than once
        if r.startswith(("SPLIT", "PANIC", "NIL", "MISSINGKEY", "LEN", "VALUE", "EXPORTERR")) or (mres[i] is not None and r != mres[i]):
            ybad.append((line, r, mres[i]))
    ctx.stats["Y_graphs_with_a_shared_identity"] = ymulti
    if ybad:
        line, r, want = min(ybad, key=lambda lr: len(lr[0]))
        toks = line.split()
        def ybad_now(cand):
            l2 = " ".join(cand)
            rc, o, _ = ctx.run_lines([h], [l2], timeout=300)
            rc2, m2, _ = ctx.run_lines([model], [l2], timeout=300) if model_ok else (0, [None], "")
            if not o: return None
            if o[0].startswith("SPLIT") or (m2 and m2[0] is not None and o[0] != m2[0] and not o[0].startswith("JSERR")):
                return (o[0], m2[0] if m2 else None)
            return None
        changed = True
        while changed:
            changed = False
            for i in range(2, len(toks)):
                kind, _, body = toks[i].partition(":")
                parts = [x for x in body.split(",") if x]
                for j in range(len(parts)):
                    cand = toks[:i] + [kind + ":" + ",".join(parts[:j] + parts[j + 1:])] + toks[i + 1:]
                    if ybad_now(cand):
                        toks, changed = cand, True
                        break
                if changed:
                    break
        l2 = " ".join(toks)
        res = ybad_now(toks) or (r, want)
        cls = re.search(r"class=(\S+)", res[0])
        report("exportTo-identity-split:%s" % (cls.group(1) if cls else "structure"),
               "one ExportTo into mixed interface{} / typed destinations: %s -> %s (one Go value per (script object, destination type): %s)" % (l2, res[0][:300], (res[1] or "?")[:300]),
               {"kind": "input", "lines": [l2], "expected": [res[1]], "observed": [res[0]]})

    f_audit.result()
    ctx.log("audit done")
    for sig, (summary, replay) in found.items():
        ctx.violation(sig, summary, replay)
    for l in W[:3] + P[:2] + T[:2] + Sx[40:43]:
        ctx.sample(l)
    return ctx.finish(level="proof",
                      rule="W: random histories (<=20 ops, 15 op kinds incl. Go-side writes/append/re-allocation) on *[]S / *[N]S, each compared step by step "
                           "with the Lean mechanism model and with the documented semantics; distinct = distinct history with >=3 ops. N/F/G: every integer kind "
                           "at its boundaries, ±2^53±1 and random magnitudes, floats of every class; S: exhaustive over shape classes x pointer depth 0..3 x 10 concrete "
                           "types; T: random reflect-built types (nesting<=4) x 3 FieldNameMappers; P: random script op sequences (<=20 of 30 op kinds) on 14 wrapper "
                           "targets, oracle = no Go panic; E: script graphs with sharing/cycles/holes")


def replay(ctx, path):
    r = json.load(open(path))
    h = ctx.go_build()
    ctx.lake_build(["model_c13"])
    lines = r.get("lines", [])
    rc, o, err = ctx.run_lines([h], lines, timeout=120)
    print("signature:", r.get("signature"))
    for l, x in zip(lines, o):
        if l.startswith("Y "):
            print("target        : *%sNode (struct{Any interface{}; Next *T; M map; L []*T; Any2 interface{}; ...}); script graph nodes n0.. as listed" % l.split()[1])
        print("input         :", l)
        print("implementation:", x)
        if l[0] in "WNFGSXVMCJIAYDB" and os.path.exists(ctx.model_exe()):
            rc2, m, _ = ctx.run_lines([ctx.model_exe()], model_lines([l]), timeout=300)
            print("mechanism model:", m[0] if m else "?")
        if l[0] == "K":
            print("documented spec:", " ; ".join(x or "?" for x in spec_K(l)))
        if l[0] in "WV":
            SPEC_EXE[0] = ctx.model_exe() if os.path.exists(ctx.model_exe()) else None
            print("documented spec:", " ; ".join(lean_spec(ctx, "W" + l[1:]) or spec_W("W" + l[1:])))
    if r.get("expected"):
        print("expected      :", r["expected"])
    return 0
