"""
C03 — runtime consistent and reusable after every abrupt outcome.   (design/C03.md)

Run order: Lean theorems + audit; Go harness built from /repo's working tree; then two streams of
histories of <= 6 API calls with a fault injected at the k-th probe of a call and a call-depth limit:

  A  "modelled": behaviour trees rendered both as JS (+ Go-level natives) for the real goja and as
     token lines for the Lean model (model_c03).  Compared: outcome of every call, the
     call/try/iter/ref stack lengths seen at every probe, the idle state vector after every call.
  B  "wild": JS using constructs outside the model (generators, async, sort comparators, getters,
     labelled loops, with, classes …).  Only the spec-level oracle applies.

Spec-level oracle (judge of the PROPERTY, independent of the mechanism model): after every API call the
white-box state must satisfy the model's `Idle` predicate, and after the history a behavioural probe
(stack-trace text included) must give the same transcript as on a fresh runtime.
"""
import json, os, random, sys
from vlib import *

IDLE = "0,-1,1,1,1,0,0,0,0,0,0,0,1,1,0"
FIELDS = ["sp", "sb", "prgNil", "stashGlobal", "privEnvNil", "callStack", "tryStack", "iterStack", "refStack", "jobQueue", "interrupted",
          "privEnvDepth", "curAsyncRunnerNil", "newTargetNil", "args"]
CATCHABLE = ["t", "o", "g", "x"]


# ------------------------------------------------------------------------------------------- generator
class Gen:
    """Builds one history: model tokens + harness JSON from the same behaviour trees."""

    def __init__(self, rng):
        self.rng = rng
        self.prelude = []
        self.natives = {}
        self.nid = 0
        self.pid = 0
        # syntactic context of the statement being generated
        self._loop = False      # inside a for-of body of the current function: `break` allowed
        self._func = False      # inside a function body: `return` allowed
        self._retval = ""       # what `return` returns here (iterator return() callbacks must return an object)
        self.slots = 0          # generator objects live in global variables g1..g<slots>
        self._gen = None        # "yield 1" / "await 0" when directly inside a generator / async function body

    def ctx(self, loop=None, func=None, retval=None, gen=None):
        """context manager: generate a sub-tree under another syntactic context"""
        g = self

        class C:
            def __enter__(s):
                s.old = (g._loop, g._func, g._retval, g._gen)
                if loop is not None:
                    g._loop = loop
                if func is not None:
                    g._func = func
                    g._loop = False if loop is None else loop
                    g._retval = retval or ""
                    g._gen = gen          # a nested function is not the generator's own frame

            def __exit__(s, *a):
                g._loop, g._func, g._retval, g._gen = s.old
        return C()

    def fresh(self, p):
        self.nid += 1
        return "%s%d" % (p, self.nid)

    def probe(self):
        self.pid += 1
        return self.pid

    # returns (tokens, js)
    def beh(self, d, strict=None):
        if strict is None:
            strict = getattr(self, '_strict', False)
        r = self.rng
        if d <= 0:
            c = r.choice(["P", "P", "P", "P", "T", "K", "tmpP", "tmpP", "BR", "RT", "gop"])
        else:
            c = r.choice(["P", "S", "S", "S", "call", "forEach", "try", "try", "try", "forOf", "forOfC", "block",
                          "gnat", "job", "tmpP", "T", "ref", "priv", "priv", "BR", "RT", "gen", "gen", "gop", "gop", "gop", "async", "async"])
            if strict and c == "ref":
                c = "block"          # class bodies are strict code: no `with`
        if self._gen and r.random() < 0.22:
            if self._gen.startswith("await") and r.random() < 0.3:
                # await of a REJECTED promise: the continuation is asyncRunner.onRejected → generator.nextThrow, i.e. the
                # resume point completes with a throw (same curAsyncRunner bracket as onFulfilled); RJ is a rejected promise made
                # by the prelude: the await itself makes no call (a native call here could hit the depth limit)
                return ["S", "YD", "T"], "await RJ;"
            return ["YD"], self._gen
        if c == "gop" and self.slots == 0:
            c = "gen" if d > 0 else "P"
        if c == "gen":
            # create a generator whose body is 1..3 segments separated by top-level yields
            self.slots += 1
            slot = self.slots
            n = r.randint(0, 2)
            nseg = r.randint(1, 3)
            segs = []
            with self.ctx(func=True, gen="yield 1;"):
                for _ in range(nseg):
                    segs.append(self.beh(d - 1))
            toks = list(segs[-1][0])
            for st, _ in reversed(segs[:-1]):
                toks = ["YT"] + st + toks
            js = " yield 1; ".join(j for _, j in segs)
            return ["GC", str(slot), str(n)] + toks, "g%d = (function*(){ %s })(%s);" % (slot, js, ",".join("0" * n))
        if c == "async":
            # an async function whose body is 1..3 segments separated by top-level awaits of a settled value; the
            # continuations run as promise reaction jobs when the outermost call leaves
            n = r.randint(0, 2)
            nseg = r.randint(1, 3)
            segs = []
            with self.ctx(func=True, gen="await 0;"):
                for _ in range(nseg):
                    segs.append(self.beh(d - 1))
            toks = list(segs[-1][0])
            for st, _ in reversed(segs[:-1]):
                toks = ["YT"] + st + toks
            js = " await 0; ".join(j for _, j in segs)
            return ["AC", str(n)] + toks, "(async function(){ %s })(%s);" % (js, ",".join("0" * n))
        if c == "gop":
            slot = r.randint(1, self.slots)
            op = r.choice(["GN", "GN", "GN", "GT", "GR"])
            if op == "GN":
                return ["Fn", "0", "GN", str(slot)], "g%d.next();" % slot
            if op == "GT":
                return ["Fn", "1", "GT", str(slot)], "g%d.throw(new Error('gt'));" % slot
            return ["Fn", "1", "GR", str(slot)], "g%d.return(0);" % slot
        if c == "BR" and not self._loop:
            c = "P"
        if c == "RT" and r.random() < 0.5:
            c = "P"
        if c == "RT" and not self._func:
            c = "P"
        if c == "BR":
            return ["BR"], "break;"
        if c == "RT":
            return ["RT"], "return %s;" % self._retval
        if c == "K":
            return ["K"], ";"
        if c == "P":
            i = self.probe()
            return ["P", str(i)], "P(%d);" % i
        if c == "tmpP":
            i = self.probe()
            n = r.randint(1, 3)
            return ["Ft", str(n), "P", str(i)], "[%sP(%d)];" % ("0," * n, i)
        if c == "T":
            return ["T"], "throw new Error('t');"
        if c == "S":
            a, ja = self.beh(d - 1)
            b, jb = self.beh(d - 1)
            return ["S"] + a + b, ja + " " + jb
        if c == "call":
            n = r.randint(0, 2)
            with self.ctx(func=True):
                b, jb = self.beh(d - 1)
            return ["Fc", str(n)] + b, "(function(){ %s })(%s);" % (jb, ",".join("0" * n))
        if c == "forEach":
            with self.ctx(func=True):
                b, jb = self.beh(d - 1)
            return ["Fn", "1", "G", "3"] + b, "[0].forEach(function(){ %s });" % jb
        if c == "try":
            hc, hf = r.choice([(1, 0), (0, 1), (1, 1)])
            b, jb = self.beh(d - 1)
            h, jh = self.beh(d - 2) if hc else (["K"], "")
            with self.ctx(loop=False, func=False):          # no break / return out of a finally block
                f, jf = self.beh(d - 2) if hf else (["K"], "")
            js = "try { %s }" % jb
            if hc:
                js += " catch(e%d) { %s }" % (d, jh)
            if hf:
                js += " finally { %s }" % jf
            return ["Y", str(hc), str(hf)] + b + h + f, js
        if c == "forOf":
            with self.ctx(loop=True):
                b, jb = self.beh(d - 1)
            return ["Fo"] + b, "for (var v%d of [0]) { %s }" % (d, jb)
        if c == "forOfC":
            with self.ctx(func=True, retval="{}"):
                rt, jr = self.beh(d - 2)
            with self.ctx(loop=True):
                # no yield / await inside a for-of over an iterator with a JS return(): generator.return() closes such an
                # iterator through restoreStacks (record still on the stack, shielded by vm.try), which differs from the
                # `return` statement the model resumes with (enumPopClose) — outside the model's scope (design/C03.md)
                old_gen, self._gen = self._gen, None
                try:
                    b, jb = self.beh(d - 1)
                finally:
                    self._gen = old_gen
            it = self.fresh("it")
            js = "var %s = MKIT(function(){ %s return {}; }); for (var w%d of %s) { %s }" % (it, jr, d, it, jb)
            return ["S", "Fn", "1", "K", "FO", "G", "0"] + rt + b, js
        if c == "block":
            b, jb = self.beh(d - 1)
            z = self.fresh("z")
            return ["Fb"] + b, "{ let %s = 1; (function(){ return %s }); %s }" % (z, z, jb)
        if c == "priv":
            # a class body with private names evaluates its computed member key in the SAME call frame, with the private
            # environment pushed: the key throws right there (null.x), or is harmless, or runs a behaviour in an arrow
            # function called in place
            x = self.fresh("X")
            v = r.choice(["T", "K", "call"])
            if v == "T":
                return ["Fp", "T"], "class %s { #p = 1; [null.x](){} }" % x
            if v == "K":
                return ["Fp", "K"], "class %s { #p = 1; [0](){} }" % x
            old = getattr(self, '_strict', False)
            self._strict = True
            try:
                with self.ctx(func=True):
                    b, jb = self.beh(d - 1)
            finally:
                self._strict = old
            return ["Fp", "Fc", "0"] + b, "class %s { #p = 1; [(() => { %s })()](){} }" % (x, jb)
        if c == "ref":
            # `with` makes the assignment go through a reference record that is live while the RHS runs
            with self.ctx(func=True):
                b, jb = self.beh(d - 1)
            return ["Fr", "Fc", "0"] + b, "with (WO) { wv = (function(){ %s })(); }" % jb
        if c == "job":
            with self.ctx(func=True):
                b, jb = self.beh(d - 1)
            return (["S", "Fn", "0", "K", "S", "Fn", "1", "K", "J", "G", "1"] + b,
                    "Promise.resolve().then(function(){ %s });" % jb)
        if c == "gnat":
            with self.ctx(func=False, loop=False):
                ops, toks = self.goops(d - 1)
            g = self.fresh("G")
            self.natives[g] = ops
            return ["Fn", "0"] + toks, "%s();" % g
        raise AssertionError(c)

    def fn(self, d):
        """a global JS function with a generated body; returns (name, tokens of body)"""
        with self.ctx(func=True):
            b, jb = self.beh(d)
        f = self.fresh("F")
        self.prelude.append("function %s(){ %s }" % (f, jb))
        return f, b

    def goops(self, d, top=False):
        """Go-level operation list; returns (ops, tokens of the sequence)"""
        r = self.rng
        n = r.randint(1, 2)
        ops, toks = [], []
        for _ in range(n):
            # RunProgram directly under a depth-0 Try takes the outermost branch: `Aq`/`Bq` dispatch on the call-stack length
            c = r.choice(["RP", "CA", "CO", "TRY", "FOROF", "RPS", "CAS", "TRYS"]) if d > 0 else r.choice(["RP", "CA", "RPS", "CAS"])
            if c in ("RP", "RPS"):
                with self.ctx(func=False, loop=False):
                    b, jb = self.beh(d)
                ops.append({"op": c, "src": jb})
                toks.append(["Aq" if c == "RP" else "Bq"] + b)
            elif c == "CAS":
                f, b = self.fn(d)
                k = r.randint(0, 2)
                ops.append({"op": "CAS", "fn": f, "n": k})
                toks.append(["Bw", "G", str(k)] + b)
            elif c == "TRYS":
                sub, st = self.goops(d - 1, top)
                ops.append({"op": "TRYS", "ops": sub})
                toks.append(["Bt"] + st)
            elif c in ("CA", "CO"):
                f, b = self.fn(d)
                k = r.randint(0, 2)
                ops.append({"op": c, "fn": f, "n": k})
                toks.append(["Aw", "G", str(k)] + b)
            elif c == "TRY":
                sub, st = self.goops(d - 1, top)
                ops.append({"op": "TRY", "ops": sub})
                toks.append(["At"] + st)
            else:
                f, b = self.fn(d)
                ops.append({"op": "FOROF", "fn": f})
                toks.append(["At", "Aw", "G", "0"] + b)
        t = toks[-1]
        for x in reversed(toks[:-1]):
            t = ["S"] + x + t
        return ops, t

    def call(self, d, fault):
        r = self.rng
        k, kind = fault
        mk = "i" if kind == "i" else "t"
        api = r.choice(["RP", "RP", "CA", "CO", "EX", "TR", "TG", "ER"])
        self.pid = 0
        if api == "RP":
            with self.ctx(func=False, loop=False):
                b, jb = self.beh(d)
            return ["RP", str(k), mk] + b, {"api": "RP", "src": jb, "k": k, "kind": kind}
        if api in ("CA", "CO", "EX"):
            f, b = self.fn(d)
            n = r.randint(0, 2) if api != "EX" else 0
            return (["CA" if api != "CO" else "CO", str(n), str(k), mk] + b,
                    {"api": api, "fn": f, "n": n, "k": k, "kind": kind})
        if api == "TG":
            with self.ctx(func=True):
                b, jb = self.beh(d)
            o = self.fresh("O")
            self.prelude.append("var %s = { get x(){ %s } };" % (o, jb))
            return ["TG", str(k), mk] + b, {"api": "TG", "obj": o, "k": k, "kind": kind}
        if api == "ER":
            with self.ctx(func=True):
                b, jb = self.beh(d)
            o = self.fresh("E")
            self.prelude.append("var %s = { toString(){ %s } };" % (o, jb))
            return ["ER", str(k), mk] + b, {"api": "ER", "obj": o, "k": k, "kind": kind}
        ops, t = self.goops(d, top=True)
        return ["TR", str(k), mk] + t, {"api": "TR", "ops": ops, "k": k, "kind": kind}


def gen_history(rng, depth, ncalls=None, maxdepth=None, fault=None):
    g = Gen(rng)
    n = ncalls or rng.randint(1, 6)
    mx = maxdepth if maxdepth is not None else (rng.choice([-1, -1, -1] + list(range(0, 65))) if rng.random() < 0.5 else -1)
    mtoks, calls = [], []
    for _ in range(n):
        if fault is not None:
            fl = fault
            rng.random(); rng.randint(1, 8); rng.choice(CATCHABLE)      # keep the stream aligned
        elif rng.random() < 0.25:
            fl = (0, "t")
        else:
            fl = (rng.choice([1, 1, 2, 2, 3, 3, 4, 5, 6, 8]), rng.choice(CATCHABLE + ["i", "i", "i"]))
        t, c = g.call(depth, fl)
        mtoks.append(t)
        calls.append(c)
    decl = "".join("var g%d = (function*(){})(); g%d.next();\n" % (i, i) for i in range(1, g.slots + 1))
    return {"max": mx, "prelude": "var WO = {wv:0};\nvar RJ = Promise.reject(0);\n" + decl + "\n".join(g.prelude), "calls": calls, "natives": g.natives, "_model": mtoks}


def model_line(h):
    toks = [str(h["max"]), str(len(h["_model"]))]
    for t in h["_model"]:
        toks += t
    return " ".join(toks)


def harness_line(h):
    return json.dumps({k: v for k, v in h.items() if not k.startswith("_")})


# ------------------------------------------------------------------------------------------- wild stream
WILD_BODIES = [
    # async chains of depth >= 2: the fault lands in a continuation after an await (run from the job queue in leave())
    "async function inner(){ await null; P(1); P(2); } async function outer(){ await inner(); P(3); } outer(); P(4);",
    "async function inner(){ await null; (function r(n){ P(1); if (n<70) r(n+1) })(0); } async function outer(){ await inner(); P(2); } outer();",
    "async function a3(){ await null; P(1); await null; P(2); } async function a2(){ await a3(); P(3); } async function a1(){ try { await a2(); } finally { P(4); } } a1(); P(5);",
    "async function inner(){ await Promise.reject(1); } async function outer(){ try { await inner(); } catch(e) { P(1); await null; P(2); } } outer();",
    "async function inner(){ await null; throw new Error('ai'); } async function outer(){ await inner(); P(1); } outer().catch(function(){ P(2) });",
    # classes with private names whose computed keys / static blocks / field initialisers throw in the class-body frame
    "class X { #p = 1; [null.x](){} }",
    "class X { #p = 1; [undeclaredName](){} }",
    "try { class X { #p = 1; [null.x](){} } } catch(e) { P(1) } P(2);",
    "function f(){ try { class X { #p = 1; static #q = 2; [P(1)](){} [null.x](){} } } catch(e) { P(2) } } f(); P(3);",
    "class A { #a = 7; m(){ try { class B { #b = 1; [null.x](){} } } catch (e) { P(1) } return this.#a } } new A().m(); P(2);",
    "class Y { #q = P(1); static s = P(2); static { P(3); } constructor(){ P(4) } } new Y(); P(5);",
    "class Z { #z = 1; static { null.x } }",
    "class F { #f = (function(){ throw new Error('init') })(); } try { new F() } catch(e) { P(1) }",
    "class O { #o = 1; static m(){ class I { #i = 2; [P(1)](){} static { P(2) } } return I } } O.m(); P(3);",
    "function* g(){ try { P(1); yield 1; P(2); yield 2 } finally { P(3) } } for (var v of g()) { P(4); if (v==1) { try { throw 1 } catch(e) { P(5) } } }",
    "function* g(){ P(1); yield 1; P(2) } var it=g(); it.next(); P(3); it.next(); P(4);",
    "function* g(){ try { yield 1; yield 2 } finally { P(1) } } for (var v of g()) { P(2); throw new Error('q') }",
    "[3,1,2].sort(function(a,b){ P(1); return a-b });",
    "[3,1,2].map(function(a){ P(1); return [a].filter(function(){ P(2); return true }) });",
    "var o={ get x(){ P(1); return 1 }, set x(v){ P(2) } }; o.x; o.x=1; P(3);",
    "async function f(){ P(1); await 1; P(2); await null; P(3) } f(); P(4);",
    "async function f(){ try { P(1); await Promise.reject(1) } catch(e) { P(2) } finally { P(3) } } f().then(function(){ P(4) });",
    "new Promise(function(res,rej){ P(1); res(1) }).then(function(){ P(2); throw 2 }).catch(function(){ P(3) }).finally(function(){ P(4) });",
    "class A { #p=1; static s(){ P(1) } m(){ P(2); return this.#p } get g(){ P(3); return 1 } } A.s(); var a=new A(); a.m(); a.g;",
    "class B { constructor(){ P(1) } } class C extends B { constructor(){ P(2); super(); P(3) } } new C();",
    "l1: for (var i=0;i<3;i++){ for (var j of [1,2]) { P(1); if (j==2) continue l1; try { P(2) } finally { if (i==1) break l1 } } }",
    "with ({a:1}) { a = (P(1), 2); var q = a + (P(2), 1); }",
    "var p = new Proxy({}, { get(t,k){ P(1); return 1 }, has(){ P(2); return true } }); p.x; ('x' in p);",
    "JSON.stringify({ toJSON(){ P(1); return {a:[1,{ toJSON(){ P(2); return 2 } }]} } });",
    "[1,2,3].reduce(function(a,b){ P(1); return a+b }); Array.from({length:2}, function(){ P(2) });",
    "'abc'.replace(/b/g, function(){ P(1); return 'x' }); new Map([[1,2]]).forEach(function(){ P(2) });",
    "function r(n){ P(1); if (n>0) r(n-1); } r(5);",
    "function r(n){ try { if (n<70) r(n+1); else throw 1 } finally { P(1) } } try { r(0) } catch(e) { P(2) }",
    "var it={ [Symbol.iterator](){ return { next(){ P(1); return {value:1,done:false} }, return(){ P(2); return {} } } } }; for (var v of it) { P(3); break }",
    "var it={ [Symbol.iterator](){ return { next(){ P(1); return {value:1,done:false} }, return(){ P(2); return {} } } } }; var [a,b]=it; P(3);",
    "var it={ [Symbol.iterator](){ return { next(){ P(1); return {value:1,done:false} }, return(){ P(2); return {} } } } }; try { for (var v of it) { P(3); throw 1 } } catch(e) { P(4) }",
    "eval('P(1); (function(){ P(2) })()'); new Function('P(3)')();",
    "try { null.x } catch(e) { P(1) } try { undefinedVar } catch(e) { P(2) } try { (void 0)() } catch(e) { P(3) }",
    "Reflect.apply(function(){ P(1) }, null, []); Reflect.construct(function(){ P(2) }, []); (function(){ P(3) }).call(null); (function(){ P(4) }).bind(null)();",
    "var x = { valueOf(){ P(1); return 1 }, toString(){ P(2); return 's' } }; x+1; `${x}`; x<2; [x]+'';",
    "Promise.all([1,Promise.resolve(2)]).then(function(){ P(1) }); Promise.race([new Promise(function(){ P(2) })]); P(3);",
    "var g=(function*(){ var x = yield* (function*(){ P(1); yield 1; P(2); return 5 })(); P(3) })(); g.next(); g.next(); g.next();",
    "var g=(function*(){ try { yield 1 } finally { P(1) } })(); g.next(); g.return(3); P(2); var h=(function*(){ try { yield 1 } catch(e){ P(3) } })(); h.next(); h.throw(1);",
]


def gen_wild(rng):
    n = rng.randint(1, 6)
    prelude, calls = [], []
    for i in range(n):
        body = rng.choice(WILD_BODIES)
        if rng.random() < 0.3:
            body = "try { %s } catch(ew) { P(90) } finally { P(91) }" % body
        if rng.random() < 0.3:
            body = "for (var ow of [1]) { %s }" % body
        k = 0 if rng.random() < 0.15 else rng.randint(1, 10)
        kind = rng.choice(CATCHABLE + ["i", "i", "i"])
        api = rng.choice(["RP", "RP", "CA", "CO", "EX", "TG", "TRCA"])
        if api == "RP":
            calls.append({"api": "RP", "src": body, "k": k, "kind": kind})
        elif api in ("CA", "CO", "EX"):
            prelude.append("function W%d(){ %s }" % (i, body))
            calls.append({"api": api, "fn": "W%d" % i, "n": rng.randint(0, 2) if api != "EX" else 0, "k": k, "kind": kind})
        elif api == "TG":
            prelude.append("var OW%d = { get x(){ %s } };" % (i, body))
            calls.append({"api": "TG", "obj": "OW%d" % i, "k": k, "kind": kind})
        else:
            prelude.append("function W%d(){ %s }" % (i, body))
            calls.append({"api": "TR", "ops": [{"op": rng.choice(["CA", "FOROF", "CO"]), "fn": "W%d" % i}], "k": k, "kind": kind})
    mx = rng.choice([-1, -1] + list(range(0, 65)))
    return {"max": mx, "prelude": "\n".join(prelude), "calls": calls, "natives": {}}


# ------------------------------------------------------------------------------------------- regression seeds
def regression_seeds():
    """The original failing inputs of the six repaired defects (also stored in corpus/C03/seeds.json); modelled ones
    carry `_model`.  They run first on every run."""
    def H(mx, mtoks, calls, prelude="", natives=None):
        return {"max": mx, "prelude": "var WO={wv:0};\nvar RJ = Promise.reject(0);\n" + prelude, "calls": calls, "natives": natives or {}, "_model": mtoks}
    s = []
    # F1 stale-prg (e71ffae): interrupt inside a nested call of an outermost RunProgram, then a call from Go
    s.append(H(-1, [["RP", "1", "i", "Fc", "0", "P", "1"]], [{"api": "RP", "src": "(function(){ P(1); })();", "k": 1, "kind": "i"}]))
    # F2 try-leave (9e5aa04): interrupt inside a getter called under Runtime.Try at depth 0, then a run
    s.append(H(-1, [["TG", "1", "i", "P", "1"], ["RP", "0", "t", "P", "1"]],
               [{"api": "TG", "obj": "O1", "k": 1, "kind": "i"}, {"api": "RP", "src": "P(1);", "k": 0, "kind": "t"}], "var O1 = { get x(){ P(1); } };"))
    # F3 unwind-abort (570c7df): the iterator's return() is interrupted while a throw unwinds the for-of
    s.append(H(-1, [["RP", "1", "i", "S", "Fn", "1", "K", "FO", "G", "0", "P", "1", "T"]],
               [{"api": "RP", "src": "var it1 = MKIT(function(){ P(1); return {}; }); for (var w of it1) { throw new Error('t'); }", "k": 1, "kind": "i"}]))
    # F3, throw arriving as a Go panic through a native (one handleThrow only): needs the deferred truncation
    s.append(H(-1, [["RP", "1", "i", "S", "Fn", "1", "K", "FO", "G", "0", "P", "1", "Fn", "1", "G", "3", "T"]],
               [{"api": "RP", "src": "var it1 = MKIT(function(){ P(1); return {}; }); for (var w of it1) { [0].forEach(function(){ throw new Error('t'); }); }", "k": 1, "kind": "i"}]))
    # F4 with a native that ignores the StackOverflowError of the nested RunProgram: the rest of f and of the script must run
    s.append(H(2, [["RP", "0", "t", "S", "Fc", "0", "S", "Fn", "0", "Bp", "P", "1", "P", "2", "P", "3"]],
               [{"api": "RP", "src": "(function(){ G1(); P(2); })(); P(3);", "k": 0, "kind": "t"}], "", {"G1": [{"op": "RPS", "src": "P(1);"}]}))
    # F4 rec-overflow (195a32b): re-entrant RunProgram exactly at the call-depth limit
    s.append(H(2, [["RP", "0", "t", "S", "Fc", "0", "S", "Fn", "0", "Ap", "P", "1", "P", "2", "P", "3"]],
               [{"api": "RP", "src": "(function(){ G1(); P(2); })(); P(3);", "k": 0, "kind": "t"}], "", {"G1": [{"op": "RP", "src": "P(1);"}]}))
    # F5 tf-alias (eae3f2a): throw out of a for-of over an iterator with a JS return() inside try/finally, at
    # every try-stack depth 1..9 (the lost write needs len == cap of vm.tryStack when restoreStacks appends)
    for depth in range(0, 9):
        m = ["Y", "0", "1", "S", "Fn", "1", "K", "FO", "G", "0", "K", "T", "K", "P", "1"]
        js = "try { var itA = MKIT(function(){ ; return {}; }); for (var w of itA) { throw new Error('t'); } } finally { P(1); }"
        for d in range(depth):
            m = ["Y", "0", "1"] + m + ["K", "K"]
            js = "try { %s } finally { ; }" % js
        s.append(H(-1, [["CA", "0", "0", "t"] + m], [{"api": "CA", "fn": "FA", "n": 0, "k": 0, "kind": "t"}], "function FA(){ %s }" % js))
    # 5151c81: err.Error() on an Exception whose toString is interrupted must not leave the runtime interrupted
    s.append(H(-1, [["ER", "1", "i", "P", "1"], ["RP", "0", "t", "P", "1"]],
               [{"api": "ER", "obj": "E1", "k": 1, "kind": "i"}, {"api": "RP", "src": "P(1);", "k": 0, "kind": "t"}], "var E1 = { toString(){ P(1); } };"))
    # generators / async functions suspended inside try / catch / finally, driven by next / throw / return, with faults
    gsrc = ("g1 = (function*(){ try { P(1); yield 1; P(2); } catch(e1) { P(3); yield 1; P(4); } finally { P(5); yield 1; P(6); } })(); "
            "g1.next(); g1.throw(new Error('gt')); g1.next(); g1.next(); g1.next(); g1.next();")
    gtok = (["S", "GC", "1", "0", "Y", "1", "1", "S", "P", "1", "S", "YD", "P", "2", "S", "P", "3", "S", "YD", "P", "4", "S", "P", "5", "S", "YD", "P", "6"]
            + ["S", "Fn", "0", "GN", "1", "S", "Fn", "1", "GT", "1", "S", "Fn", "0", "GN", "1", "S", "Fn", "0", "GN", "1", "S", "Fn", "0", "GN", "1", "Fn", "0", "GN", "1"])
    gsrc2 = ("g1 = (function*(){ for (var v of [0]) { try { P(1); yield 1; P(2); } finally { P(3); yield 1; P(4); } } })(); "
             "g1.next(); g1.return(0); g1.next(); g1.next();")
    gtok2 = (["S", "GC", "1", "0", "Fo", "Y", "0", "1", "S", "P", "1", "S", "YD", "P", "2", "K", "S", "P", "3", "S", "YD", "P", "4"]
             + ["S", "Fn", "0", "GN", "1", "S", "Fn", "1", "GR", "1", "S", "Fn", "0", "GN", "1", "Fn", "0", "GN", "1"])
    asrc = "(async function(){ try { P(1); await 0; P(2); } finally { P(3); await 0; P(4); } })(); P(5);"
    atok = ["S", "AC", "0", "Y", "0", "1", "S", "P", "1", "S", "YD", "P", "2", "K", "S", "P", "3", "S", "YD", "P", "4", "P", "5"]
    gdecl = "var g1 = (function*(){})(); g1.next();"
    for k, kind in ((0, "t"), (2, "t"), (4, "i"), (5, "t")):
        s.append(H(-1, [["RP", str(k), "i" if kind == "i" else "t"] + gtok], [{"api": "RP", "src": gsrc, "k": k, "kind": kind}], gdecl))
    for k, kind in ((0, "t"), (2, "i"), (3, "t")):
        s.append(H(-1, [["RP", str(k), "i" if kind == "i" else "t"] + gtok2], [{"api": "RP", "src": gsrc2, "k": k, "kind": kind}], gdecl))
    for k, kind, mx in ((0, "t", -1), (3, "i", -1), (3, "t", -1), (4, "o", -1), (0, "t", 1), (0, "t", 2), (0, "t", 3)):
        s.append(H(mx, [["RP", str(k), "i" if kind == "i" else "t"] + atok], [{"api": "RP", "src": asrc, "k": k, "kind": kind}]))
    # await of a rejected promise: the continuation is asyncRunner.onRejected → generator.nextThrow (caught / uncaught),
    # faults and stack overflow inside such a continuation
    asrc2 = ("(async function(){ try { P(1); await RJ; P(2); } catch(e) { P(3); await 0; P(4); } "
             "finally { P(6); } })(); P(5);")
    atok2 = ["S", "AC", "0", "Y", "1", "1", "S", "P", "1", "S", "S", "YD", "T", "P", "2", "S", "P", "3", "S", "YD", "P", "4", "P", "6", "P", "5"]
    asrc3 = "(async function(){ P(1); await RJ; P(2); })(); P(5);"
    atok3 = ["S", "AC", "0", "S", "P", "1", "S", "S", "YD", "T", "P", "2", "P", "5"]
    for k, kind, mx in ((0, "t", -1), (3, "i", -1), (3, "t", -1), (4, "o", -1), (0, "t", 1), (0, "t", 2)):
        s.append(H(mx, [["RP", str(k), "i" if kind == "i" else "t"] + atok2], [{"api": "RP", "src": asrc2, "k": k, "kind": kind}]))
    for k, kind, mx in ((0, "t", -1), (0, "t", 1)):
        s.append(H(mx, [["RP", str(k), "i" if kind == "i" else "t"] + atok3], [{"api": "RP", "src": asrc3, "k": k, "kind": kind}]))
    # repaired by 404e270 (defect:unwind-abort-in-recover): the loop body throws from a native (Go panic → recover →
    # handleThrow at the JS try frame), closing the iterator overflows the call stack inside its return()
    s.append(H(1, [["CA", "0", "1", "t", "Y", "1", "0", "S", "Fn", "1", "K", "FO", "G", "0", "P", "2", "P", "1", "K", "K"]],
               [{"api": "CA", "fn": "FU", "n": 0, "k": 1, "kind": "t"}],
               "function FU(){ try { var itU = MKIT(function(){ P(2); return {}; }); for (var w of itU) { P(1); } } catch(e) { } }"))
    # 379f30d: a throw inside `finally` must not be caught by the statement's own catch
    s.append(H(-1, [["RP", "0", "t", "Y", "1", "0", "Y", "1", "1", "P", "1", "P", "2", "S", "P", "3", "T", "P", "4", "K"]],
               [{"api": "RP", "src": "try { try { P(1); } catch(e1) { P(2); } finally { P(3); throw new Error('t'); } } catch(e2) { P(4); }", "k": 0, "kind": "t"}]))
    # 5d979ec: an interrupt must not run return() of open iterators
    s.append(H(-1, [["RP", "1", "i", "S", "Fn", "1", "K", "FO", "G", "0", "P", "1", "P", "2"]],
               [{"api": "RP", "src": "var it2 = MKIT(function(){ P(1); return {}; }); for (var w of it2) { P(2); }", "k": 1, "kind": "i"}]))
    return s


WILD_SEEDS = [
    # 917efcc (fixes/C10-interrupt-in-async-start.diff): an interrupt raised by a `then` getter reached through
    # promiseResolve while an async function STARTS (asyncRunner.start → ar.step) must drop the marker frame too
    {"max": -1, "prelude": "", "calls": [{"api": "RP", "src": "(async function(){ await {get then(){ P(1); }} })(); 1", "k": 1, "kind": "i"}, {"api": "RP", "src": "P(1); Promise.resolve(0).then(function(){ P(2); }); 1", "k": 0, "kind": "t"}], "natives": {}},
    # mutation round 2 (seeded/C03-m3, -m4): abort inside the continuation of an awaited async function; class body with
    # private names throwing in its own frame, uncaught and caught in the same function
    {"max": 40, "prelude": "function rec(){ rec(); }\nasync function inner(){ await null; rec(); }\nasync function outerCaller(){ await inner(); }", "calls": [{"api": "RP", "src": "outerCaller(); 1", "k": 0, "kind": "t"}], "natives": {}},
    {"max": -1, "prelude": "async function inner(){ await null; P(1); }\nasync function outerCaller(){ await inner(); }", "calls": [{"api": "RP", "src": "outerCaller(); 1", "k": 1, "kind": "i"}], "natives": {}},
    {"max": -1, "prelude": "", "calls": [{"api": "RP", "src": "class X { #p = 1; peek() { return eval(\"this.#p\") } [null.x]() {} }", "k": 0, "kind": "t"}], "natives": {}},
    {"max": -1, "prelude": "function FX(){ try { class X { #p = 1; [null.x](){} } } catch(e) { P(1) } }", "calls": [{"api": "CA", "fn": "FX", "n": 0, "k": 0, "kind": "t"}, {"api": "RP", "src": "class A { #a = 7; m(){ try { class B { #b = 1; [null.x](){} } } catch (e) {} return this.#a } } new A().m();", "k": 0, "kind": "t"}], "natives": {}},
    # repaired by 25ae49c (defect:generator-create-overflow): overflow while a generator / async activation is created
    {"max": 1, "prelude": "", "calls": [{"api": "RP", "src": "async function f(){ await 1 } f()", "k": 0, "kind": "t"}], "natives": {}},
    {"max": 1, "prelude": "", "calls": [{"api": "RP", "src": "var g=(function*(){ yield 1 })(); g.next()", "k": 0, "kind": "t"}], "natives": {}},
    # F3 variant / F6 generator marker leak (e8f901b) originals
    {"max": 16, "prelude": "", "calls": [{"api": "RP", "src": "var it={ [Symbol.iterator](){ return { next(){ P(1); return {value:1,done:false} }, return(){ P(2); return {} } } } }; var [a,b]=it; P(3);", "k": 1, "kind": "i"}], "natives": {}},
    {"max": 44, "prelude": "function W0(){ function* g(){ try { yield 1; yield 2 } finally { P(1) } } for (var v of g()) { P(2); throw new Error('q') } }", "calls": [{"api": "CO", "fn": "W0", "n": 2, "k": 2, "kind": "i"}], "natives": {}},
    {"max": 1, "prelude": "function W1(){ try { var g=(function*(){ var x = yield* (function*(){ P(1); yield 1; P(2); return 5 })(); P(3) })(); g.next(); g.next(); g.next(); } catch(ew) { P(90) } finally { P(91) } }", "calls": [{"api": "TR", "ops": [{"op": "FOROF", "fn": "W1"}], "k": 0, "kind": "i"}], "natives": {}},
    {"max": -1, "prelude": "var OW4 = { get x(){ P(1); P(2); } };", "calls": [{"api": "TG", "obj": "OW4", "k": 2, "kind": "i"}, {"api": "RP", "src": "P(1);", "k": 0, "kind": "t"}], "natives": {}},
]


# ------------------------------------------------------------------------------------------- judging
def split_calls(line):
    main, _, probe = line.partition(" ## ")
    return [c.split("|") for c in main.split(" ; ")], probe


def judge_impl(h, line):
    """Spec-level oracle on the implementation's answer.  Returns list of (callIndex, what)."""
    bad = []
    if line.startswith("PANIC") or line.startswith("BAD-INPUT"):
        return [(-1, "harness:" + line[:200])]
    calls, probe = split_calls(line)
    for i, c in enumerate(calls):
        if len(c) != 3:
            bad.append((i, "malformed:" + "|".join(c)[:100]))
            continue
        if c[0].startswith("HOSTPANIC"):
            bad.append((i, "host-panic:" + c[0][:120]))
        if c[2] != IDLE:
            f = [FIELDS[j] for j, (a, b) in enumerate(zip(c[2].split(","), IDLE.split(","))) if a != b]
            if i < len(h["calls"]) and h["calls"][i]["api"] in ("TR", "TG", "ER") and c[0] in ("ok", "ex") and "jobQueue" in f:
                f.remove("jobQueue")     # Runtime.Try is not a "run": jobs wait for the next leave() (C10's concern)
            if f:
                bad.append((i, "not-idle:" + "+".join(f)))
    if probe and not probe.startswith("SAME"):
        bad.append((len(calls), "behaviour-differs"))
    return bad


class Runner:
    def __init__(self, ctx, harness, model):
        self.ctx, self.harness, self.model = ctx, harness, model

    def impl(self, hs, timeout=1800):
        """run histories through the harness; a timeout / crash of the process is retried once in halves so that one
        slow machine moment is never reported as a violation"""
        for attempt in range(2):
            rc, out, err = self.ctx.run_lines([self.harness], [harness_line(h) for h in hs], timeout=timeout)
            if rc == 0 and len(out) == len(hs):
                return out, (rc, err)
        if len(hs) > 1:
            mid = len(hs) // 2
            a, _ = self.impl(hs[:mid], timeout)
            b, _ = self.impl(hs[mid:], timeout)
            return a + b, (0, "")
        return out + ["PANIC harness gave no answer (rc=%s): %s" % (rc, err[-200:].replace("\n", " "))] * (len(hs) - len(out)), (rc, err)

    def mod(self, hs, timeout=1800):
        if not self.model or not os.path.exists(self.model):
            return None
        for attempt in range(2):
            rc, out, err = self.ctx.run_lines([self.model], [model_line(h) for h in hs], timeout=timeout)
            if rc == 0 and len(out) == len(hs):
                return out
        return None


KNOWN_UAR = "defect:unwind-abort-in-recover"


def unwind_abort_in_recover(h, impl_main, model_main):
    """Fingerprint of defect:unwind-abort-in-recover (repaired by 404e270; the known_findings entry is `fixed` and suppresses
    nothing, so a recurrence alarms under this name):
    handleThrow, entered from a recover(), closes the iterators of the JS try frame it stopped at; an uncatchable raised by
    an iterator's return() leaves handleThrow with that frame still on the try stack, the boundary's deferred popTryFrame
    pops it instead of the marker, and a try frame (plus sp / call frames) stays at idle.  Recognised only if: outcomes and
    probe traces of all calls are as the model says, the state vectors differ at most in sp / tryStack / callStack /
    prgNil / sb, and the source has a try statement and an iterator with a JS return()."""
    src = h["prelude"] + " ".join(c.get("src", "") for c in h["calls"]) + json.dumps(h.get("natives", {}))
    if "try" not in src or not ("MKIT(" in src or "return()" in src or "return(){" in src):
        return False
    ic = [c.split("|") for c in impl_main.split(" ; ")]
    mc = [c.split("|") for c in model_main.split(" ; ")] if model_main else [[None, None, IDLE]] * len(ic)
    if len(ic) != len(mc):
        return False
    differs = False
    for a, b in zip(ic, mc):
        if len(a) != 3 or len(b) != 3:
            return False
        if b[0] is not None and (a[0] != b[0] or a[1] != b[1]):
            return False
        if a[2] != b[2]:
            fa, fb = a[2].split(","), b[2].split(",")
            if len(fa) != len(fb):
                return False
            diff = set(FIELDS[j] for j in range(len(fa)) if fa[j] != fb[j])
            if b[0] is None and "jobQueue" in diff and a[0] in ("ok", "ex"):
                diff.discard("jobQueue")
            if not diff <= {"sp", "sb", "tryStack", "callStack", "prgNil"} or "tryStack" not in diff:
                return False
            differs = True
    return differs


def shards(items, n):
    k = max(1, (len(items) + n - 1) // n)
    return [items[i:i + k] for i in range(0, len(items), k)]


def run_parallel(fn, hs, n=12):
    from concurrent.futures import ThreadPoolExecutor
    parts = shards(hs, n)
    with ThreadPoolExecutor(max_workers=n) as ex:
        res = list(ex.map(fn, parts))
    return res


def strip_probe(line):
    return line.partition(" ## ")[0]


def main(ctx):
    tier = ctx.tier
    ok, errs = ctx.lake_build(["GojaModel.C03.Props", "model_c03"])
    ctx.audit("GojaModel.C03.Props", expect_min=20)
    # regenerated facts: statement / decision skeletons of the transcribed Go functions, compared inside Lean
    if ctx.regen():
        tie_ok, _ = ctx.lake_build(["GojaModel.C03.Tie"])
        if tie_ok:
            ctx.audit("GojaModel.C03.Tie", expect_min=40)
    if tier == "thorough":
        ctx.leanchecker("GojaModel.C03.Props")
    ctx.log("lean done")
    harness = ctx.go_build()
    ctx.log("harness built")
    model = ctx.model_exe()
    if not os.path.exists(model):
        ctx.obligation("tie.model-driver", "tie", False, "model_c03 not built")
        model = None
    source_facts(ctx)
    if harness is None:
        return ctx.finish(level="proof", rule="harness did not build")
    run = Runner(ctx, harness, model)

    # ---- stream A: modelled histories (regression seeds and corpus first)
    nA = 350 if tier == "quick" else 4000
    nB = 250 if tier == "quick" else 2500
    corpus = load_corpus(ctx)
    seeds = []                      # corpus/C03/seeds.json holds regression_seeds() + WILD_SEEDS; they run first
    rng = ctx.rng
    hsA = []
    for i in range(nA):
        hsA.append(gen_history(rng, depth=rng.choice([2, 3, 3, 4])))
    if tier == "thorough":
        # systematic: every depth limit 0..64 on a fixed set of shapes
        base = random.Random(ctx.seed * 7919 + 1)
        for shape in range(12):
            st = base.getstate()
            for mx in list(range(0, 65)) + [-1]:
                base.setstate(st)
                hsA.append(gen_history(base, depth=3, ncalls=2, maxdepth=mx))
    if tier == "thorough":
        # systematic: a fault at EVERY probe position k = 1..12, catchable and interrupt, on fixed shapes
        base = random.Random(ctx.seed * 6007 + 3)
        for shape in range(25):
            st = base.getstate()
            for k in range(1, 13):
                for kind in ("t", "i"):
                    base.setstate(st)
                    hsA.append(gen_history(base, depth=3, ncalls=1, maxdepth=-1, fault=(k, kind)))
    if not corpus["A"]:
        ctx.obligation("corpus:regression-seeds", "correspondence", False, "corpus/C03/seeds.json missing")
    hsA = corpus["A"] + hsA

    outs = [x for part in run_parallel(lambda p: run.impl(p)[0], hsA) for x in part]
    ctx.log("stream A: harness done")
    mouts = run.mod(hsA) if model else None
    ctx.log("stream A: model done")
    ctx.count(len(hsA))
    agree = True
    ndiff = 0
    stats = {"outcomes": {}, "apis": {}, "faultkinds": {}, "max_depth_limits": set(), "probes": 0, "calls": 0}
    viol = []
    for i, h in enumerate(hsA):
        line = outs[i]
        main_part = strip_probe(line)
        calls, probe = split_calls(line)
        for c, hc in zip(calls, h["calls"]):
            stats["outcomes"][c[0][:12]] = stats["outcomes"].get(c[0][:12], 0) + 1
            stats["apis"][hc["api"]] = stats["apis"].get(hc["api"], 0) + 1
            if hc["k"]:
                stats["faultkinds"][hc["kind"]] = stats["faultkinds"].get(hc["kind"], 0) + 1
            if len(c) == 3:
                stats["probes"] += len(c[1].split())
        stats["calls"] += len(calls)
        stats["max_depth_limits"].add(h["max"])
        if any(c[0] != "ok" for c in calls if c):
            ctx.nontriv(main_part)            # distinct = distinct (outcomes, traces, states) with >= 1 abrupt ending
        if mouts is not None and mouts[i] != main_part and unwind_abort_in_recover(h, main_part, mouts[i]):
            ctx.violation(KNOWN_UAR, "try frame / sp left at idle: iterator return() aborted while handleThrow (entered from a recover) was unwinding",
                          replay_obj(h, run))
            stats["known_defect_histories"] = stats.get("known_defect_histories", 0) + 1
            continue
        if mouts is not None and mouts[i] != main_part:
            agree = False
            ndiff += 1
            if ndiff <= 3:
                small = shrink(run, h, lambda hh: (run.mod([hh]) or ["?"])[0] != strip_probe(run.impl([hh])[0][0]))
                # the model provably satisfies the property (Props.lean) and is the spec for this history: an observable
                # difference of outcome / probe trace / idle vector is a concrete failing input
                mo = (run.mod([small]) or ["?"])[0]
                io = strip_probe(run.impl([small])[0][0])
                ci = next((j for j, (x, y) in enumerate(zip(io.split(" ; "), mo.split(" ; "))) if x != y), 0)
                api = small["calls"][ci]["api"] if ci < len(small["calls"]) else "?"
                what = [n for n, (x, y) in zip(["outcome", "trace", "state"], zip((io.split(" ; ") + [""])[ci].split("|"), (mo.split(" ; ") + [""])[ci].split("|"))) if x != y]
                ctx.violation("model-mismatch:%s:%s" % (api, "+".join(what)),
                              "the runtime deviates from the proved model on a generated history (call %d, %s)" % (ci, "+".join(what)),
                              replay_obj(small, run))
        bad = judge_impl(h, line)
        if bad:
            viol.append((h, bad))
    ctx.obligation("corr:model-vs-goja:histories", "correspondence", agree and mouts is not None,
                   "%d of %d histories differ" % (ndiff, len(hsA)) if mouts is not None else "model driver unavailable")
    # the model must itself satisfy the spec oracle on every generated history (it is proved: idle_after_any_api_call)
    if mouts is not None:
        mbad = sum(1 for h, m in zip(hsA, mouts) if judge_impl(h, m))
        ctx.obligation("corr:model-satisfies-idle-oracle", "correspondence", mbad == 0, "%d model answers not idle" % mbad)
    for h, o in list(zip(hsA, outs))[len(corpus["A"]):len(corpus["A"]) + 3]:
        ctx.sample({"model_line": model_line(h)[:400], "impl": o[:400]})

    # ---- stream B: wild histories (spec oracle only)
    rngB = random.Random(ctx.seed * 104729 + 7)
    hsB = corpus["B"] + [gen_wild(rngB) for _ in range(nB)]
    outsB = [x for part in run_parallel(lambda p: run.impl(p)[0], hsB) for x in part]
    ctx.log("stream B done")
    ctx.count(len(hsB))
    wild_abrupt = 0
    for h, line in zip(hsB, outsB):
        calls, _ = split_calls(line)
        if any(c[0] != "ok" for c in calls if c):
            wild_abrupt += 1
            ctx.nontriv("B" + strip_probe(line))
        bad = judge_impl(h, line)
        if bad and unwind_abort_in_recover(h, strip_probe(line), None):
            ctx.violation(KNOWN_UAR, "try frame / sp left at idle: iterator return() aborted while handleThrow (entered from a recover) was unwinding",
                          replay_obj(h, run))
            stats["known_defect_histories"] = stats.get("known_defect_histories", 0) + 1
            continue
        if bad:
            viol.append((h, bad))
    stats["wild_histories"] = len(hsB)
    stats["wild_with_abrupt_ending"] = wild_abrupt
    stats["max_depth_limits"] = sorted(stats["max_depth_limits"])
    stats["deviating_histories"] = len(viol)
    ctx.stats.update(stats)

    # ---- violations: shrink, classify, report
    seen = set()
    for h, bad in viol:
        key = ",".join(sorted(set(w.split(":")[0] + ":" + w.split(":")[1][:40] if ":" in w else w for _, w in bad)))
        if key in seen or len(seen) >= 8:
            continue
        seen.add(key)
        small = shrink(run, h, lambda hh: bool(judge_impl(hh, run.impl([hh])[0][0])))
        b2 = judge_impl(small, run.impl([small])[0][0])
        if not b2:
            continue          # not reproducible on its own (e.g. a harness process was killed): inconclusive, not a violation
        sig = classify(small, b2, run.impl([small])[0][0]) or "leak:" + ",".join(sorted(set(w[:60] for _, w in b2)))
        ctx.violation(sig, "history violates the idle-state / fresh-runtime oracle: %s" % b2[:3], replay_obj(small, run))

    ctx.assumptions += [
        "All catchable Go-side payloads (Value, *Object, GoError, *Exception) are one `thrown` outcome in the model (exceptionFromValue maps them all to a non-nil *Exception).",
        "Natives either re-panic or ignore the error returned by a nested API call (both are modelled: `api` / `swallow` nodes); a pending InterruptedError cannot be ignored in effect because the flag stays set until the outermost call returns.",
        "Generators/async (suspend/resume) are outside the mechanism model; they are exercised only against the spec-level oracle (stream B).",
    ]
    ctx.trusted_base += ["/repo/verif_hooks_c03.go (read-only accessor VerifC03VMState)",
                         "rendering of behaviour trees to JS in run/c03.py (validated by the per-probe stack-length comparison)"]
    return ctx.finish(level="proof",
                      rule="history = <=6 API calls x fault (k-th probe, kind) x depth limit; distinct non-trivial = distinct "
                           "(outcome, probe trace, idle vector) transcript containing at least one abrupt ending")


def classify(h, bad, line):
    """Signature of the generator-create-overflow defect (repaired by 25ae49c; the entry in known_findings.d/C03.json
    is `fixed` and suppresses nothing, so a recurrence alarms under this name): the shrunk history must be a single call under a depth limit that ends
    with an uncatchable, leaves at least one try frame behind (the stale generator marker; sp / call / iter / ref
    records may follow from the boundary restoring from the wrong frame), and its source must create a generator or
    async activation.  Anything else keeps its own `leak:` signature."""
    calls, _ = split_calls(line)
    if len(h["calls"]) != 1 or h["max"] < 0 or not calls or len(calls[0]) != 3 or calls[0][0] != "fatal":
        return None
    dev = [w for i, w in bad if i == 0]
    rest = [w for i, w in bad if i != 0]
    if len(dev) != 1 or not dev[0].startswith("not-idle:") or "tryStack" not in dev[0].split(":")[1].split("+"):
        return None
    if any(w != "behaviour-differs" for w in rest):
        return None
    if set(dev[0].split(":")[1].split("+")) - {"sp", "tryStack", "callStack", "iterStack", "refStack", "prgNil", "stashGlobal", "privEnvNil"}:
        return None
    c = h["calls"][0]
    src = h["prelude"] + c.get("src", "")
    if "function*" in src or "async " in src:
        return "defect:generator-create-overflow"
    return None


def shrink(run, h, fails):
    """delta-debug the calls of a history"""
    try:
        idx = Ctx.ddmin(list(range(len(h["calls"]))), lambda keep: fails(sub_history(h, keep)))
        return sub_history(h, idx)
    except Exception:
        return h


def sub_history(h, keep):
    hh = dict(h)
    hh["calls"] = [h["calls"][i] for i in keep]
    if "_model" in h:
        hh["_model"] = [h["_model"][i] for i in keep]
    return hh


def replay_obj(h, run):
    o = {"kind": "history", "harness_line": harness_line(h)}
    if "_model" in h:
        o["model_line"] = model_line(h)
        m = run.mod([h])
        o["expected_model"] = m[0] if m else None
    o["expected_idle_vector"] = IDLE + "  (" + ",".join(FIELDS) + ")"
    o["observed"] = run.impl([h])[0][0]
    return o


def load_corpus(ctx):
    out = {"A": [], "B": []}
    d = os.path.join(ROOT, "corpus", "C03")
    if os.path.isdir(d):
        for fn in sorted(os.listdir(d)):
            if fn.endswith(".json"):
                with open(os.path.join(d, fn)) as f:
                    for h in json.load(f):
                        out["A" if "_model" in h else "B"].append(h)
    return out


def func_body(src, header):
    import re
    i = src.find(header)
    if i < 0:
        return ""
    j = src.find("\n}\n", i)
    return src[i:j + 3] if j > 0 else ""


def source_facts(ctx):
    """Regenerated fact (textual, from the working tree): the set of recover() sites of the root package — the Go
    boundaries the model knows.  (The statements of the transcribed functions are tied in Lean: GojaModel/C03/Tie.lean.)"""
    import re
    expected = {
        ("vm.go", "try"), ("vm.go", "runTryInner"), ("vm.go", "handleThrow"), ("runtime.go", "RunProgram"), ("runtime.go", "runWrapped"),
        ("runtime.go", "Try"), ("runtime.go", "compileAST"), ("runtime.go", "tryFunc"), ("builtin_typedarrays.go", "*"),
        # fe5ea29 + 5151c81: Exception.valueString = vm.try(obj.String()) + a recover that swallows an uncatchable after
        # leaveAbrupt at depth 0 — the control path of the model's `tryGet` (API kind ER)
        ("runtime.go", "valueString"),
    }
    found = {}
    srcs = {}
    for fn in sorted(os.listdir(REPO)):
        if not fn.endswith(".go") or fn.endswith("_test.go") or fn.startswith("verif_hooks"):
            continue
        src = open(os.path.join(REPO, fn), errors="replace").read()
        srcs[fn] = src
        cur = None
        for line in src.splitlines():
            m = re.match(r"func (?:\([^)]*\) )?(\w+)", line)
            if m:
                cur = m.group(1)
            if "recover()" in line:
                found[(fn, cur)] = found.get((fn, cur), 0) + 1
    keys = set((f, c if f != "builtin_typedarrays.go" else "*") for f, c in found)
    ctx.stats["recover_sites"] = sorted("%s:%s" % k for k in found)
    ctx.obligation("tie:recover-sites", "tie", keys == expected,
                   "missing=%s extra=%s" % (sorted(expected - keys), sorted(keys - expected)))


def replay(ctx, path):
    with open(path) as f:
        o = json.load(f)
    harness = ctx.go_build()
    model = ctx.model_exe()
    print("history:", o.get("harness_line", "")[:2000])
    bad = [(-1, "no harness")]
    if harness:
        rc, out, err = ctx.run_lines([harness], [o["harness_line"]])
        print("implementation:", out[0] if out else err)
        h = json.loads(o["harness_line"])
        bad = judge_impl(h, out[0]) if out else [(-1, "no output")]
        print("oracle (idle vector %s after every call; behavioural probe SAME):" % IDLE, bad or "holds")
    if "model_line" in o and os.path.exists(model):
        rc, out2, err = ctx.run_lines([model], [o["model_line"]])
        print("model:", out2[0] if out2 else err)
    return 1 if bad else 0


# ------------------------------------------------------------------------------------------- maintenance helper
TIE_MODEL_OF = {
    "saveCtx": "saveCtx", "pushCtx": "pushCtx (depth limit `>`; overflow = none)", "restoreCtx": "restoreCtx", "popCtx": "popCtx",
    "pushTryFrame": "pushTryFrame", "popTryFrame": "popTryFrame", "restoreStacks": "restoreStacks … true",
    "restoreStacks'": "restoreStacks / closeIters (deferred truncation, close only if closeIters)",
    "handleThrow": "handleThrowLoop / restoreFrame / handleThrow; the deferred recover = an aborted handleThrow is followed by the uncatchable unwinding at the same boundary (unwindAtMarker on `fatal`)", "throw": "`thrown` outcome (in-loop handleThrow)",
    "vmTry": "tryB / unwindAtMarker", "runTry": "runTryB", "runTryInner": "unwindAtMarker",
    "tryExec": "tryStmt (pushTryFrame catchPos finallyPos)", "leaveTryExec": "leaveTry / exitThrough",
    "enterFinallyExec": "leaveTry (finally branch: both positions cleared)", "leaveFinallyExec": "finPhase",
    "retExec": "FrameKind.post (.call) / goCallRet / genFinish", "enumPopCloseExec": "frameExit (.forOf)", "enumPopExec": "FrameKind.post (.forOf)",
    "jsCall": "goCallEnter / goCall / goCallRet", "jsVmCall": "FrameKind.pre (.call)", "nativeVmCall": "FrameKind.pre/post (.native)",
    "runProgram": "runProgramRec / runProgramOuter / recEnter / recExit / outerEnter / outerPop",
    "runWrapped": "runWrapped / leaveOrClear", "runtimeTry": "runtimeTry", "leave": "leaveLoop / runJobs", "leaveAbrupt": "leaveAbrupt",
    "valueString": "API kind ER (= tryGet path)",
    "genEnter": "genNew", "genEnterNext": "genEnterNext", "genStoreLengths": "genEnterNext (lengths = the marker's position)",
    "genStep": "genNext (uncatchable: marker dropped by the deferred function = unwindAtMarker's pop)",
    "genStep1": "genNext / genLeave / genFinish (the `returning` branch is outside the model)", "genNext": "genNext / genLeave / genFinish",
    "genNextThrow": "genThrow", "genDropMarkerOnPanic": "genNew (second pushCtx overflow)", "vmSuspend": "genLeave (no live records at a top-level yield)",
    "vmResume": "genEnterNext", "genObjInit": "genNew", "genObjNext": "genNext (state machine)", "genObjThrow": "genThrow", "genObjReturn": "genReturn",
    "asyncOnFulfilled": "asyncResumeCA (Vm.curAsync set; the deferred clear) around asyncResume", "asyncOnRejected": "asyncResumeCA around asyncResume whose resume point is followed by throw_ (await of a rejected promise)",
    "asyncStart": "asyncNew / actEnter / actCall / actBack (`entered = true` after ar.step since 917efcc: dropMarkerOnPanic also covers user code reached from ar.step; the model's awaits run no user code in ar.step)", "asyncStep": "asyncNew / asyncResume (await = queue the continuation; done / ex = settle the promise)",
}


def write_tie():
    """Rewrite lean/GojaModel/C03/Tie.lean from the CURRENT generated skeleton: run only after reviewing a change of the
    Go sources against the model (`python3 run/c03.py --write-tie`)."""
    import re
    g = open(os.path.join(LEAN, "GojaModel", "Generated", "C03_Skeleton.lean")).read()
    body = g[g.index("namespace GojaModel.Generated.C03") + len("namespace GojaModel.Generated.C03"):g.index("end GojaModel.Generated.C03")]
    out = ['''/-
  C03 — Tie: the statement / decision skeleton of every Go function the model transcribes, REGENERATED from
  /repo's current source on every run (extract/c03.go → GojaModel/Generated/C03_Skeleton.lean), must equal
  the skeleton the model was written against (`Expected`, below; each list names the model definition that
  transcribes it).  Only statements touching control state are part of a skeleton (see extract/c03.go).
  Maintained with `python3 run/c03.py --write-tie` after a reviewed change.
-/
import GojaModel.Generated.C03_Skeleton

namespace GojaModel.C03.Expected
''']
    names = []
    for m in re.finditer(r"^def (\S+) : List \(Nat × String\) := \[\n(.*?)\]\n", body, re.M | re.S):
        n = m.group(1)
        names.append(n)
        out.append("/-- model: `%s` -/\n%s" % (TIE_MODEL_OF.get(n, n), m.group(0)))
    out.append("end GojaModel.C03.Expected\n\nnamespace GojaModel.C03.Tie\nopen GojaModel\n")
    for n in names:
        out.append("theorem %s_tie : Generated.C03.%s = C03.Expected.%s := rfl\n" % (n.replace("'", "_"), n, n))
    out.append("end GojaModel.C03.Tie\n")
    open(os.path.join(LEAN, "GojaModel", "C03", "Tie.lean"), "w").write("\n".join(out))
    print("Tie.lean rewritten with", len(names), "skeletons")


if __name__ == "__main__":
    if "--write-tie" in sys.argv:
        write_tie()
