"""
C14 — errors cross the Go/JS boundary in both directions with identity preserved.

Obligations:
  * Lean theorems of GojaModel.C14.Props (audited), Tie theorems of GojaModel.C14.Tie over the facts regenerated
    from /repo by extract/c14.go (classifier case lists, recover sites, boundary-function skeletons);
  * correspondence: the model driver (model_c14) and the real implementation (harness/cmd/c14) on the same case
    lines  `<entry> <payload> <chain>`  — exhaustive over all chains up to a depth, sampled above (see gen_cases);
  * an independent spec oracle (python, below) that judges the implementation's answers against the property text
    itself; it is what turns a broken obligation into a concrete failing input (or a known finding).
"""
import itertools, os, json, time
from concurrent.futures import ThreadPoolExecutor
from vlib import *

KINDS = "J0 JC JR JF JCF JRF FC RFE RFN CT XFE XFN PX GT FO DY RP PR FCV RFW JI JG JGF JA JAW FOT JIT JY JYF FCS TG JIU JGT".split()
JS_KINDS = {"J0", "JC", "JR", "JF", "JCF", "JRF", "JI", "JG", "JGF", "JA", "JAW", "JIT", "JY", "JYF", "JIU", "JGT"}
SWALLOW = {"JC", "JCF", "JA", "FCS", "JIU"}  # JA: an async function absorbs the exception into its promise; FCS: native frame drops the error
RETHROW = {"JR", "JRF", "FCV", "JGT"}        # new *Exception (new stack), same value
REWRAP = {"RFW"}                      # value replaced by a GoError around fmt.Errorf("%w", err)
SPLIT = {"PR", "JAW"}                 # the rest of the chain runs as a promise job
ENTRIES = ["RS", "CA", "EX"]
ALL_ENTRIES = ["RS", "CA", "EX", "CO", "TR"]   # CO: AssertConstructor (model: callable); TR: Runtime.Try around Object.Get
VALS = "P1 P2 P3 P4 P5 P6 O1 O2 O3 O4 R1 R2 R3 G1 G3 G4 G6 V1 V2 U1 U2".split()   # P5 symbol, P6 BigInt, O2 function, O3 Proxy, O4 array
# U3 (toString interrupts the runtime) is exercised by corpus lines only: any frame that stringifies the error
# (fmt.Errorf in RFW) would legitimately trigger that interrupt in the middle of the chain
ERRS = "E1 C2 W3 J4 I5 WI6 JI7 S8 WS12 X14 WX15 A16 JJ17 JD18".split()
PAYLOADS = (["jt:" + v for v in VALS] + ["js:" + k for k in "TRGS"] + ["ji", "jo"] +
            ["np:" + v for v in "P1 O1 R1 G1 V1 U1".split()] + ["npn", "nr:N0"] + ["nr:" + e for e in ERRS] +
            ["nq:" + e for e in "E1 W3 WI6 I5 JI7 JJ17".split()] + ["no", "nx"])
# one representative per behaviour class, used where the chain space is enumerated exhaustively at depth 4
REP_PAYLOADS = ["jt:P1", "jt:O1", "jt:R1", "jt:G3", "jt:V1", "js:T", "ji", "jo", "np:O1", "nr:J4", "nr:WI6", "nq:E1", "no"]

QUICK_REP = ["jt:O1"]
ENTRY_REP = ["jt:O1", "jt:G3", "ji", "nr:J4", "no"]
THOROUGH_REP = ["jt:O1", "jt:O3", "jt:R1", "jt:G3", "jt:V1", "jt:U1", "js:T", "ji", "jo", "np:O1", "nr:J4", "nr:WI6", "nr:X14", "no"]

GOVAL = {"G1": "E1", "G3": "W3", "G4": "J4", "G6": "WI6", "V1": "E1"}       # JS values holding a Go error in .value
# errors.Is against [E1 C2 W3 J4 I5 WI6 JI7 S8 E9 WS12 X14 WX15 A16]; X14 has a custom Is method answering true for E1,
# A16 a custom As method yielding C2
TARGETS = "E1 C2 W3 J4 I5 WI6 JI7 S8 E9 WS12 X14 WX15 A16 JJ17 JD18".split()
REACH = {"E1": ["E1"], "C2": ["C2"], "W3": ["W3", "C2"], "J4": ["J4", "E1", "C2"], "I5": ["I5"], "WI6": ["WI6", "I5"],
         "JI7": ["JI7", "I5", "E1"], "S8": ["S8"], "WS12": ["WS12", "S8"], "X14": ["X14", "E1"], "WX15": ["WX15", "X14", "E1"],
         "A16": ["A16"], "JJ17": ["JJ17", "E1", "C2", "WI6", "I5"], "JD18": ["JD18", "W3", "C2"]}
IS_BITS = {e: "".join("1" if t in r else "0" for t in TARGETS) for e, r in REACH.items()}
AS_OF = {"C2": "C2", "W3": "C2", "J4": "C2", "A16": "C2", "JJ17": "C2", "JD18": "C2"}
UNCATCHABLE_SPEC = {"I5", "WI6", "S8", "WS12", "JI7", "JJ17"}   # any wrapping form (%w, errors.Join) around an Interrupted/StackOverflow error
UNCATCHABLE_CODE = UNCATCHABLE_SPEC                     # since fix cbcbe34 isUncatchableException uses errors.As


def peel(name):
    """strip the in-flight fmt.Errorf wrappers an RFW frame adds: w(w(X)) -> X"""
    while name.startswith("w(") and name.endswith(")"):
        name = name[2:-1]
    return name


def bits_ge(a, b):
    return len(a) == len(b) and all(x == "1" or y == "0" for x, y in zip(a, b))


def parse_out(o):
    d = {}
    for part in o.split(" "):
        if "=" in part:
            k, v = part.split("=", 1)
            d[k] = v
    log = d.get("log", "[]")[1:-1]
    d["logl"] = [x for x in log.split(";") if x]
    rej = d.get("rej", "[]")[1:-1]
    d["rejl"] = [x for x in rej.split(",") if x]
    xc = d.get("xc", "-")
    d["xcl"] = [x for x in xc[1:-1].split(",") if x] if xc.startswith("[") else []
    return d


def spec_oracle(line, out):
    """Judge one implementation answer against the property text. Returns list of (clause, detail)."""
    entry, payload, chain_s = line.split(" ")
    chain = [] if chain_s == "-" else chain_s.split(",")
    if out.startswith("PANIC") or "HARNESS" in out or out in ("BADLINE", ""):
        return [("harness-crash", out[:200])]
    d = parse_out(out)
    bad = []
    host = d.get("host", "")
    kind, _, arg = payload.partition(":")
    has_pr = any(k in SPLIT for k in chain)
    last_pr = max([i for i, k in enumerate(chain) if k in SPLIT], default=-1)
    swallow = any(k in SWALLOW for k in chain)
    rewrap = any(k in REWRAP for k in chain)
    catches = [(int(x.split("c=")[0]), x.split("c=")[1]) for x in d["logl"] if "c=" in x]
    fins = [int(x[:-1]) for x in d["logl"] if x.endswith("f") and "=" not in x]
    rets = [int(x[:-1]) for x in d["logl"] if x.endswith("r") and "=" not in x]
    hostname = host[4:-1] if host.startswith(("exc(", "err(")) else host
    dropped = "FCS" in chain       # a native frame that ignores the error it got may legitimately hide it from the host

    # error.Error() must return, whatever was thrown
    if d.get("es") == "panic":
        bad.append(("error-method:panics", "host=%s: calling Error() on it panics" % host))

    def unobserved(why):
        # no catch block at all, and no finally block / iterator return() on the path of the error: the frames after the
        # last job frame and — for an error VALUE (uncatchable), which a native frame may drop — after the last FCS frame
        lim = last_pr
        if why == "uncatchable" and kind != "ji":   # a REAL interrupt cannot be dropped: the flag re-raises it
            lim = max([lim] + [i for i, k in enumerate(chain) if k == "FCS"])
        if catches:
            bad.append((why + ":catch-observed", str(catches[:3])))
        if any(i > lim for i in fins):
            bad.append((why + ":finally-observed", str(fins[:5])))
        if any(i > lim for i in rets):
            bad.append((why + ":iterator-return-observed", str(rets[:5])))

    if entry == "TR":
        # Runtime.Try as the host's entry: vm.try + a recover that RE-PANICS what is not a JS exception, and no leave():
        # an uncatchable error leaves Try as a Go panic carrying it; promise jobs never run
        if has_pr:
            if host != "ok" or d["rejl"] or catches or rets:
                bad.append(("try-entry:jobs-ran", "host=%s rej=%s log=%s" % (host, d["rejl"], d["logl"][:4])))
            return bad
        unc = None
        if kind == "ji":
            unc = "intr(E9)"
        elif kind == "jo":
            unc = "so"
        elif kind in ("nr", "nq") and arg in UNCATCHABLE_SPEC:
            unc = arg
        if unc is not None:
            unobserved("uncatchable")
            if (kind == "ji" or not dropped) and not (host.startswith("panic(goerr(") and peel(host[len("panic(goerr("):-2]) == unc):
                bad.append(("try-entry:uncatchable-not-repanicked", "host=%s want panic(goerr(%s))" % (host, unc)))
            return bad

    if kind in ("jt", "np"):
        v = arg
        if entry == "TR" and rewrap and GOVAL.get(v) in UNCATCHABLE_SPEC and host.startswith("panic(goerr("):
            # a GoError holding an uncatchable error, wrapped by a native frame with %w, IS an uncatchable Go error from
            # then on; Runtime.Try re-panics it (a RunProgram / Callable host gets it as an error that reaches v)
            return bad
        unwrap_possible = v in GOVAL and ("XFE" in chain or entry == "EX")   # (entry CO behaves like CA)
        if not unwrap_possible:
            if not rewrap:
                # identity: every catch block / async rejection received v itself
                for i, w in catches:
                    if w != v:
                        bad.append(("identity:catch-got-other-value", "%d got %s want %s" % (i, w, v)))
                for w in d["rejl"]:
                    if w != v:
                        bad.append(("identity:rejection-value", "rej=%s want %s" % (d["rejl"], v)))
            if not swallow:
                if not has_pr:
                    if not rewrap and host != "exc(%s)" % v:
                        bad.append(("identity:host-value", "host=%s want exc(%s)" % (host, v)))
                    # with wrapping native frames the *Exception with Value() = v is still reached by errors.Unwrap
                    if v not in d["xcl"]:
                        bad.append(("identity:value-not-reachable", "host=%s xc=%s want %s" % (host, d["xcl"], v)))
                if has_pr and not rewrap and (host != "ok" or d["rejl"] != [v]):
                    bad.append(("identity:rejection-value", "host=%s rej=%s want [%s]" % (host, d["rejl"], v)))
        elif not swallow and not has_pr:
            e = GOVAL[v]
            if v != "V1" and e not in UNCATCHABLE_SPEC:
                # a GoError keeps its Go error reachable whatever wrapper object arrives
                if not bits_ge(d.get("is", ""), IS_BITS[e]) or (not rewrap and d.get("is") != IS_BITS[e]):
                    bad.append(("goerror:errors.Is", "host=%s is=%s want %s" % (host, d.get("is"), IS_BITS[e])))
        # stack top = the LAST RAISE SITE: the outermost frame that raises the value anew (catch block with `throw e`
        # -> that statement; native panic(ex.Value()) -> a native position), else the thrower's site; an Error
        # object made by running code always shows its creation site
        if not unwrap_possible and not swallow and not has_pr and not rewrap:
            if v[0] == "R":
                want = "C"
            else:
                want = "T" if kind == "jt" else "o"
                for i, k in enumerate(chain):
                    if k in ("JR", "JRF"):
                        want = "R%d" % i
                        break
                    if k == "FCV":
                        want = "o"
                        break
                    if k == "JGT":     # g.throw(e): raised at the generator's yield (exceptionFromValue: an own stack, even empty, wins)
                        want = "o" if v[0] == "G" else "Y%d" % i
                        break
            if d.get("top") != want:
                bad.append(("stack:top-not-last-raise-site", "top=%s want %s" % (d.get("top"), want)))
    elif kind == "nr" and arg != "N0":
        e = arg
        if e in UNCATCHABLE_SPEC:
            unobserved("uncatchable")
            if not dropped and not (host.startswith("err(") and peel(hostname) == e):
                bad.append(("uncatchable:host-error", "host=%s want err(%s)" % (host, e)))
        elif not swallow and not has_pr:
            if not rewrap and not (host == "exc(ge(%s))" % e or host == "err(%s)" % e):
                bad.append(("goerror:host-shape", "host=%s" % host))
            if not bits_ge(d.get("is", ""), IS_BITS[e]) or (not rewrap and (d.get("is") != IS_BITS[e] or d.get("as") != AS_OF.get(e, "-"))):
                bad.append(("goerror:errors.Is/As", "is=%s as=%s want %s %s" % (d.get("is"), d.get("as"), IS_BITS[e], AS_OF.get(e, "-"))))
        elif not swallow and has_pr and not rewrap:
            if host != "ok" or d["rejl"] != ["ge(%s)" % e]:
                bad.append(("goerror:rejection", "host=%s rej=%s" % (host, d["rejl"])))
    elif kind == "nr" and arg == "N0":
        if host != "ok" or catches:
            bad.append(("normal-return", "host=%s" % host))
    elif kind in ("ji", "jo"):
        unobserved("uncatchable")
        want = "intr(E9)" if kind == "ji" else "so"
        if (kind == "ji" or not dropped) and not (host.startswith("err(") and peel(hostname) == want):
            bad.append(("uncatchable:host-error", "host=%s want err(%s)" % (host, want)))
        if kind == "ji" and d.get("is") != "".join("1" if t == "E9" else "0" for t in TARGETS):
            bad.append(("uncatchable:interrupt-value-unwrap", "is=%s" % d.get("is")))
    elif kind == "nq":
        e = arg
        if e in UNCATCHABLE_CODE:
            unobserved("uncatchable")
            if not dropped and not (host.startswith("err(") and peel(hostname) == e):
                bad.append(("uncatchable:host-error", "host=%s want err(%s)" % (host, e)))
        else:
            unobserved("foreign")
            if host != "panic(goerr(%s))" % e:
                bad.append(("foreign:not-passed-through", "host=%s" % host))
    elif kind in ("no", "nx"):
        unobserved("foreign")
        want = "panic(other(42))" if kind == "no" else "panic(goerr(rt))"
        if host != want:
            bad.append(("foreign:not-passed-through", "host=%s want %s" % (host, want)))
    elif kind == "js":
        cls = {"T": "TypeError", "R": "ReferenceError", "G": "RangeError", "S": "SyntaxError"}[arg]
        for i, w in catches:
            if w != "new:" + cls and not rewrap:
                bad.append(("sentinel:catch-class", "%d got %s" % (i, w)))
        if not swallow and not rewrap:
            if not has_pr and host != "exc(new:%s)" % cls:
                bad.append(("sentinel:host-class", "host=%s" % host))
            if has_pr and d["rejl"] != ["new:" + cls]:
                bad.append(("sentinel:rejection", "rej=%s" % d["rejl"]))
    elif kind == "npn":
        if not swallow and not has_pr and not rewrap and host != "exc(new:TypeError)":
            bad.append(("native-typeerror:host", "host=%s" % host))
    return bad


def gen_cases(ctx):
    """Returns (iterator over case lines, plan dict name -> count). Everything derives from ctx.rng."""
    rng = ctx.rng
    parts, plan = [], {}

    def excluded(p, ch):
        return False            # (no generator exclusion left: the sticky interrupt flag is modelled by Flow.pending)

    def exhaustive(depths, entries, payloads, tag):
        def it():
            for d in depths:
                for ch in itertools.product(KINDS, repeat=d):
                    cs = ",".join(ch) or "-"
                    for e in entries:
                        for p in payloads:
                            if not excluded(p, ch):
                                yield "%s %s %s" % (e, p, cs)
        plan[tag] = sum(1 for d in depths for ch in itertools.product(KINDS, repeat=d) for p in payloads
                        if not excluded(p, ch)) * len(entries)
        parts.append(it())

    def sampled(n, dmin, dmax, tag):
        def it():
            for _ in range(n):
                d = rng.randint(dmin, dmax)
                # bias towards alternating JS / native frames, as the property's quantifier describes
                ch = []
                for i in range(d):
                    if rng.random() < 0.7:
                        pool = [k for k in KINDS if (k in JS_KINDS) == (i % 2 == 0)]
                    else:
                        pool = KINDS
                    ch.append(rng.choice(pool))
                p = rng.choice(PAYLOADS)
                if excluded(p, ch):
                    p = "jo"
                yield "%s %s %s" % (rng.choice(ALL_ENTRIES), p, ",".join(ch))
        plan[tag] = n
        parts.append(it())

    if ctx.tier == "quick":
        exhaustive(range(0, 3), ["RS"], PAYLOADS, "exhaustive depth<=2 x RS x %d payloads" % len(PAYLOADS))
        exhaustive(range(0, 2), ["CA", "EX"], PAYLOADS, "exhaustive depth<=1 x CA,EX x %d payloads" % len(PAYLOADS))
        exhaustive([2], ["CA", "EX"], ENTRY_REP, "exhaustive depth=2 x CA,EX x %d representative payloads" % len(ENTRY_REP))
        exhaustive([3], ["RS"], QUICK_REP, "exhaustive depth=3 x RS x %d representative payloads" % len(QUICK_REP))
        exhaustive(range(0, 2), ["CO"], PAYLOADS, "exhaustive depth<=1 x AssertConstructor entry x %d payloads" % len(PAYLOADS))
        exhaustive(range(0, 2), ["TR"], PAYLOADS, "exhaustive depth<=1 x Runtime.Try entry x %d payloads" % len(PAYLOADS))
        exhaustive([2], ["TR"], ENTRY_REP, "exhaustive depth=2 x Runtime.Try entry x %d representative payloads" % len(ENTRY_REP))
        sampled(10000, 4, 8, "sampled depth 4..8 (all entries, all payloads)")
    else:
        exhaustive(range(0, 3), ALL_ENTRIES, PAYLOADS, "exhaustive depth<=2 x 5 entries x %d payloads" % len(PAYLOADS))
        exhaustive([3], ["RS"], THOROUGH_REP, "exhaustive depth=3 x RS x %d representative payloads" % len(THOROUGH_REP))
        sampled(120000, 4, 4, "sampled depth 4 (all entries, all payloads)")
        sampled(120000, 5, 8, "sampled depth 5..8 (all entries, all payloads)")
    return itertools.chain(*parts), plan


def chunked(it, n):
    buf = []
    for x in it:
        buf.append(x)
        if len(buf) >= n:
            yield buf
            buf = []
    if buf:
        yield buf


def run_sharded(ctx, cmd, lines, shards=16, tag="x"):
    """Run cmd over lines split in contiguous shards; returns list of output lines or None on failure."""
    if not lines:
        return []
    n = max(1, min(shards, len(lines) // 2000 + 1))
    size = (len(lines) + n - 1) // n
    chunks = [lines[i:i + size] for i in range(0, len(lines), size)]

    def one(ch):
        rc, out, err = ctx.run_lines(cmd, ch, timeout=1500)
        if len(out) != len(ch):
            return None
        return out
    with ThreadPoolExecutor(max_workers=n) as ex:
        outs = list(ex.map(one, chunks))
    if any(o is None for o in outs):
        return None
    return [l for o in outs for l in o]


def load_corpus():
    d = os.path.join(ROOT, "corpus", "C14")
    lines = []
    if os.path.isdir(d):
        for fn in sorted(os.listdir(d)):
            if fn.endswith(".txt"):
                for l in open(os.path.join(d, fn)):
                    l = l.strip()
                    if l and not l.startswith("#"):
                        lines.append(l)
    return lines


def shrink_chain(ctx, harness, line, clause):
    """ddmin over the frames of the chain, keeping the same violated clause on the implementation."""
    entry, payload, chain_s = line.split(" ")
    chain = [] if chain_s == "-" else chain_s.split(",")

    def fails(sub):
        l = "%s %s %s" % (entry, payload, ",".join(sub) or "-")
        rc, out, err = ctx.run_lines([harness], [l], timeout=60)
        return bool(out) and any(c == clause for c, _ in spec_oracle(l, out[0]))
    if chain and fails([]):
        chain = []
    elif len(chain) >= 2:
        chain = Ctx.ddmin(chain, fails)
    if len(chain) == 1 and fails([]):
        chain = []
    for e in ENTRIES:                               # prefer the plainest entry
        l = "%s %s %s" % (e, payload, ",".join(chain) or "-")
        rc, out, err = ctx.run_lines([harness], [l], timeout=60)
        if out and any(c == clause for c, _ in spec_oracle(l, out[0])):
            return l, out[0]
    return "%s %s %s" % (entry, payload, ",".join(chain) or "-"), None


def main(ctx):
    ctx.trusted_base += [
        "harness/cmd/c14: construction of each frame kind from goja's public API, canonical naming of values by identity",
        "python spec oracle in run/c14.py (judges implementation answers against the property text)",
        "abstraction of JS values / Go errors to identities + the structure the mechanism inspects (design/C14.md)",
    ]
    ctx.assumptions += [
        "stack claim limited to the top frame's position class (throw site / rethrow site / other)",
        "native frames re-raise a Callable's error with panic(err) or return it; other user idioms (panic(ex.Value()), fmt.Errorf(\"%w\", exception)) are not in the chain alphabet",
    ]
    regen_ok = ctx.regen()
    ctx.log("regenerated facts:", regen_ok)
    lean_ok, errs = ctx.lake_build(["GojaModel.C14.Props", "GojaModel.C14.Tie", "model_c14"])
    if lean_ok:
        ctx.audit("GojaModel.C14.Props", expect_min=30)
        ctx.audit("GojaModel.C14.Tie", expect_min=62)
        if ctx.tier == "thorough":
            ctx.leanchecker("GojaModel.C14.Props")
    ctx.log("lean build + audit done:", lean_ok)
    model = ctx.model_exe()
    model_ok = lean_ok and os.path.exists(model)
    if not model_ok:
        # a broken Tie must not hide the model driver if it still builds on its own
        rc, o, e = sh(["lake", "build", "model_c14"], cwd=LEAN, timeout=1500)
        model_ok = rc == 0 and os.path.exists(model)

    harness = ctx.go_build()
    if harness is None:
        return ctx.finish(level="proof", rule="harness did not build")

    ctx.log("harness built")
    corpus = load_corpus()
    gen, plan = gen_cases(ctx)
    ctx.stats["plan"] = plan
    ctx.stats["corpus_cases"] = len(corpus)

    def process(chunk):
        # a slow machine must not look like a failure: a short / timed-out answer is retried (twice) first
        impl = None
        for attempt in range(3):
            rc, out, err = ctx.run_lines([harness], chunk, timeout=1800)
            if len(out) == len(chunk):
                impl = out
                break
        if impl is None:
            return chunk, None, None
        mod = None
        if model_ok:
            for attempt in range(3):
                rc, out, err = ctx.run_lines([model], chunk, timeout=1800)
                if len(out) == len(chunk):
                    mod = out
                    break
        return chunk, impl, mod

    by_sig = {}
    hosts, payload_kinds, depth_hist, frame_hist = {}, {}, {}, {}
    n_catch = n_fin = n_rej = total = 0
    n_diff, diff_examples = 0, []
    harness_failed = model_failed = False
    t0 = time.time()
    chunks = chunked(itertools.chain(corpus, gen), 8000)
    with ThreadPoolExecutor(max_workers=16) as ex:
        while True:
            wave = list(itertools.islice(chunks, 32))
            if not wave:
                break
            for chunk, impl, mod in ex.map(process, wave):
                if impl is None:
                    harness_failed = True
                    continue
                total += len(chunk)
                if mod is None:
                    model_failed = True
                else:
                    for l, o, m in zip(chunk, impl, mod):
                        if o != m:
                            n_diff += 1
                            if len(diff_examples) < 8:
                                diff_examples.append({"case": l, "impl": o, "model": m})
                for l, o in zip(chunk, impl):
                    entry, payload, chain_s = l.split(" ")
                    chain = [] if chain_s == "-" else chain_s.split(",")
                    depth_hist[len(chain)] = depth_hist.get(len(chain), 0) + 1
                    payload_kinds[payload] = payload_kinds.get(payload, 0) + 1
                    hk = o.split(" ")[0].split("(")[0]
                    hosts[hk] = hosts.get(hk, 0) + 1
                    for k in chain:
                        frame_hist[k] = frame_hist.get(k, 0) + 1
                    if "c=" in o:
                        n_catch += 1
                    if "f;" in o or "f]" in o:
                        n_fin += 1
                    if "rej=[]" not in o:
                        n_rej += 1
                    if chain and not (o.startswith("host=ok") and o.endswith("rej=[] log=[]")):
                        ctx.nontriv(l)
                    if total % 9973 == 0:
                        ctx.sample({"case": l, "impl": o})
                    for clause, detail in spec_oracle(l, o):
                        sig = "%s:%s" % (clause, payload)
                        hs = by_sig.setdefault(sig, [])
                        if len(hs) < 2000:
                            hs.append((l, o, detail, clause))
                        else:
                            hs[0] = min(hs[0], (l, o, detail, clause), key=lambda x: len(x[0]))
    ctx.count(total)
    ctx.stats["run_s"] = round(time.time() - t0, 1)
    ctx.log("ran %d cases in %ss" % (total, ctx.stats["run_s"]))
    if harness_failed:
        ctx.obligation("corr:harness-run", "correspondence", False, "harness produced a wrong number of lines / crashed on a shard")

    # ---- correspondence
    if not model_ok or model_failed:
        ctx.obligation("corr:model-driver", "correspondence", False, "model driver unavailable (Lean build broken) or crashed")
    else:
        detail = ""
        if n_diff:
            d0 = diff_examples[0]
            detail = "%d mismatches; first: %s | impl: %s | model: %s" % (n_diff, d0["case"], d0["impl"], d0["model"])
        ctx.obligation("corr:model-vs-implementation(%d cases)" % total, "correspondence", n_diff == 0, detail)
        ctx.stats["mismatches"] = n_diff
        ctx.stats["mismatch_examples"] = diff_examples
    ctx.stats.update({"host_outcomes": hosts, "payloads": payload_kinds, "depths": depth_hist, "frame_kinds": frame_hist,
                      "cases_with_catch_log": n_catch, "cases_with_finally_log": n_fin, "cases_with_rejection": n_rej})

    # no unrepaired finding at present (joined-uncatchable: cbcbe34, Error() panic: fe5ea29, ForOf return(): 51964d9)
    KNOWN_CLAUSES = {}
    KNOWN = {sig: KNOWN_CLAUSES[h[0][3]] for sig, h in by_sig.items() if h and h[0][3] in KNOWN_CLAUSES}
    # (a reproduced known finding is reported by ctx.violation as KNOWN-FINDING, it is not a broken obligation)
    ctx.obligation("oracle:property-holds-on-all-implementation-answers", "correspondence",
                   all(ctx.known_signature(KNOWN.get(s, s)) is not None for s in by_sig),
                   "; ".join("%s x%d" % (s, len(v)) for s, v in list(by_sig.items())[:10]))
    for h in by_sig.values():
        h.sort(key=lambda x: len(x[0]))
    order = sorted(by_sig, key=lambda s: (KNOWN.get(s, s) != s and -1 or 0, 0 if s.endswith(":jt:P1") else 1, len(by_sig[s][0][0]), s))
    known_done = set()
    ctx.stats["violated_clauses"] = {s: len(v) for s, v in by_sig.items()}
    reported = 0
    for sig in order:
        hits = by_sig[sig]
        if sig in KNOWN:
            if KNOWN[sig] in known_done:     # one shrunk representative per known finding
                continue
            known_done.add(KNOWN[sig])
        else:
            reported += 1
            if reported > 8:        # the rest is listed in evidence stats.violated_clauses
                continue
        l, o, detail, clause = hits[0]
        sl, so = shrink_chain(ctx, harness, l, clause)
        if so is None:
            sl, so = l, o
        msig = KNOWN.get(sig, sig)
        model_line = ""
        if model_ok:
            rc, mo, _ = ctx.run_lines([model], [sl], timeout=60)
            model_line = mo[0] if mo else ""
        ctx.violation(msig, "%s on `%s`: %s (%d cases)" % (clause, sl, detail, len(hits)),
                      {"kind": "input", "case": sl, "observed": so, "model": model_line, "clause": clause,
                       "original_case": l, "hits": len(hits)})

    rule = ("cases = corpus + " + "; ".join("%s: %d" % kv for kv in plan.items()) +
            "; a case is counted non-trivial when the chain is non-empty and the outcome is not a silent normal return; "
            "distinct = distinct case lines")
    return ctx.finish(level="proof", rule=rule, extra={"exhaustive": [k for k in plan if k.startswith("exhaustive")]})


def replay(ctx, path):
    with open(path) as f:
        rp = json.load(f)
    case = rp.get("case")
    if not case:
        print("replay file names a broken obligation, not an input:", json.dumps(rp.get("obligations", rp), indent=1)[:3000])
        return 1
    harness = ctx.go_build()
    rc, o, e = ctx.run_lines([harness], [case], timeout=60) if harness else (1, [], "")
    print("case           :", case)
    print("implementation :", o[0] if o else "(harness failed) " + e[:300])
    model = ctx.model_exe()
    if os.path.exists(model):
        rc, m, e = ctx.run_lines([model], [case], timeout=60)
        print("model          :", m[0] if m else "(model failed)")
    bad = spec_oracle(case, o[0]) if o else [("harness", "failed")]
    print("spec oracle    :", bad if bad else "property holds on this case")
    return 1 if bad else 0
