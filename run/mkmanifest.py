#!/usr/bin/env python3
"""Assemble /verif/MANIFEST.json from manifest.d/Cnn.json snippets (one per claimed property)."""
import json, os, sys
ROOT = os.path.dirname(os.path.dirname(os.path.abspath(__file__)))
props = [json.loads(l)["id"] for l in open(os.path.join(ROOT, "properties.jsonl"))]
checks, na = [], []
for p in props:
    f = os.path.join(ROOT, "manifest.d", p + ".json")
    if os.path.exists(f):
        c = json.load(open(f))
        c["property_id"] = p
        c.setdefault("quick_cmd", "./check %s quick" % p)
        c.setdefault("thorough_cmd", "./check %s thorough" % p)
        c.setdefault("evidence_file", "evidence/%s.json" % p)
        c.setdefault("replay_cmd_template", "./check %s --replay {path}" % p)
        checks.append(c)
    else:
        na.append({"property_id": p, "reason": "check not built yet in this tree (planned per DESIGN.md §5; no technical obstacle to the technique)"})
hooks_commits = []
try:
    import subprocess
    out = subprocess.run(["git", "-C", "/repo", "log", "--format=%h %s"], capture_output=True, text=True).stdout
    hooks_commits = [l.split()[0] for l in out.splitlines() if l.split(" ", 1)[1].startswith("verif hooks")]
except Exception:
    pass
m = {
    "version": 1,
    "setup_cmd": "./setup.sh",
    "hooks": {
        "guard": "verif",
        "enable": "go build -tags verif (harness module verifharness replaces github.com/dop251/goja by /repo); hook files /repo/verif_hooks_cNN.go carry //go:build verif",
        "baseline_off_cmd": "cd /repo && go test -mod=mod -json -vet=off -count=1 -timeout 25m ./...",
        "source_commits": hooks_commits,
        "add_only": True,
    },
    "engines": [
        {"name": "lean4-model+correspondence", "path": "lean/ run/ harness/ extract/",
         "serves_properties": [c["property_id"] for c in checks],
         "kind_free_text": "Lean 4 theorems about executable models (lake project lean/, core Lean), audited for axioms on every run; models tied to /repo by go/ast-regenerated facts (extract/) proved equal to expectations inside Lean and by differential correspondence between the model drivers (lean_exe) and Go harnesses linking the real goja (-tags verif)"}
    ],
    "checks": checks,
    "not_applicable": na,
    "notes": "Every check: ./check Cnn quick|thorough (python3 run/vlib.py). Known findings: known_findings.json + known_findings.d/. See DESIGN.md.",
}
json.dump(m, open(os.path.join(ROOT, "MANIFEST.json"), "w"), indent=1)
print("checks:", [c["property_id"] for c in checks], "not_applicable:", len(na))
