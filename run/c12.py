"""
C12 — number <-> string conversions are exact.

The Lean side (lean/GojaModel/C12) contains PROVED CERTIFYING CHECKERS (Props.lean: isNearest_sound,
shortest_sound, fixed_sound, exp_sound, radix_sound, …).  This check
  1. re-checks those theorems and audits their axioms,
  2. builds the harness against /repo's current working tree,
  3. generates conversions (doubles by class × digit counts × radices; decimal / radix strings built with
     big-integer arithmetic, incl. exact halfway strings ± 1 unit in the last place, up to 800 digits),
     runs the real implementation on them and lets the compiled checkers (model_c12) judge every output.
Any output a checker rejects is a concrete violation: replay = the bits / the string.
Universality over all 2^64 inputs is SAMPLED, not proved (theorem name: dtoa_certified_partial).
"""
import os, sys, json, random, struct, subprocess, collections
from concurrent.futures import ProcessPoolExecutor
from vlib import *

PROP = "C12"
NSHARDS = 14
DIG = "0123456789abcdefghijklmnopqrstuvwxyz"
INF_ORD = 2047 << 52
TWO63 = 1 << 63


# ----------------------------------------------------------------------------- exact double arithmetic (generator only)
def mag(k):
    """numerator of the k-th non-negative double over 2^1074 (same formula as Lean magOrd)"""
    return k if k < (1 << 52) else (((1 << 52) + (k & ((1 << 52) - 1))) << ((k >> 52) - 1))


def hexbits(b):
    return "%016x" % (b & 0xFFFFFFFFFFFFFFFF)


def fbits(x):
    return struct.unpack("<Q", struct.pack("<d", x))[0]


def tobase(n, r):
    if n == 0:
        return "0"
    out = []
    while n:
        n, d = divmod(n, r)
        out.append(DIG[d])
    return "".join(reversed(out))


def enc(s):
    """op-line encoding of a JS string: ASCII without blanks; '~' = space; \\uXXXX for everything else"""
    out = []
    for ch in s:
        o = ord(ch)
        if ch == " ":
            out.append("~")
        elif o > 0xffff:
            o -= 0x10000
            out.append("\\u%04x\\u%04x" % (0xd800 + (o >> 10), 0xdc00 + (o & 0x3ff)))
        elif ch in "~\\" or o < 0x21 or o > 0x7e:
            out.append("\\u%04x" % o)
        else:
            out.append(ch)
    return "s:" + "".join(out)


# ECMA-262 StrWhiteSpaceChar = WhiteSpace (TAB VT FF ZWNBSP + Unicode Zs) + LineTerminator (LF CR LS PS)
WS = ["\t", "\x0b", "\x0c", " ", "\xa0", "\ufeff", "\u1680", "\u2000", "\u2001", "\u2005", "\u200a", "\u202f", "\u205f", "\u3000",
      "\n", "\r", "\u2028", "\u2029"]
NOT_WS = ["\x85", "\u180e", "\u200b", "\u200c", "\u2060", "\x00", "\x1f"]


def ws(rng, p=0.5):
    """a (possibly empty) run of white space"""
    if rng.random() > p:
        return ""
    r = rng.random()
    if r < 0.5:
        return " " * rng.randrange(1, 3)
    return "".join(rng.choice(WS) for _ in range(rng.randrange(1, 4)))


def halfway_digits(k):
    """(S, E): the decimal S×10^E that lies exactly between the doubles with ordinals k and k+1
    (k+1 = INF_ORD gives the overflow threshold)."""
    num = mag(k) + mag(k + 1)               # value = num / 2^1075
    t = 1075
    while num % 2 == 0 and t > 0:
        num //= 2
        t -= 1
    n = num * 5 ** t                        # value = n / 10^t
    s = str(n)
    z = len(s) - len(s.rstrip("0"))
    if z:
        s = s[:-z]
    return s, z - t


def render(rng, s, e):
    """a decimal text for S×10^E in one of several layouts"""
    style = rng.randrange(5)
    if style == 0 or len(s) + abs(e) > 1100:
        body = s[0] + ("." + s[1:] if len(s) > 1 else "") + "e" + rng.choice(["", "+"] if e + len(s) - 1 >= 0 else [""]) + str(e + len(s) - 1)
    elif style == 1:
        body = s + ("e" + str(e) if e else "")
    elif style == 2 and e < 0:
        # move the point inside / before the digits
        if -e < len(s):
            body = s[:e] + "." + s[e:]
        else:
            body = rng.choice(["0.", "."]) + "0" * (-e - len(s)) + s
    elif style == 3:
        sh = rng.randrange(1, 30)
        body = s + "0" * sh + "e" + str(e - sh)
    else:
        if e >= 0:
            body = s + "0" * e
        elif -e < len(s):
            body = s[:e] + "." + s[e:]
        else:
            body = "0." + "0" * (-e - len(s)) + s
    if rng.random() < 0.15:
        body = body.replace("e", "E")
    return body


# ----------------------------------------------------------------------------- generators
def gen_doubles(rng, n):
    """bit patterns by class; returns list of (bits, class)"""
    out = []
    M52 = (1 << 52) - 1
    pow10 = [fbits(float("1e%d" % k)) for k in range(-323, 309)]
    for i in range(n):
        c = i % 10
        sign = rng.getrandbits(1) << 63
        if c == 0:
            b = rng.getrandbits(64)
            cls = "uniform"
            sign = 0
        elif c == 1:
            e = rng.randrange(0, 2047)
            m = rng.choice([0, 1, 2, 3, M52, M52 - 1, M52 - 2, 1 << 51, (1 << 51) - 1, (1 << 51) + 1])
            b = (e << 52) | m
            cls = "pow2-nbhd"
        elif c == 2:
            b = rng.choice(pow10) + rng.randrange(-4, 5)
            b = max(1, min(b, INF_ORD - 1))
            cls = "pow10-nbhd"
        elif c == 3:
            r = rng.random()
            m = rng.randrange(1, 64) if r < 0.3 else (M52 - rng.randrange(0, 64) if r < 0.5 else rng.getrandbits(rng.randrange(1, 53)))
            b = m & M52 or 1
            cls = "subnormal"
        elif c == 4:
            base = rng.choice([1 << 53, 1 << 52, (1 << 53) - 1, 1 << 31, 1 << 32, 1 << 63, 1 << 64, 10 ** 21, 10 ** 20])
            v = base + rng.randrange(-40, 41)
            b = fbits(float(v))
            cls = "int-boundary"
        elif c == 5:
            v = rng.randrange(0, 10 ** rng.randrange(1, 17))
            if rng.random() < 0.4:
                v = v + 0.5
            b = fbits(float(v))
            cls = "integerish"
        elif c == 6:
            nd = rng.randrange(1, 18)
            s = str(rng.randrange(1, 10 ** nd)) + "e" + str(rng.randrange(-330, 309 - nd))
            try:
                b = fbits(float(s))
            except OverflowError:
                b = fbits(1.5)
            cls = "short-decimal"
        elif c == 7:
            # exponent range where toFixed / plain layouts matter: 1e-7 .. 1e22
            e = rng.randrange(1023 - 24, 1023 + 74)
            b = (e << 52) | rng.getrandbits(52)
            cls = "mid-range"
        elif c == 8:
            # few significant bits (exact short binary fractions): many exact ties for toFixed/toPrecision
            nb = rng.randrange(1, 12)
            e = rng.randrange(1023 - 12, 1023 + 12)
            b = (e << 52) | (rng.getrandbits(nb) << (52 - nb))
            cls = "few-bits"
        else:
            b = rng.choice([0, 1, INF_ORD - 1, INF_ORD, INF_ORD + 1, (0x7ff8 << 48), 1 << 52, (1 << 52) - 1,
                            fbits(1.0), fbits(0.1), fbits(1e21), fbits(1e-6), fbits(1e-7), fbits(123456789012345680000.0),
                            fbits(5e-324), fbits(2.2250738585072014e-308), fbits(1.7976931348623157e308),
                            fbits(9007199254740993.0), fbits(0.000001), fbits(1.25), fbits(2.5), fbits(0.5), fbits(1.45),
                            fbits(8.345), fbits(1.005), fbits(1000000000000000128.0), fbits(25.0), fbits(1e-10)])
            cls = "special"
        if c != 0:
            b |= sign
        out.append((b & 0xFFFFFFFFFFFFFFFF, cls))
    return out


def ops_for_double(rng, b, cls, ops):
    h = hexbits(b)
    ops.append(("tostr %s" % h, cls))
    ops.append(("rt %s" % h, cls))
    if rng.random() < 0.5:
        ops.append(("expu %s" % h, cls))
    if rng.random() < 0.5:
        ops.append(("ftostr %s %d 0" % (h, rng.randrange(2)), cls))
    e = (b >> 52) & 2047
    for _ in range(3):
        fd = rng.choice([0, 1, 2, 3, 5, 10, 15, 16, 17, 20, 21, 50, 99, 100, rng.randrange(101), rng.randrange(101), rng.randrange(25)])
        ops.append(("fixed %s %d" % (h, fd), cls))
    for _ in range(3):
        fd = rng.choice([0, 1, 2, 5, 14, 15, 16, 17, 18, 20, 21, 50, 99, 100, rng.randrange(101), rng.randrange(101), rng.randrange(25)])
        ops.append(("exp %s %d" % (h, fd), cls))
    for _ in range(3):
        p = rng.choice([1, 2, 3, 15, 16, 17, 18, 21, 22, 50, 100, rng.randrange(1, 101), rng.randrange(1, 101), rng.randrange(1, 25)])
        ops.append(("prec %s %d" % (h, p), cls))
    for _ in range(3):
        r = rng.choice([2, 3, 8, 10, 16, 32, 36, rng.randrange(2, 37), rng.randrange(2, 37), rng.randrange(2, 37)])
        ops.append(("radix %s %d" % (h, r), cls))
    if e != 2047:
        ops.append(("fbase %s %d" % (h, rng.randrange(2, 37)), cls))
    m = rng.randrange(2, 5)
    p = rng.randrange(1, 101) if m != 2 else rng.randrange(0, 101)
    ops.append(("ftostr %s %d %d" % (h, m, p), cls))


def gen_tie_ops(rng, n, ops):
    """doubles x = m / 2^t or m·2^t whose exact decimal expansion ends in 5: toFixed / toExponential / toPrecision ties,
    plus their neighbours one ulp away"""
    for _ in range(n):
        t = rng.randrange(1, 40)
        m = rng.randrange(1, 1 << rng.randrange(1, 53)) | 1
        if rng.random() < 0.25:
            # integer ending in 5
            m = (rng.randrange(1, 1 << rng.randrange(3, 50)) | 1) * 5
            x = float(m)
            dec = str(m)
            fdt = None
        else:
            x = m / float(1 << t)           # exact (m < 2^53)
            dec = str(m * 5 ** t)            # x = dec / 10^t
            fdt = t - 1
        D = len(dec)
        b0 = fbits(x)
        for d in (0, 0, -1, 1):
            b = b0 + d
            if rng.getrandbits(1):
                b |= 1 << 63
            h = hexbits(b)
            cls = "tie" if d == 0 else "tie-nbhd"
            if fdt is not None and 0 <= fdt <= 100:
                ops.append(("fixed %s %d" % (h, fdt), cls))
                ops.append(("ftostr %s 2 %d" % (h, fdt), cls))
            if 2 <= D <= 101:
                ops.append(("prec %s %d" % (h, D - 1), cls))
                ops.append(("exp %s %d" % (h, D - 2), cls))
                ops.append(("ftostr %s %d %d" % (h, rng.choice([3, 4]), D - 1), cls))
            if D >= 3 and rng.random() < 0.3:
                ops.append(("prec %s %d" % (h, D - 2), cls))


def gen_halfway_strings(rng, n, ops):
    for _ in range(n):
        r = rng.random()
        if r < 0.15:
            k = rng.randrange(0, 1 << 52)                       # subnormal
        elif r < 0.2:
            k = rng.choice([0, 1, (1 << 52) - 1, 1 << 52, INF_ORD - 1, INF_ORD - 2])
        elif r < 0.4:
            e = rng.randrange(1, 2047)
            k = (e << 52) + rng.choice([0, 1, (1 << 52) - 1, (1 << 52) - 2]) - rng.randrange(0, 2)
        else:
            k = rng.randrange(0, INF_ORD)
        k = max(0, min(k, INF_ORD - 1))
        s, e = halfway_digits(k)
        variants = [(s, e, "halfway")]
        si = int(s)
        variants.append((str(si + 1), e, "halfway+1"))
        if si > 1:
            t = str(si - 1)
            variants.append((t, e, "halfway-1"))
        if len(s) < 790:
            pad = rng.randrange(1, min(40, 800 - len(s)))
            variants.append((s + "0" * (pad - 1) + "1", e - pad, "halfway+eps"))
        if len(s) > 25:
            cut = rng.choice([17, 18, 19, 20, 21, 25, 40, len(s) - 1, rng.randrange(1, len(s))])
            variants.append((s[:cut], e + len(s) - cut, "halfway-trunc"))
        for (ds, de, cls) in rng.sample(variants, min(len(variants), 3)):
            txt = render(rng, ds, de)
            sign = rng.choice(["", "", "-", "+"])
            which = rng.randrange(4)
            if which == 0:
                ops.append(("num " + enc(sign + txt), cls))
            elif which == 1:
                ops.append(("pfloat " + enc(sign + txt + rng.choice(["", "", "x", "e", ".5", "e+"])), cls))
            elif which == 2:
                if not txt.startswith("."):
                    ops.append(("lit " + enc(txt), cls))
                else:
                    ops.append(("lit " + enc(txt), cls))
            else:
                ops.append(("num " + enc(ws(rng) + sign + txt + ws(rng)), cls))


def gen_random_decimal(rng, n, ops):
    for _ in range(n):
        nd = rng.choice([1, 2, 5, 15, 16, 17, 18, 19, 20, 21, 30, 100, 400, 800, rng.randrange(1, 801), rng.randrange(1, 40)])
        s = str(rng.randrange(1, 10)) + "".join(rng.choice("0123456789") for _ in range(nd - 1))
        r = rng.random()
        if r < 0.8:
            p = rng.randrange(-330, 312)        # position of the leading digit
        elif r < 0.9:
            p = rng.choice([-326, -325, -324, -323, -322, 307, 308, 309, 310])
        else:
            p = rng.choice([-5000, -450, -400, 400, 450, 5000, 99999999, -99999999])
        e = p - nd
        txt = render(rng, s, e) if abs(p) < 1000 else s + "e" + str(e)
        sign = rng.choice(["", "", "-", "+"])
        which = rng.randrange(3)
        cls = "random-decimal"
        if which == 0:
            ops.append(("num " + enc(sign + txt), cls))
        elif which == 1:
            ops.append(("pfloat " + enc(sign + txt + rng.choice(["", "", "px", "e", "_1"])), cls))
        else:
            ops.append(("lit " + enc(txt), cls))


def rand_case(rng, s):
    return "".join(c.upper() if rng.random() < 0.3 else c for c in s)


def gen_int_strings(rng, n, ops):
    """parseInt / prefixed literals / Number("0x…"): integers in radix r of any length, incl. exact halfway integers"""
    for _ in range(n):
        r = rng.choice([2, 4, 8, 10, 16, 32, 36, 3, 7, rng.randrange(2, 37), rng.randrange(2, 37)])
        t = rng.random()
        if t < 0.35:
            # halfway integer between adjacent doubles >= 2^53, ± 1
            e = rng.randrange(1076, 1076 + rng.choice([12, 12, 64, 200]))
            k = (e << 52) + rng.getrandbits(52)
            num = mag(k) + mag(k + 1)
            v = num >> 1075
            v += rng.choice([0, 0, 1, -1, r, -r])
            cls = "int-halfway"
        elif t < 0.55:
            v = rng.choice([1 << 53, 1 << 63, 1 << 64, (1 << 63) - 1, (1 << 53) + 1, 10 ** 20, 10 ** 21, 1 << 1023, (1 << 1024) - (1 << 970), 1 << 1024]) + rng.randrange(-3, 4)
            cls = "int-boundary"
        elif t < 0.8:
            v = rng.getrandbits(rng.choice([8, 31, 32, 52, 53, 54, 62, 63, 64, 65, 70, 100, 128, 300, 1000, 1030]))
            cls = "int-random"
        else:
            v = rng.randrange(0, 1 << 40)
            cls = "int-small"
        v = max(v, 0)
        ds = rand_case(rng, tobase(v, r))
        which = rng.randrange(5)
        if which <= 1:
            sign = rng.choice(["", "", "-", "+"])
            tail = rng.choice(["", "", "", ".", "px", " ", "_", ".9", "\u3000", "\x85"])
            if r == 16 and rng.random() < 0.5:
                ops.append(("pint %d %s" % (rng.choice([0, 16]), enc(sign + rng.choice(["0x", "0X"]) + ds + tail)), cls))
            elif r == 10 and rng.random() < 0.5:
                ops.append(("pint 0 " + enc(ws(rng) + sign + ds + tail), cls))
            else:
                ops.append(("pint %d %s" % (r, enc(sign + ds + tail)), cls))
        else:
            r2 = rng.choice([2, 8, 16, 10])
            pre = {2: "0b", 8: "0o", 16: "0x", 10: ""}[r2]
            if rng.random() < 0.3:
                pre = pre.upper()
            ds = rand_case(rng, tobase(v, r2))
            if which == 2:
                ops.append(("lit " + enc(pre + ds), cls))
            elif which == 3:
                ops.append(("num " + enc(pre + ds), cls))
            else:
                ops.append(("num " + enc(rng.choice(["", "-", "+", " ", "\ufeff\n"]) + pre + ds + rng.choice(["", "", " ", "n", ".", "\u2029"])), cls))


MISC_STRINGS = ["", " ", "Infinity", "-Infinity", "+Infinity", "infinity", "INFINITY", "Inf", "inf", "NaN", "nan", "1e", "1e+", "e5",
                ".", "+.", "-.", "0x", "0b", "0o", "0x1p3", "1_0", "1__0", "_1", "++1", "--1", "+-1", "1..2", "1.2.3", "- 1", "0b102",
                "0o8", "0xg", "-0x10", "+0x10", "-0b1", "1e1e1", "1e1.5", ".e1", "0.e1", "0e0", "-0", "+0", "-0.0", "0.0e-999", "-0e999",
                "00", "007", "08", "1e0001", "1e-0001", "1E5", "1e+5", ".5", "5.", "-.5", "+5.", "5.e1", "٣", "1,5", "1 2", "0x 1",
                "1e400", "-1e400", "1e-400", "-1e-400", "Infinityx", "Infinity1", "1n", "0x10n", "9007199254740993", "9007199254740992",
                "4.9e-324", "2.4703282292062327e-324", "2.4703282292062328e-324", "2.47032822920623272e-324", "1.7976931348623158e308",
                "1.7976931348623159e308", "0x-5", "0x+5", "0b-1", "0o+7", "0x_1", "0x1_0", "0X", "0b2", "0o9", "1e-", "+Infinity ", "Infinity x", " Infinity", "- Infinity", "\ufeff-Infinity\u2028", "179769313486231580793728971405303415079934132710037826936173778980444968292764750946649017977587207096330286416692887910946555547851940402630657488671505820681908902000708383676273854845817711531764475730270069855571366959622842914819860834936475292719074168444365510704342711559699508093042880177904174497791.999",
                "0x7fffffffffffffff", "0x8000000000000000", "0xffffffffffffffff", "0x10000000000000000", "0b" + "1" * 64, "0o" + "7" * 22]


def gen_ws(rng, n, ops):
    """white-space handling: every StrWhiteSpaceChar (and look-alikes that are NOT white space) around / inside numeric text"""
    bodies = ["12", "-1.5", "+.5e1", "0x1f", "Infinity", "-Infinity", "1e21", "0", "-0", "5e-324", "9007199254740993", "0b11", ""]
    for _ in range(n):
        b = rng.choice(bodies)
        r = rng.random()
        if r < 0.45:
            t = "".join(rng.choice(WS) for _ in range(rng.randrange(0, 4))) + b + "".join(rng.choice(WS) for _ in range(rng.randrange(0, 4)))
            cls = "ws-trim"
        elif r < 0.7:
            c = rng.choice(NOT_WS)
            t = rng.choice([c + b, b + c, rng.choice(WS) + c + b, b + c + rng.choice(WS)])
            cls = "ws-lookalike"
        elif r < 0.85 and len(b) > 1:
            i = rng.randrange(1, len(b))
            t = b[:i] + rng.choice(WS) + b[i:]
            cls = "ws-inside"
        else:
            t = "".join(rng.choice(WS + NOT_WS) for _ in range(rng.randrange(1, 4)))
            cls = "ws-only"
        which = rng.randrange(3)
        if which == 0:
            ops.append(("num " + enc(t), cls))
        elif which == 1:
            ops.append(("pfloat " + enc(t), cls))
        else:
            ops.append(("pint %d %s" % (rng.choice([0, 10, 16, 0, 2]), enc(t)), cls))


# characters that look like digits / letters of numeric text but are not: non-ASCII decimal digits (Nd), superscripts,
# roman numerals, full-width forms, an astral digit (surrogate pair), lone surrogates and H-H-L adjacency
NOT_DIGITS = ["\u0663", "\u06f5", "\u0967", "\uff11", "\uff10", "\u00b2", "\u2160", "\u2082", "\U0001d7cf", "\U0001d7ec",
              "\ud800", "\udc00", "\ud835\ud835\udfcf", "\udfcf\ud835", "\uff25", "\uff0e", "\uff0b", "\u2212", "\u221e", "\u0130"]


def gen_unicode(rng, n, ops):
    """non-ASCII digits, look-alike signs/points/exponent letters and (lone) surrogates before / inside / after numeric text:
    Number must give NaN, parseFloat / parseInt must stop there"""
    bodies = ["12", "1.5", "-7", "0x1f", "1e3", "9007199254740993", "0.000001", "123456789012345678901", "Infinity", "5e-324"]
    for _ in range(n):
        b = rng.choice(bodies)
        c = rng.choice(NOT_DIGITS)
        r = rng.random()
        if r < 0.35:
            t = b + c
            cls = "uni-after"
        elif r < 0.6:
            t = c + b
            cls = "uni-before"
        elif r < 0.9 and len(b) > 1:
            i = rng.randrange(1, len(b))
            t = b[:i] + c + b[i:]
            cls = "uni-inside"
        else:
            t = c * rng.randrange(1, 3)
            cls = "uni-only"
        if rng.random() < 0.3:
            t = rng.choice(WS) + t + rng.choice(WS)
        which = rng.randrange(3)
        if which == 0:
            ops.append(("num " + enc(t), cls))
        elif which == 1:
            ops.append(("pfloat " + enc(t), cls))
        else:
            ops.append(("pint %d %s" % (rng.choice([0, 10, 16, 36, 2]), enc(t)), cls))


def gen_misc(rng, ops):
    for s in MISC_STRINGS:
        for op in ("num", "pfloat"):
            ops.append(("%s %s" % (op, enc(s)), "misc"))
        ops.append(("pint %d %s" % (rng.choice([0, 10, 16, 2, 36, 37, 1, -1, 8]), enc(s)), "misc"))
    for s in ["0", "1", "0.5", ".5", "5.", "1e3", "1E-3", "0x1F", "0b101", "0o17", "0XaB", "1e308", "1e309", "5e-324", "2e-324", "3e-324",
              "0.1e1", "123456789012345678901234567890", "0x8000000000000401", "0xFFFFFFFFFFFFFFFFFF", "0b" + "1" * 70, "0o" + "7" * 30,
              "0x" + "f" * 300, "0x1" + "0" * 256, "9007199254740993", "18446744073709551616", "1.0000000000000002220446049250313080847263336181640625",
              "1.00000000000000011102230246251565404236316680908203125", "1.00000000000000011102230246251565404236316680908203126"]:
        ops.append(("lit " + enc(s), "misc"))


def few_bit_doubles(nbits):
    """all positive finite doubles with at most `nbits` significant bits (normal and subnormal), as bit patterns"""
    out = []
    for e in range(1, 2047):
        for m in range(1 << (nbits - 1)):
            out.append((e << 52) | (m << (52 - (nbits - 1))))
    seen = set()
    for k in range(52):                       # subnormals: m·2^k with m < 2^nbits
        for m in range(1, 1 << nbits):
            v = m << k
            if v < (1 << 52) and v not in seen:
                seen.add(v)
                out.append(v)
    return out


def float16_doubles():
    """every positive finite IEEE binary16 value, as a double bit pattern (exact)"""
    out = []
    for h in range(1, 0x7c00):
        e, m = h >> 10, h & 0x3ff
        x = (m / 1024.0) * 2.0 ** -14 if e == 0 else (1 + m / 1024.0) * 2.0 ** (e - 15)
        out.append(fbits(x))
    return out


def gen_exhaustive(shard, tier):
    """EXHAUSTIVE small domains (enumerated, not sampled; op i goes to shard i mod NSHARDS; the sign alternates).
    Returns (ops, {domain: total size})."""
    ops, dom = [], {}
    def emit(all_ops, name):
        dom[name] = len(all_ops)
        ops.extend((o, "exh:" + name) for i, o in enumerate(all_ops) if i % NSHARDS == shard)
    def sgn(i, b):
        return b | ((i & 1) << 63)
    nb = 2 if tier == "quick" else 5
    fb = few_bit_doubles(nb)
    emit([op % hexbits(sgn(i, b)) for i, b in enumerate(fb) for op in (("tostr %s", "rt %s") if tier == "quick" else ("tostr %s", "rt %s", "expu %s"))],
         "doubles-with<=%d-significant-bits x {String, Number(String)%s}" % (nb, "" if tier == "quick" else ", toExponential()"))
    md = 1 if tier == "quick" else 2
    dec = ["%de%d" % (m, e) for m in range(1, 10 ** md) for e in range(-330, 311)]
    emit(["num " + enc(t) for t in dec], "decimal-strings-mantissa<=%d-digits x exponent -330..310 (Number)" % md)
    if tier != "quick":
        f16 = float16_doubles()
        rr = random.Random(16)
        allops = []
        for i, b in enumerate(f16):
            h = hexbits(sgn(i, b))
            allops += ["tostr " + h, "rt " + h, "prec %s %d" % (h, rr.randrange(1, 22)), "fixed %s %d" % (h, rr.randrange(0, 31)),
                       "radix %s %d" % (h, rr.randrange(2, 37))]
        emit(allops, "all-finite-binary16-values x {String, Number(String), toPrecision, toFixed, toString(radix)}")
        two = []
        for r in range(2, 37):
            for a in range(r):
                for b in range(r):
                    two.append("pint %d %s" % (r, enc(DIG[a] + DIG[b])))
        emit(two, "all-two-digit-strings x radix 2..36 (parseInt)")
    return ops, dom


def gen_ops(seed, shard, tier):
    rng = random.Random(seed * 1000003 + shard * 7919 + (17 if tier == "thorough" else 0))
    f = 1 if tier == "quick" else 11
    ops = []
    for (b, cls) in gen_doubles(rng, 270 * f):
        ops_for_double(rng, b, cls, ops)
    gen_tie_ops(rng, 80 * f, ops)
    gen_halfway_strings(rng, 280 * f, ops)
    gen_random_decimal(rng, 360 * f, ops)
    gen_int_strings(rng, 400 * f, ops)
    gen_ws(rng, 200 * f, ops)
    gen_unicode(rng, 150 * f, ops)
    if shard == 0:
        gen_misc(rng, ops)
    ops += gen_exhaustive(shard, tier)[0]
    return ops


# ----------------------------------------------------------------------------- judging
def to_driver_line(op, res):
    """harness op + result -> checker line"""
    w = op.split(" ")
    if w[0] == "ftostr":
        mode, p = int(w[2]), int(w[3])
        if mode == 0:
            return "tostr %s %s" % (w[1], res)
        if mode == 1:
            return "expu %s %s" % (w[1], res)
        if mode == 2:
            return "fixed %s %d %s" % (w[1], p, res)
        if mode == 3:
            return "exp %s %d %s" % (w[1], p - 1, res)
        return "prec %s %d %s" % (w[1], p, res)
    return op + " " + res


def signature(op, res, verdict):
    """canonical class of a rejected conversion: operation + the checker's reason (matched against
    known_findings.d/C12.json; all entries there are `fixed` now and suppress nothing)"""
    w = op.split(" ")
    why = verdict[4:] if verdict.startswith("bad ") else verdict
    why = why.split(" expected=")[0].split(" model=")[0]
    if res == "TIMEOUT":
        why = "hang"
    elif res == "CRASH" or res.startswith("PANIC"):
        why = "crash"
    if w[0] == "ftostr":
        return "ftostr-mode%s:%s" % (w[2], why)
    return "%s:%s" % (w[0], why)


def run_shard(args):
    seed, shard, tier, harness, model = args
    ops = gen_ops(seed, shard, tier)
    lines = [o for (o, _) in ops]
    data = "\n".join(lines) + "\n"
    ph = subprocess.run([harness], input=data, stdout=subprocess.PIPE, stderr=subprocess.PIPE, text=True, errors="replace")
    res = ph.stdout.split("\n")[:-1]
    out = {"n": len(ops), "bad": [], "tags": collections.Counter(), "opmix": collections.Counter(), "cls": collections.Counter(),
           "err": None, "samples": [], "nontriv": 0, "distinct": 0}
    if ph.returncode != 0 or len(res) != len(lines):
        out["err"] = "harness rc=%d, %d results for %d ops: %s" % (ph.returncode, len(res), len(lines), ph.stderr[-400:])
        return out
    dl = [to_driver_line(o, r if r else "<empty>") for o, r in zip(lines, res)]
    verd = None
    if model and os.path.exists(model):
        pm = subprocess.run([model], input="\n".join(dl) + "\n", stdout=subprocess.PIPE, stderr=subprocess.PIPE, text=True, errors="replace")
        verd = pm.stdout.split("\n")[:-1]
        if pm.returncode != 0 or len(verd) != len(dl):
            out["err"] = "checker rc=%d, %d verdicts for %d lines: %s" % (pm.returncode, len(verd), len(dl), pm.stderr[-400:])
            return out
    else:
        out["err"] = "checker executable missing"
        return out
    seen = set()
    for (o, cls), r, d, v in zip(ops, res, dl, verd):
        w0 = o.split(" ", 1)[0]
        out["opmix"][w0] += 1
        out["cls"][cls] += 1
        if v.startswith("ok "):
            tag = v[3:]
            out["tags"][tag] += 1
            if o not in seen:
                seen.add(o)
                out["distinct"] += 1
                if tag not in ("nan", "inf", "zero", "rt") and not tag.endswith(":nan"):
                    out["nontriv"] += 1
        else:
            out["bad"].append((o, r, d, v, cls))
    step = max(1, len(ops) // 3)
    out["samples"] = ["%s -> %s  [%s]" % (dl[i][:150], verd[i], ops[i][1]) for i in range(shard % step, len(ops), step)][:2]
    return out


def corpus_ops():
    d = os.path.join(ROOT, "corpus", PROP)
    ops = []
    if os.path.isdir(d):
        for fn in sorted(os.listdir(d)):
            if fn.endswith(".ops"):
                for l in open(os.path.join(d, fn)):
                    l = l.rstrip("\n")
                    if l and not l.startswith("#"):
                        ops.append(l)
    return ops


def judge(ctx, harness, model, ops):
    rc, res, err = ctx.run_lines([harness], ops)
    if rc != 0 or len(res) != len(ops):
        return None, "harness rc=%d %s" % (rc, err[-300:])
    dl = [to_driver_line(o, r if r else "<empty>") for o, r in zip(ops, res)]
    rc, verd, err = ctx.run_lines([model], dl)
    if rc != 0 or len(verd) != len(dl):
        return None, "checker rc=%d %s" % (rc, err[-300:])
    return list(zip(ops, res, dl, verd)), None


THEOREMS_MIN = 35


def main(ctx):
    regen_ok = ctx.regen()        # Generated/C12_Layout.lean from ftoa/ftostr.go + builtin_number.go of the current tree
    ok, errs = ctx.lake_build(["GojaModel.C12.Props", "model_c12"])
    # the Tie is built separately: if the regenerated decision structure changed, Props and the checker still build
    # and the implementation-side search (the correspondence run below) still runs
    tie_ok, tie_errs = ctx.lake_build(["GojaModel.C12.Tie"]) if regen_ok else (False, [])
    ctx.obligation("tie:regenerated-decisions(FToStr guards/switch/tail, Number.prototype front-ends, FToBaseStr skeleton)=expected", "tie",
                   bool(regen_ok and tie_ok), "" if (regen_ok and tie_ok) else "regen_ok=%s %s" % (regen_ok, json.dumps(tie_errs)[:800]))
    ctx.audit("GojaModel.C12.Props", expect_min=THEOREMS_MIN)
    if regen_ok and tie_ok and ctx.tier == "thorough":
        ctx.audit("GojaModel.C12.Tie", expect_min=10)   # quick: Tie is re-checked by the build; its axioms are audited in thorough
    if ctx.tier == "thorough":
        ctx.leanchecker("GojaModel.C12.Props")
        ctx.leanchecker("GojaModel.C12.Tie")
    ctx.log("lean build + audit done")
    harness = ctx.go_build("c12")
    ctx.log("harness built")
    model = ctx.model_exe("model_c12")
    ctx.trusted_base += [
        "C12: the transcription of ECMA-262 text grammars/layouts (StringToNumber, parseFloat, parseInt, NumericLiteral; Number::toString, "
        "toFixed, toExponential, toPrecision layout) in lean/GojaModel/C12/Model.lean — executable definitions, partly covered by theorems",
        "C12: the Lean compiler/runtime executing the checkers (model_c12) and GMP big-number arithmetic behind Nat",
        "C12: the python generator's big-integer construction of halfway cases only steers sampling; verdicts come from the Lean checkers",
    ]
    ctx.assumptions += [
        "Universality over all 2^64 doubles x digit counts x radices and over all strings is SAMPLED: every checked output is certified "
        "by a proved checker (dtoa_certified_partial); outputs not generated are not covered.",
        "No model of ftoa's dtoa/Grisu internals; a change there is visible only through an output some checker rejects.",
                "Magnitudes >= 10^400 / < 10^-400 in input text are classified huge/tiny without expanding the power (driver logic, not a theorem).",
    ]
    if harness is None or not os.path.exists(model):
        if not os.path.exists(model):
            ctx.obligation("corr:checker-available", "correspondence", False, "model_c12 not built")
        return ctx.finish(level="proof", rule=RULE)

    bad_all = []
    # corpus first
    cops = corpus_ops()
    if cops:
        rows, err = judge(ctx, harness, model, cops)
        if rows is None:
            ctx.obligation("corr:corpus", "correspondence", False, err)
        else:
            ctx.count(len(rows))
            for (o, r, d, v) in rows:
                if not v.startswith("ok "):
                    bad_all.append((o, r, d, v, "corpus"))
            ctx.stats["corpus_ops"] = len(rows)

    jobs = [(ctx.seed, sh, ctx.tier, harness, model) for sh in range(NSHARDS)]
    tags, opmix, cls = collections.Counter(), collections.Counter(), collections.Counter()
    errors = []
    distinct = nontriv = 0
    with ProcessPoolExecutor(max_workers=NSHARDS) as ex:
        for out in ex.map(run_shard, jobs):
            ctx.count(out["n"])
            if out["err"]:
                errors.append(out["err"])
            tags.update(out["tags"]); opmix.update(out["opmix"]); cls.update(out["cls"])
            bad_all += out["bad"]
            distinct += out["distinct"]; nontriv += out["nontriv"]
            for s in out["samples"]:
                ctx.sample(s)
    ctx.log("shards done")
    ctx.obligation("corr:pipeline(harness+checker ran on every generated conversion)", "correspondence", not errors, "; ".join(errors)[:1500])
    # distinct non-trivial cases: distinct op lines (per shard; shards use different seeds) whose verdict is not a NaN/Inf/zero special
    ctx.nontrivial = set(range(nontriv))
    ctx.stats["exhaustive_domains(enumerated completely, sizes in ops)"] = gen_exhaustive(0, ctx.tier)[1]
    ctx.stats["distinct_ops"] = distinct
    ctx.stats["op_mix"] = dict(opmix)
    ctx.stats["input_classes"] = dict(cls)
    ctx.stats["checker_tags"] = dict(tags)

    # A TIMEOUT (the worker burnt > 1.5 s of CPU on one conversion) or CRASH is inconclusive until confirmed:
    # the op is re-run alone (at most 6 ops per run) with a 6 s CPU limit and re-judged; only a repeat counts.
    sus = [row for row in bad_all if row[1] in ("TIMEOUT", "CRASH")]
    if sus:
        env = dict(os.environ); env["VERIF_C12_LIMIT_MS"] = "6000"
        redone = []
        for row in sus[:6]:
            p1 = subprocess.run([harness], input=row[0] + "\n", stdout=subprocess.PIPE, stderr=subprocess.PIPE, text=True, env=env)
            r = (p1.stdout.split("\n") or ["CRASH"])[0] or "CRASH"
            d = to_driver_line(row[0], r)
            p2 = subprocess.run([model], input=d + "\n", stdout=subprocess.PIPE, stderr=subprocess.PIPE, text=True)
            v = (p2.stdout.split("\n") or ["bad checker-crash"])[0] or "bad checker-crash"
            redone.append((row[0], r, d, v, row[4]))
        ids = {id(r) for r in sus[:6]}
        bad_all = [row for row in bad_all if id(row) not in ids] + [x for x in redone if not x[3].startswith("ok ")]
        ctx.stats["timeouts"] = {"first_pass": len(sus), "retried": len(redone), "confirmed": sum(1 for x in redone if x[1] in ("TIMEOUT", "CRASH"))}
    # every rejected output is a concrete violation of the property on the real implementation
    sigs = collections.OrderedDict()
    for (o, r, d, v, c) in bad_all:
        sigs.setdefault(signature(o, r, v), []).append((o, r, d, v, c))
    unknown = 0
    for sig, rows in sigs.items():
        rows.sort(key=lambda t: len(t[0]))
        o, r, d, v, c = rows[0]
        st = ctx.violation(sig, "%s -> %s rejected by checker: %s (%d cases)" % (o[:100], r[:60], v, len(rows)),
                           {"kind": "input", "op": o, "observed": r, "checker_line": d, "verdict": v, "class": c,
                            "expected": "an output the certifying checker accepts (see design/C12.md)", "more": [x[0][:200] for x in rows[1:6]]})
        if st != "known":
            unknown += 1
    ctx.stats["rejected"] = {s: len(r) for s, r in sigs.items()}
    ctx.obligation("corr:all-checked-outputs-certified", "correspondence", unknown == 0,
                   "%d rejected outputs in %d classes" % (len(bad_all), len(sigs)))
    return ctx.finish(level="proof", rule=RULE)


RULE = ("ops generated per shard from VERIF_SEED: doubles by class (uniform bits, pow2/pow10 neighbourhoods, subnormals, 2^53/2^63/1e21 "
        "boundaries, integerish, short decimals, mid-range, few-bits, specials) x {String, toExponential(), toFixed/toExponential/toPrecision "
        "with digits 0..100, toString(radix 2..36), ftoa.FToStr/FToBaseStr direct}; exact-tie doubles (m/2^t, integers ending in 5) with the "
        "digit count that makes the tie; decimal strings: exact halfway points between adjacent doubles (big-integer arithmetic) and ±1 unit "
        "in the last place / +eps / truncated, random decimals up to 800 digits, several layouts; integer strings in radix 2..36 (halfway "
        "integers, 2^53/2^63/2^64/2^1024 boundaries, up to 1030 bits) through parseInt / literals / Number. distinct = distinct op lines; "
        "non-trivial = verdict not one of the NaN/Infinity/zero special cases")


def replay(ctx, path):
    rep = json.load(open(path))
    ctx.lake_build(["model_c12"])
    harness = ctx.go_build("c12")
    model = ctx.model_exe("model_c12")
    op = rep.get("op")
    if not op or harness is None:
        print("cannot replay", path)
        return 2
    rows, err = judge(ctx, harness, model, [op])
    if rows is None:
        print("replay failed:", err)
        return 2
    o, r, d, v = rows[0]
    print("op:        ", o)
    print("observed:  ", r)
    print("checker:   ", v)
    print("recorded:  ", rep.get("observed"), "/", rep.get("verdict"))
    return 0 if v.startswith("ok ") else 1
