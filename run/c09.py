"""
C09 — generators / async functions resume faithfully under any driver call sequence.

Check = Lean theorems on the spec model GenReplay (a generator body IS a state machine), on the mechanism model
GenCtx (suspend/resume offset rebasing, handleThrow, enterNextFinallyFrame), on their link (GenLink) and on the async
runner (Async)  +  differential correspondence of the real goja against the executable models: bodies from a grammar
x driver histories (exhaustive to length 4 over {next,throw,return} x 2 payloads, sampled to length 6), every command
issued from a different host stack depth; white-box dumps of the generator's try frames before suspension / saved /
after resumption checked against the model's `suspend`/`resume`; the same bodies as async functions driven by
settled / later-settled promises.

AST (python tuples/lists; JSON round trip turns tuples into lists, everything below only indexes):
  expr : ("L",val) ("V",x) ("A",a,b) ("Y",e) ("YS",spec) ("C",[(spread,e)..]) ("T",lit0,[(e,lit)..]) ("=",x,e) ("B",x,e) ("R",k)
  cond : ("EQ"|"NE",a,b)
  stmt : ("X",e) ("G",e) ("D",[(x,default|None)..],[(spread,e)..]) ("I",cond,then,else) ("F",lbl,x,n,body) ("W",lbl,cond,body)
         ("TR",block,(x,catch)|None,finally|None) ("O",lbl,x,("a",args)|("t",spec),body) ("RT",e) ("TH",e) ("BK",lbl) ("CN",lbl)
         ("BL",d,val,body)   block scope at nesting depth d (1..3): { let s = val; closures capturing s; body }
  variables: 0..5 = function-level x0..x5; 6+d = the binding named `s` of the block scope at depth d (6 = function level).
  All these bindings have the SAME name `s` in the JavaScript (shadowing) and are captured by closures (so each lives in its
  own scope object): inside depth d, `s` means slot 6+d; an outer slot 6+d' (d' < d) is reached through the closures
  GS<d'>() / SS<d'>(v) / WS<d'>(v) declared with it.
  spec : (id, is_gen, ret(0 none,1 ok,2 throws,3 non-object), thr(0 none,1 rethrow,2 done,3 continue,4 non-object), [items]);
         10 <= id < 40 (object kind): the iterator's second next() makes a re-entrant G.next/throw/return (id//10-1);
         id >= 40 (object kind): the iterator's second next() throws "N<id>";  lbl : None | int
"""
import json, os, itertools, hashlib, time
from concurrent.futures import ThreadPoolExecutor
from vlib import *

PAYLOADS = ["i7", "spq"]
CMDS = [k + ":" + p for k in "ntr" for p in PAYLOADS]           # the 6-letter driver alphabet
ACMDS = [k + ":" + p for k in "nt" for p in PAYLOADS]           # async: fulfil / reject
NDEPTH = 9                                                      # host-depth variants DV[0..8] of the harness
NSTYLE = 5                                                      # promise settle styles of the harness

# ----------------------------------------------------------------------------------------- AST helpers
def L(v): return ("L", v)
def V(x): return ("V", x)
def A(a, b): return ("A", a, b)
def Y(e): return ("Y", e)
def YS(spec): return ("YS", spec)
def CJ(*args): return ("C", [a if isinstance(a, tuple) and len(a) == 2 and isinstance(a[0], bool) else (False, a) for a in args])
def SP(e): return (True, e)
def T(l0, *rest): return ("T", l0, list(rest))
def ASG(x, e): return ("=", x, e)
def B(x, e): return ("B", x, e)
def X(e): return ("X", e)
def G(e): return ("G", e)
def TR(b, c=None, f=None): return ("TR", b, c, f)
def F(x, n, body, lbl=None): return ("F", lbl, x, n, body)
def W(cond, body, lbl=None): return ("W", lbl, cond, body)
def O(x, src, body, lbl=None): return ("O", lbl, x, src, body)
def BK(lbl=None): return ("BK", lbl)
def CN(lbl=None): return ("CN", lbl)
def BL(d, val, body): return ("BL", d, val, body)
def SV_(d): return ("V", 6 + d)

def spec(id, is_gen, ret=0, thr=0, items=("i1", "i2")): return (id, int(is_gen), ret, thr, list(items))

# ---- tokens (the Lean driver's input format)
def tok_lbl(l): return ["_" if l is None else str(l)]

def tok_spec(s):
    return [str(s[0]), "g" if s[1] else "o", str(int(s[2])), str(s[3]), str(len(s[4]))] + list(s[4])

def tok_args(args):
    out = [str(len(args))]
    for sp, e in args:
        out += ["*" if sp else "."] + tok_e(e)
    return out

def tok_e(e):
    t = e[0]
    if t == "L": return ["L", e[1]]
    if t == "V": return ["V", str(e[1])]
    if t == "A": return ["A"] + tok_e(e[1]) + tok_e(e[2])
    if t == "Y": return ["Y"] + tok_e(e[1])
    if t == "YS": return ["YS"] + tok_spec(e[1])
    if t == "C": return ["C"] + tok_args(e[1])
    if t == "T":
        out = ["T", str(len(e[2])), "s" + e[1]]
        for ex, l in e[2]:
            out += tok_e(ex) + ["s" + l]
        return out
    if t == "=": return ["=", str(e[1])] + tok_e(e[2])
    if t == "B": return ["B", str(e[1])] + tok_e(e[2])
    if t == "R": return ["R", str(e[1])]
    raise ValueError(e)

def tok_c(c): return [c[0]] + tok_e(c[1]) + tok_e(c[2])

def tok_block(b):
    out = [str(len(b))]
    for s in b:
        out += tok_s(s)
    return out

def tok_s(s):
    t = s[0]
    if t == "X": return ["X"] + tok_e(s[1])
    if t == "G": return ["G"] + tok_e(s[1])
    if t == "D":
        out = ["D", str(len(s[1]))]
        for x, d in s[1]:
            out += [str(x)] + (["-"] if d is None else ["+"] + tok_e(d))
        return out + tok_args(s[2])
    if t == "I": return ["I"] + tok_c(s[1]) + tok_block(s[2]) + tok_block(s[3])
    if t == "F": return ["F"] + tok_lbl(s[1]) + [str(s[2]), str(s[3])] + tok_block(s[4])
    if t == "W": return ["W"] + tok_lbl(s[1]) + tok_c(s[2]) + tok_block(s[3])
    if t == "TR":
        out = ["TR"] + tok_block(s[1])
        out += ["-"] if s[2] is None else ["c", str(s[2][0])] + tok_block(s[2][1])
        out += ["-"] if s[3] is None else ["f"] + tok_block(s[3])
        return out
    if t == "O":
        src = s[3]
        return ["O"] + tok_lbl(s[1]) + [str(s[2])] + (["a"] + tok_args(src[1]) if src[0] == "a" else ["t"] + tok_spec(src[1])) + tok_block(s[4])
    if t == "RT": return ["RT"] + tok_e(s[1])
    if t == "TH": return ["TH"] + tok_e(s[1])
    if t == "BK": return ["BK"] + tok_lbl(s[1])
    if t == "CN": return ["CN"] + tok_lbl(s[1])
    if t == "BL": return ["BL", str(6 + s[1]), s[2]] + tok_block(s[3])
    raise ValueError(s)

# ---- JavaScript
def js_val(v):
    return "undefined" if v == "u" else v[1:] if v[0] == "i" else json.dumps(v[1:])

def js_spec(s):
    return "MK(%d,%s,%d,%d,[%s])" % (s[0], "true" if s[1] else "false", int(s[2]), s[3], ",".join(js_val(v) for v in s[4]))

def js_lbl(l): return "" if l is None else "L%d: " % l
def js_tgt(l): return "" if l is None else " L%d" % l

def scope_decl(d, val):
    return "let s = %s; const GS%d = () => s; const SS%d = v => (s = v); const WS%d = v => (s = s + v); " % (js_val(val), d, d, d)

class JS:
    """Renders with the current block-scope depth `d` (0 = function level)."""
    def __init__(self, mode="gen", probe=False):
        self.mode, self.probe = mode, probe

    def args(self, args, d):
        return ", ".join(("..." if sp else "") + self.e(e, d) for sp, e in args)

    def var(self, x, d):
        if x < 6: return "x%d" % x
        return "s" if x - 6 == d else "GS%d()" % (x - 6)

    def e(self, e, d=0):
        t = e[0]
        if t == "L": return js_val(e[1])
        if t == "V": return self.var(e[1], d)
        if t == "A": return "(%s + %s)" % (self.e(e[1], d), self.e(e[2], d))
        if t == "Y":
            if self.mode == "async": return "(await P(%s))" % self.e(e[1], d)
            if self.probe: return "PRV(1, yield PRV(0, %s))" % self.e(e[1], d)
            return "(yield %s)" % self.e(e[1], d)
        if t == "YS": return "(yield* %s)" % js_spec(e[1])
        if t == "C": return "J(%s)" % self.args(e[1], d)
        if t == "T": return "`" + e[1] + "".join("${%s}%s" % (self.e(ex, d), l) for ex, l in e[2]) + "`"
        if t == "=":
            if e[1] < 6 or e[1] - 6 == d: return "(%s = %s)" % (self.var(e[1], d), self.e(e[2], d))
            return "SS%d(%s)" % (e[1] - 6, self.e(e[2], d))
        if t == "B":
            return ("B%d(%s)" % (e[1], self.e(e[2], d))) if e[1] < 6 else ("WS%d(%s)" % (e[1] - 6, self.e(e[2], d)))
        if t == "R": return "R(%d)" % e[1]
        raise ValueError(e)

    def c(self, c, d):
        return "%s %s %s" % (self.e(c[1], d), "===" if c[0] == "EQ" else "!==", self.e(c[2], d))

    def block(self, b, d): return "{ " + " ".join(self.s(s, d) for s in b) + " }"

    def s(self, s, d=0):
        t = s[0]
        if t == "X": return self.e(s[1], d) + ";"
        if t == "G": return "L(%s);" % self.e(s[1], d)
        if t == "D":
            tg = ", ".join(self.var(x, d) + ("" if dd is None else " = " + self.e(dd, d)) for x, dd in s[1])
            return "[%s] = [%s];" % (tg, self.args(s[2], d))
        if t == "I": return "if (%s) %s else %s" % (self.c(s[1], d), self.block(s[2], d), self.block(s[3], d))
        if t == "F": return "%sfor (x%d = 0; x%d !== %d; x%d = x%d + 1) %s" % (js_lbl(s[1]), s[2], s[2], s[3], s[2], s[2], self.block(s[4], d))
        if t == "W": return "%swhile (%s) %s" % (js_lbl(s[1]), self.c(s[2], d), self.block(s[3], d))
        if t == "TR":
            out = "try " + self.block(s[1], d)
            if s[2] is not None:
                out += " catch (e_) { %s = C(e_); %s }" % (self.var(s[2][0], d), " ".join(self.s(z, d) for z in s[2][1]))
            if s[3] is not None:
                out += " finally " + self.block(s[3], d)
            return out
        if t == "O":
            src = s[3]
            return "%sfor (x%d of %s) %s" % (js_lbl(s[1]), s[2], "[%s]" % self.args(src[1], d) if src[0] == "a" else js_spec(src[1]), self.block(s[4], d))
        if t == "RT": return "return %s;" % self.e(s[1], d)
        if t == "TH": return "throw %s;" % self.e(s[1], d)
        if t == "BK": return "break%s;" % js_tgt(s[1])
        if t == "CN": return "continue%s;" % js_tgt(s[1])
        if t == "BL": return "{ " + scope_decl(s[1], s[2]) + " ".join(self.s(z, s[1]) for z in s[3]) + " }"
        raise ValueError(s)

def js_func(body, mode, probe, decl):
    """decl: (declaration keyword of x0..x5 as a string of 'l'/'v', set of extra closure-captured vars)"""
    j = JS(mode, probe)
    kws, cap = decl
    lets = [i for i in range(6) if kws[i] == "l"]
    vars_ = [i for i in range(6) if kws[i] == "v"]
    head = ""
    if lets: head += "let " + ", ".join("x%d" % i for i in lets) + "; "
    if vars_: head += "var " + ", ".join("x%d" % i for i in vars_) + "; "
    head += "const B4 = d => (x4 = x4 + d); const B5 = d => (x5 = x5 + d); "
    head += scope_decl(0, "u")
    for i in sorted(cap):
        head += "const K%d = () => x%d; " % (i, i)
    name = "function* GEN()" if mode == "gen" else "async function AGEN()"
    return name + " { " + head + " ".join(j.s(s, 0) for s in body) + " }"

# ----------------------------------------------------------------------------------------- walking
def expr_nodes(e):
    yield e
    t = e[0]
    if t == "A": yield from expr_nodes(e[1]); yield from expr_nodes(e[2])
    elif t == "Y": yield from expr_nodes(e[1])
    elif t == "C":
        for _, a in e[1]: yield from expr_nodes(a)
    elif t == "T":
        for a, _ in e[2]: yield from expr_nodes(a)
    elif t in ("=", "B"): yield from expr_nodes(e[2])

def sub_blocks(s):
    """(index-path setter info) child blocks of a statement: list of (key, block)"""
    t = s[0]
    if t == "I": return [(2, s[2]), (3, s[3])]
    if t == "F": return [(4, s[4])]
    if t == "W": return [(3, s[3])]
    if t == "O": return [(4, s[4])]
    if t == "BL": return [(3, s[3])]
    if t == "TR":
        out = [(1, s[1])]
        if s[2] is not None: out.append(("c", s[2][1]))
        if s[3] is not None: out.append((3, s[3]))
        return out
    return []

def own_exprs(s):
    t = s[0]
    if t in ("X", "G", "RT", "TH"): return [s[1]]
    if t == "D": return [d for _, d in s[1] if d is not None] + [a for _, a in s[2]]
    if t == "I": return [s[1][1], s[1][2]]
    if t == "W": return [s[2][1], s[2][2]]
    if t == "O" and s[3][0] == "a": return [a for _, a in s[3][1]]
    return []

def stmt_exprs(s):
    for e in own_exprs(s):
        yield from expr_nodes(e)
    for _, b in sub_blocks(s):
        for z in b:
            yield from stmt_exprs(z)

def body_features(body):
    f = set()
    def ws(s, ctx):
        t = s[0]
        f.add("s:" + t + ("+label" if t in ("BK", "CN") and s[1] is not None else ""))
        for e0 in own_exprs(s):
            for e in expr_nodes(e0):
                f.add("e:" + e[0])
                if e[0] in ("Y", "YS"):
                    f.add("yield-in:" + ("cond" if t in ("I", "W") else ctx))
        if t == "O":
            sp = s[3]
            f.add("forof:" + ("arr" if sp[0] == "a" else ("gen" if sp[1][1] else "obj-ret%d" % sp[1][2])))
        if t == "TR":
            for z in s[1]: ws(z, "try")
            if s[2] is not None:
                for z in s[2][1]: ws(z, "catch")
            if s[3] is not None:
                for z in s[3]: ws(z, "finally")
        else:
            for _, b in sub_blocks(s):
                for z in b: ws(z, {"F": "loop", "W": "loop", "O": "forof"}.get(t, ctx))
    for s in body: ws(s, "top")
    return f

def async_ok(body):
    return not any(e[0] in ("YS", "R") for s in body for e in stmt_exprs(s))

def count_yields(body):
    return sum(1 for s in body for e in stmt_exprs(s) if e[0] in ("Y", "YS"))

def bad_scopes(body, depth=0):
    """True if a scoped slot 6+d is used outside the block scope that declares it, a block's depth does not follow its
    position, or an outer slot is a destructuring / catch target (not expressible through the closures)."""
    def ebad(e):
        return any(n[0] in ("V", "=", "B") and n[1] >= 6 and n[1] - 6 > depth for n in expr_nodes(e))
    for s in body:
        t = s[0]
        if any(ebad(e) for e in own_exprs(s)): return True
        if t == "D" and any(x >= 6 and x - 6 != depth for x, _ in s[1]): return True
        if t == "TR" and s[2] is not None and s[2][0] >= 6 and s[2][0] - 6 != depth: return True
        if t == "BL":
            if s[1] != depth + 1 or bad_scopes(s[3], depth + 1): return True
        else:
            for _, b in sub_blocks(s):
                if bad_scopes(b, depth): return True
    return False

def bad_jumps(body, labels=(), inloop=False):
    """True if a break/continue has no target (used by the shrinker to reject candidates)."""
    for s in body:
        t = s[0]
        if t in ("BK", "CN"):
            if s[1] is None and not inloop: return True
            if s[1] is not None and s[1] not in labels: return True
        elif t in ("F", "W", "O"):
            lb = labels + ((s[1],) if s[1] is not None else ())
            if bad_jumps(sub_blocks(s)[0][1], lb, True): return True
        else:
            for _, b in sub_blocks(s):
                if bad_jumps(b, labels, inloop): return True
    return False

# ----------------------------------------------------------------------------------------- systematic bodies
def systematic_bodies():
    """Hand-enumerated bodies: a yield in every expression position, every region of try/catch/finally, every loop
    kind with break/continue (labelled and not), every iterator-spec variant for yield* and for-of (incl. a throwing
    `return`).  Always run, exhaustively to length 4."""
    y1, y2, y3 = Y(L("i1")), Y(L("i2")), Y(L("i3"))
    bs = []
    bs.append([G(A(y1, y2))])                                                  # operands
    bs.append([G(A(L("sa"), A(y1, A(L("i5"), y2))))])
    bs.append([G(CJ(L("i1"), y1, y2, L("sz")))])                               # call arguments
    bs.append([G(CJ(y1, SP(y2), y3))])                                         # spread
    bs.append([G(CJ(SP(L("sab")), SP(y1), L("i9")))])
    bs.append([G(T("a", (y1, "b"), (y2, "c")))])                               # template parts
    bs.append([G(T("", (A(y1, L("i1")), ""), (L("sx"), "")))])
    bs.append([("D", [(0, y1), (1, None), (4, y2)], [(False, L("u")), (False, L("i5"))]), G(CJ(V(0), V(1), V(4)))])   # destructuring defaults
    bs.append([("D", [(0, y1), (1, y2)], [(False, y3), (True, Y(L("i4")))]), G(CJ(V(0), V(1)))])
    bs.append([("I", ("EQ", y1, L("i7")), [G(L("st"))], [G(y2)]), G(L("se"))])  # condition operands
    bs.append([("I", ("NE", L("spq"), y1), [G(y2)], []), ("RT", y3)])
    bs.append([X(ASG(0, y1)), X(ASG(1, A(V(0), y2))), G(V(1)), ("RT", V(0))])   # locals survive
    bs.append([X(ASG(4, L("i1"))), G(B(4, y1)), G(B(4, A(y2, L("i1")))), G(V(4))])   # closure-captured local
    bs.append([X(ASG(5, L("sq"))), G(A(B(5, y1), B(5, y2)))])
    bs.append([("TH", y1)])
    bs.append([("RT", A(y1, y2))])
    bs.append([G(Y(Y(Y(L("i1")))))])                                           # nested yields
    bs.append([G(("R", 0)), G(L("i1"))])                                       # re-entrancy (uncaught)
    for k in range(3):
        bs.append([TR([G(A(y1, ("R", k)))], (0, [G(V(0)), G(y2)]), None), G(L("sd"))])   # re-entrancy (caught)
    # try / catch / finally regions
    bs.append([TR([G(y1)], None, [G(L("sf"))]), G(L("sd"))])
    bs.append([TR([G(y1)], (0, [G(V(0))]), None), G(L("sd"))])
    bs.append([TR([G(y1)], (0, [G(A(V(0), y2))]), [G(L("sf")), G(y3)]), G(L("sd"))])
    bs.append([TR([TR([G(y1)], None, [G(L("sf1"))])], None, [G(L("sf2"))]), G(L("sd"))])
    bs.append([TR([TR([G(y1)], None, [G(y2), G(L("sf1"))])], None, [G(y3), G(L("sf2"))]), G(L("sd"))])
    bs.append([TR([TR([("TH", y1)], (1, [("TH", A(V(1), y2))]), [G(L("sf1"))])], (0, [G(V(0))]), [G(L("sf2"))])])
    bs.append([TR([("RT", y1)], None, [G(y2)]), G(L("sd"))])
    bs.append([TR([G(y1)], None, [("RT", y2)]), G(L("sd"))])                   # finally overrides
    bs.append([TR([G(y1)], None, [("TH", L("sz"))]), G(L("sd"))])
    bs.append([TR([TR([G(y1)], None, [G(L("sf1")), ("TH", y2)])], (0, [G(V(0))]), [G(L("sf2"))])])
    bs.append([TR([TR([G(y1)], None, [TR([("TH", L("i3"))], (1, [G(V(1))]), None), G(y2)])], (0, [G(V(0))]), [G(L("so"))]), ("RT", L("i9"))])
    # loops, break / continue
    bs.append([F(3, 2, [G(A(V(3), y1))]), G(L("sd"))])
    bs.append([F(3, 2, [TR([G(y1), BK()], None, [G(y2)])]), G(L("sd"))])
    bs.append([F(3, 2, [TR([G(y1), CN()], None, [G(y2)]), G(L("sn"))]), G(L("sd"))])
    bs.append([F(3, 2, [TR([G(y1)], None, [BK()])]), TR([G(("R", 2))], None, [("TH", CJ(SP(L("i1"))))])])   # break out of a return-triggered finally
    bs.append([X(ASG(2, L("i0"))), W(("NE", V(2), L("i2")), [X(ASG(2, A(V(2), L("i1")))), G(A(y1, V(2)))]), G(L("sd"))])
    bs.append([X(ASG(2, L("i0"))), W(("NE", V(2), L("i2")), [X(ASG(2, A(V(2), L("i1")))), ("I", ("EQ", y1, L("i7")), [CN()], []), G(V(2))]), G(L("sd"))])
    bs.append([O(0, ("a", [(False, L("i1")), (False, y1), (True, y2)]), [G(A(V(0), y3))]), G(L("sd"))])
    bs.append([O(0, ("a", [(False, L("i1")), (False, L("i2"))]), [TR([G(y1)], None, [G(V(0))])]), G(L("sd"))])
    bs.append([F(3, 2, [O(0, ("t", spec(1, 1)), [TR([G(y1), CN(1)], None, [G(L("sf"))]), G(L("sx"))])], 1), G(L("sd"))])   # labelled continue through for-of + finally
    bs.append([O(0, ("t", spec(1, 0, 1, 0)), [O(1, ("t", spec(2, 1)), [("I", ("EQ", y1, L("i7")), [BK(1)], [CN(1)])]), G(L("sx"))], 1), G(L("sd"))])
    n = 0
    for is_gen in (1, 0):
        for ret in ((0,) if is_gen else (0, 1, 2)):
            for thr in ((0,) if is_gen else (0, 1, 2, 3)):
                if ret == 2 and thr in (2, 3): continue
                n += 1
                sp = spec(n % 10, is_gen, ret, thr)
                bs.append([G(A(L("sv"), YS(sp))), G(L("sd"))])                                     # yield* value
                bs.append([TR([X(YS(sp))], (0, [G(V(0)), G(y1)]), [G(L("sf"))]), G(L("sd"))])      # yield* in try
                if thr in (0, 1):
                    bs.append([O(1, ("t", sp), [G(A(V(1), y1))]), G(L("sd"))])                     # for-of over it
                    bs.append([TR([O(1, ("t", sp), [TR([G(y1)], None, [G(L("sfi"))])])], (0, [G(V(0))]), [G(y2)])])
                    bs.append([TR([O(1, ("t", sp), [("I", ("EQ", y1, L("i7")), [BK()], [CN()])])], (0, [G(V(0))]), None), G(L("sd"))])
    # yield* / for-of corner cases: result of return()/throw() not an object; re-entrant driver call from inside the iterator
    for sp in (spec(1, 0, 3, 0), spec(2, 0, 1, 4), spec(3, 0, 3, 4), spec(4, 0, 0, 4)):
        bs.append([TR([G(A(L("sv"), YS(sp)))], (0, [G(V(0)), G(y1)]), [G(L("sf"))]), G(L("sd"))])
        bs.append([TR([O(1, ("t", sp), [("I", ("EQ", y1, L("i7")), [BK()], [])])], (0, [G(V(0))]), None), G(L("sd"))])
    for kd in (1, 2, 3, 4):
        sp = spec(10 * kd + 5, 0, 1, 1, ["i1", "i2", "i3"])
        bs.append([TR([G(A(L("sv"), YS(sp)))], (0, [G(V(0)), G(y1)]), [G(L("sf"))]), G(L("sd"))])
        bs.append([TR([O(1, ("t", sp), [G(A(V(1), y1))])], (0, [G(V(0))]), None), G(L("sd"))])
    bs.append([O(0, ("t", spec(1, 1)), [O(1, ("t", spec(2, 0, 1, 0)), [G(CJ(V(0), V(1), y1))])]), G(L("sd"))])
    bs.append([O(0, ("t", spec(1, 1)), [G(y1), BK()]), G(y2)])
    bs.append([X(YS(spec(3, 0, 1, 0, []))), X(YS(spec(4, 1, 0, 0, []))), G(y1)])
    bs.append([G(A(YS(spec(5, 1, 0, 0, ["i1"])), YS(spec(6, 0, 0, 3, ["i2"]))))])
    # block scopes with closure-captured let bindings named `s` at every level (shadowing): a finally / catch block must
    # run in the scope of its try statement, whatever inner scope the body was suspended in (seeded mutation C09-m3)
    s0, s1, s2 = SV_(0), SV_(1), SV_(2)
    bs.append([X(ASG(6, L("sA"))), TR([BL(1, "sB", [G(A(s0, s1)), G(y1), G(L("snr"))])], None,
                                      [G(s0), X(ASG(6, L("sA2"))), G(y2), G(s0)]), G(s0)])
    bs.append([X(ASG(6, L("sA"))), TR([BL(1, "sB", [G(y1), X(ASG(7, A(s1, L("i1")))), G(A(s0, s1))])], (6, [G(s0), X(B(6, L("sc"))), G(y2), G(s0)]),
                                      [G(s0), X(B(6, L("sf"))), G(y3), G(s0)]), G(s0)])
    bs.append([X(ASG(6, L("sA"))), BL(1, "sB", [TR([BL(2, "sC", [G(CJ(s0, s1, s2)), X(ASG(6, A(s0, y1))), X(B(7, L("sp"))), G(y2)])],
                                                     (1, [G(CJ(V(1), s0, s1)), X(ASG(7, L("sB2"))), G(y3)]),
                                                     [G(CJ(s0, s1)), X(ASG(7, A(s1, L("sq")))), X(B(6, L("sr"))), G(y1), G(CJ(s0, s1))]), G(CJ(s0, s1))]), G(s0)])
    bs.append([X(ASG(6, L("sA"))), TR([BL(1, "sB", [TR([BL(2, "sC", [G(y1), G(CJ(s0, s1, s2))])], None, [G(CJ(s0, s1)), X(B(7, L("si"))), G(y2)])])], None,
                                      [G(s0), X(B(6, L("so"))), G(y3), G(s0)])])
    bs.append([X(ASG(6, L("sA"))), F(3, 2, [TR([BL(1, "sB", [G(A(y1, s1)), CN()])], None, [G(s0), X(B(6, L("sl")))])]), G(s0)])
    bs.append([X(ASG(6, L("sA"))), TR([O(0, ("t", spec(1, 1)), [BL(1, "sB", [G(CJ(V(0), s1, y1))])])], (1, [G(CJ(V(1), s0))]), [G(s0), X(ASG(6, L("sZ"))), G(y2), G(s0)])])
    # the seed-3 finding of round 1 (handleThrow's stale try-frame pointer after an inner generator's return()), generalised
    bs.append([TR([O(1, ("t", spec(5, 1, 0, 0, ["i1"])), [G(Y(y1))])], None, [F(3, 2, [G(L("spq")), G(ASG(1, A(Y(L("sa")), L("i7"))))])])])
    return bs

# ----------------------------------------------------------------------------------------- random bodies
class Gen:
    def __init__(self, rng):
        self.r = rng
        self.nid = 0
        self.depth = 0          # current block-scope nesting depth

    def scope_touch(self):
        """statements that read AND write the closure-captured `s` of every scope open here"""
        r = self.r
        ds = list(range(self.depth + 1))
        out = [G(CJ(*[V(6 + i) for i in ds]))]
        i = r.choice(ds)
        out.append(X(ASG(6 + i, A(V(6 + i), L(r.choice(["sw", "i1"])))) if r.random() < 0.5 else B(6 + i, L("sv"))))
        return out

    def val(self):
        return self.r.choice(["i0", "i1", "i2", "i3", "i5", "sa", "sbc", "u", "spq", "i7"])

    def spec(self):
        self.nid = (self.nid + 1) % 10
        is_gen = self.r.random() < 0.5
        items = [self.r.choice(["i1", "i2", "sk", "u"]) for _ in range(self.r.choice([0, 1, 2, 2, 3]))]
        ret = 0 if is_gen else self.r.choice([0, 1, 1, 2, 3])
        thr = 0 if is_gen else (self.r.randrange(2) if ret in (2, 3) else self.r.randrange(5))
        id = self.nid
        if not is_gen and len(items) > 1 and self.r.random() < 0.3:
            id += 10 * self.r.randrange(1, 5)          # 1..3: re-entrant call from inside the iterator's second next(); 4: it throws
        return spec(id, int(is_gen), ret, thr, items)

    def avar(self):
        """a variable to read / assign: x0, x1, x4, x5 or the `s` of one of the block scopes currently open"""
        r = self.r
        if r.random() < 0.35: return 6 + r.randrange(self.depth + 1)
        return r.choice([0, 1, 4, 5])

    def expr(self, d, inloop=False):
        r = self.r
        if d <= 0:
            return r.choice([L(self.val()), L(self.val()), V(self.avar()), Y(L(self.val()))])
        k = r.random()
        if k < 0.30: return Y(self.expr(d - 1))
        if k < 0.45: return A(self.expr(d - 1), self.expr(d - 1))
        if k < 0.55: return CJ(*[(r.random() < 0.3, self.expr(d - 1)) for _ in range(r.randrange(1, 4))])
        if k < 0.63: return T(r.choice(["", "a"]), *[(self.expr(d - 1), r.choice(["", "b", "c"])) for _ in range(r.randrange(1, 3))])
        if k < 0.72: return ASG(self.avar(), self.expr(d - 1))
        if k < 0.79: return B(r.choice([4, 5] + [6 + i for i in range(self.depth + 1)]), self.expr(d - 1))
        if k < 0.84 and not inloop: return YS(self.spec())
        if k < 0.87: return ("R", r.randrange(3))
        return self.expr(0)

    def cond(self, d):
        return (self.r.choice(["EQ", "NE"]), self.expr(d), self.expr(d - 1))

    def block(self, d, n, ctx):
        return [self.stmt(d, ctx) for _ in range(n)]

    def label(self, ctx):
        if self.r.random() < 0.3:
            l = len(ctx["labels"]) + 1
            return l, dict(ctx, loop=True, labels=ctx["labels"] + [l])
        return None, dict(ctx, loop=True)

    def stmt(self, d, ctx):
        """ctx: dict(loop=bool, f=bool (the `for` variable x3 is in use), labels=[enclosing loop labels])"""
        r = self.r
        k = r.random()
        ed = r.choice([1, 1, 2, 2, 3])
        if d <= 0 or k < 0.21: return G(self.expr(ed, ctx["loop"]))
        if k < 0.30: return X(self.expr(ed, ctx["loop"]))
        if k < 0.38:
            tg = [(r.choice([0, 1, 4, 6 + self.depth]), self.expr(1) if r.random() < 0.6 else None) for _ in range(r.randrange(1, 4))]
            src = [(r.random() < 0.25, self.expr(1) if r.random() < 0.5 else L("u")) for _ in range(r.randrange(0, 3))]
            return ("D", tg, src)
        if k < 0.46: return ("I", self.cond(1), self.block(d - 1, r.randrange(1, 3), ctx), self.block(d - 1, r.randrange(0, 2), ctx))
        if k < 0.54 and not ctx["f"]:
            lbl, c2 = self.label(ctx)
            return F(3, r.choice([1, 2, 2]), self.block(d - 1, r.randrange(1, 3), dict(c2, f=True)), lbl)
        if k < 0.74:
            if self.depth < 3 and r.random() < 0.4:     # the try block is (or contains) an inner block scope
                self.depth += 1
                inner = self.block(d - 1, r.randrange(1, 3), ctx)
                b = [BL(self.depth, r.choice(["sB", "sC", "i0", "u"]), inner)]
                self.depth -= 1
            else:
                b = self.block(d - 1, r.randrange(1, 3), ctx)
            c = (r.choice([0, 1, 6 + self.depth]), self.block(d - 1, r.randrange(1, 3), ctx)) if r.random() < 0.55 else None
            f = self.block(d - 1, r.randrange(1, 3), ctx) if (c is None or r.random() < 0.6) else None
            if r.random() < 0.5:
                if c is not None: c = (c[0], self.scope_touch() + c[1])
                if f is not None: f = self.scope_touch() + f + (self.scope_touch() if r.random() < 0.5 else [])
            return TR(b, c, f)
        if k < 0.86:
            x = r.choice([0, 1])
            if r.random() < 0.4:
                src = ("a", [(r.random() < 0.2, self.expr(1)) for _ in range(r.randrange(1, 3))])
            else:
                src = ("t", self.spec())
            lbl, c2 = self.label(ctx)
            return O(x, src, self.block(d - 1, r.randrange(1, 3), c2), lbl)
        if k < 0.885 and self.depth < 3:
            self.depth += 1
            inner = self.block(d - 1, r.randrange(1, 4), ctx)
            self.depth -= 1
            return BL(self.depth + 1, r.choice(["sB", "sC", "i0", "u"]), inner)
        if k < 0.90: return ("RT", self.expr(ed, ctx["loop"]))
        if k < 0.93: return ("TH", self.expr(1, ctx["loop"]))
        if ctx["loop"]:
            lbl = r.choice(ctx["labels"]) if (ctx["labels"] and r.random() < 0.5) else None
            return BK(lbl) if r.random() < 0.5 else CN(lbl)
        return G(self.expr(ed))

    def body(self):
        r = self.r
        self.depth = 0
        top = dict(loop=False, f=False, labels=[])
        b = self.block(r.choice([1, 2, 2, 3]), r.randrange(1, 5), top)
        if r.random() < 0.15:   # a while loop with a dedicated counter x2 (incremented first, so `continue` terminates)
            b.insert(r.randrange(len(b) + 1), W(("NE", V(2), L("i%d" % r.choice([1, 2]))),
                     [X(ASG(2, A(V(2), L("i1"))))] + self.block(1, r.randrange(1, 3), dict(top, loop=True))))
            b.insert(0, X(ASG(2, L("i0"))))
        return b

    def decl(self):
        r = self.r
        return ("".join(r.choice("lv") for _ in range(6)), set(i for i in range(4) if r.random() < 0.25))

# ----------------------------------------------------------------------------------------- histories
def all_hists(alpha, n):
    return [" ".join(h) for h in itertools.product(alpha, repeat=n)]

def rand_digits(rng, n, base):
    return "".join(str(rng.randrange(base)) for _ in range(n))

# ----------------------------------------------------------------------------------------- running
def shard_run(ctx, cmd, lines, nshard=14, timeout=600, what=""):
    """Run a line-protocol command over `lines`, sharded.  A shard that fails or times out is retried once, alone and
    with a longer timeout (a slow machine is not a violation).  Returns (outputs in order, list of line indices that
    still produced nothing — each of those was run alone with a generous timeout)."""
    if not lines:
        return [], []
    nshard = max(1, min(nshard, len(lines)))
    idx = [list(range(i, len(lines), nshard)) for i in range(nshard)]
    out = [None] * len(lines)
    def one(ix, to):
        rc, o, err = ctx.run_lines(cmd, [lines[i] for i in ix], timeout=to)
        return ix, rc, o, err
    with ThreadPoolExecutor(nshard) as ex:
        res = list(ex.map(lambda ix: one(ix, timeout), idx))
    retry = []
    for ix, rc, o, err in res:
        if rc == 0 and len(o) == len(ix):
            for i, l in zip(ix, o): out[i] = l
        else:
            ctx.log("%s shard inconclusive (rc=%s, %d/%d lines) — retrying: %s" % (what, rc, len(o), len(ix), err[-200:]))
            for i, l in zip(ix, o): out[i] = l          # lines answered before the failure are good
            retry += [i for i in ix[len(o):]]
    dead = []
    if retry:
        def alone(i):
            rc, o, err = ctx.run_lines(cmd, [lines[i]], timeout=180)
            return i, (o[0] if (rc == 0 and o) else None), rc
        with ThreadPoolExecutor(min(8, len(retry))) as ex:
            for i, l, rc in ex.map(alone, retry):
                out[i] = l
                if l is None: dead.append((i, rc))
    return out, dead

def cut_async(trace):
    out = []
    for part in trace.split(" "):
        out.append(part)
        r = part.split(";", 1)[1] if ";" in part else part
        if not r.startswith("Y("):
            break
    return " ".join(out)

class Case:
    __slots__ = ("body", "decl", "mode", "probe", "hists", "depths", "create", "tag", "exp", "sig", "lay")
    def __init__(self, body, decl, mode, probe, hists, depths, create, tag, sig=None):
        self.body, self.decl, self.mode, self.probe = body, decl, mode, probe
        self.hists, self.depths, self.create, self.tag = hists, depths, create, tag
        self.exp, self.sig, self.lay = None, sig, None
    def src(self): return js_func(self.body, self.mode, self.probe, self.decl)
    def tokens(self): return " ".join(tok_block(self.body))
    def harness_line(self):
        return json.dumps({"mode": self.mode, "src": self.src(), "hists": self.hists, "depths": self.depths,
                           "create": self.create, "probe": self.probe})
    def model_line(self):
        hs = self.hists if self.mode == "gen" else [("n:u " + h).strip() for h in self.hists]
        return "G " + self.tokens() + " # " + " # ".join(hs)
    def single(self, i):
        return Case(self.body, self.decl, self.mode, self.probe, [self.hists[i]], [self.depths[i]], [self.create[i]], self.tag, self.sig)

def set_expected(case, model_out):
    """case.exp = spec traces, case.lay = Link.encode layout after each command"""
    raw = model_out.split(" # ")
    tr, lay = [], []
    for t in raw:
        a, _, b = t.partition(" ~ ")
        tr.append(a.strip()); lay.append(b.strip())
    case.lay = lay
    case.exp = [cut_async(t) for t in tr] if case.mode == "async" else tr

def first_diff(exp, obs):
    e, o = exp.split(" "), obs.split(" ")
    for i in range(max(len(e), len(o))):
        if i >= len(e) or i >= len(o) or e[i] != o[i]:
            return i
    return None

def compare(case, hline):
    """-> (mismatches [(i, exp, obs)], mech [[q, obs]], idle, err)"""
    try:
        h = json.loads(hline)
    except Exception:
        return [(0, "?", "harness output unparsable: " + str(hline)[:200])], [], "?", "unparsable"
    if h.get("err"):
        return [(0, "?", "harness error: " + h["err"])], [], h.get("idle", "?"), h["err"]
    obs = h.get("traces") or []
    exp = case.exp
    mm = [(i, exp[i] if i < len(exp) else "?", obs[i] if i < len(obs) else "?")
          for i in range(max(len(exp), len(obs))) if i >= len(exp) or i >= len(obs) or exp[i] != obs[i]]
    return mm, h.get("mech") or [], h.get("idle", "ok"), None

# ----------------------------------------------------------------------------------------- shrinking
def replace_block(s, key, nb):
    ns = list(s)
    if key == "c":
        ns[2] = (s[2][0], nb)
    else:
        ns[key] = nb
    return tuple(ns)

def sub_bodies(body):
    """Candidate smaller bodies: delete one statement anywhere, hoist a child block, drop a catch / finally."""
    def rec(block):
        for i, s in enumerate(block):
            yield block[:i] + block[i + 1:]
            for key, sb in sub_blocks(s):
                yield block[:i] + list(sb) + block[i + 1:]
                for nb in rec(list(sb)):
                    yield block[:i] + [replace_block(s, key, nb)] + block[i + 1:]
            if s[0] == "TR":
                if s[2] is not None:
                    yield block[:i] + [("TR", s[1], None, s[3] if s[3] is not None else [])] + block[i + 1:]
                if s[3] is not None and s[2] is not None:
                    yield block[:i] + [("TR", s[1], s[2], None)] + block[i + 1:]
    yield from rec(list(body))

def single_mismatch(ctx, harness, model, case):
    """Run a single-history case through model and harness in a fresh runtime; returns (i, exp, obs) or None.
    A harness timeout is retried once with a long timeout before it counts."""
    ml = ctx.run_lines([model], [case.model_line()], timeout=120)[1]
    if not ml:
        return None
    set_expected(case, ml[0])
    rc, hl, err = ctx.run_lines([harness], [case.harness_line()], timeout=60)
    if rc == 124 or not hl:
        rc, hl, err = ctx.run_lines([harness], [case.harness_line()], timeout=240)
    if rc == 124 or not hl:
        return (0, case.exp[0], "goja did not return within 240 s (hang or crash): " + err[-200:])
    mm, _, idle, _ = compare(case, hl[0])
    if not mm and idle != "ok":
        mm = [(0, case.exp[0] + " / idle ok", json.loads(hl[0]).get("traces", ["?"])[0] + " / " + idle)]
    return mm[0] if mm else None

def shrink(ctx, harness, model, case, i):
    """Minimise (body, history, depths) keeping a model/implementation disagreement."""
    cur = case.single(i)
    cur.probe = False
    if single_mismatch(ctx, harness, model, cur) is None:
        cur.probe = case.probe
        if single_mismatch(ctx, harness, model, cur) is None:
            return None     # only reproduces in the context of the other histories of the same runtime
    toks = cur.hists[0].split(" ")
    for n in range(1, len(toks)):      # shortest failing prefix
        c2 = Case(cur.body, cur.decl, cur.mode, cur.probe, [" ".join(toks[:n])],
                  [cur.depths[0][:n + 1] if cur.mode == "async" else cur.depths[0][:n]], cur.create, cur.tag)
        if single_mismatch(ctx, harness, model, c2) is not None:
            cur = c2
            break
    c2 = Case(cur.body, cur.decl, cur.mode, cur.probe, cur.hists, ["0" * len(cur.depths[0])], [0], cur.tag)
    if single_mismatch(ctx, harness, model, c2) is not None:
        cur = c2
    budget = 40
    progress = True
    while progress and budget > 0:
        progress = False
        for nb in sub_bodies(cur.body):
            budget -= 1
            if budget <= 0: break
            if not nb or bad_jumps(nb) or bad_scopes(nb): continue
            c2 = Case(nb, cur.decl, cur.mode, cur.probe, cur.hists, cur.depths, cur.create, cur.tag)
            try:
                if single_mismatch(ctx, harness, model, c2) is not None:
                    cur = c2
                    progress = True
                    break
            except Exception:
                continue
    return cur

def norm_ids(x):
    """Canonical form for signatures: iterator ids are irrelevant to behaviour classes -> 0."""
    if isinstance(x, (list, tuple)):
        if len(x) == 5 and isinstance(x[0], int) and not isinstance(x[0], bool) and isinstance(x[4], list) \
                and x[1] in (0, 1) and isinstance(x[2], int) and isinstance(x[3], int):
            return [0] + [norm_ids(y) for y in x[1:]]
        return [norm_ids(y) for y in x]
    return x

def sig_of(kind, c):
    return "%s:%s" % (kind, hashlib.sha1((" ".join(tok_block(norm_ids(c.body))) + "|" + c.hists[0]).encode()).hexdigest()[:10])

def replay_dict(c, exp, obs, shrunk):
    return {"kind": "history", "mode": c.mode, "source": c.src(), "body_tokens": c.tokens(), "decl": [c.decl[0], sorted(c.decl[1])],
            "probe": c.probe, "history": c.hists[0], "depths": c.depths[0], "create": c.create[0],
            "expected": exp, "observed": obs, "shrunk": shrunk, "body_ast": json.dumps(c.body)}

def report_case(ctx, harness, model, case, i, exp, obs, kind):
    """Shrink and report one disagreement; returns vlib's classification ("new" / "dup" / "known")."""
    if case.sig and i == 0:          # a corpus replay carries the signature of the finding it regresses
        c = case.single(0)
        return ctx.violation(case.sig, "%s {%s} history [%s] depths %s: spec %s / goja %s" % (c.mode, c.src()[:260], c.hists[0], c.depths[0], exp, obs),
                             replay_dict(c, exp, obs, False))
    small = shrink(ctx, harness, model, case, i) if model else None
    c = small or case.single(i)
    mm = single_mismatch(ctx, harness, model, c) if (model and small) else None
    mm = mm or (0, exp, obs)
    return ctx.violation(sig_of(kind, c), "%s body {%s} history [%s] depths %s: spec %s / goja %s" %
                         (c.mode, c.src()[:300], c.hists[0], c.depths[0], mm[1], mm[2]),
                         replay_dict(c, mm[1], mm[2], small is not None))

# ----------------------------------------------------------------------------------------- cases
def build_cases(ctx):
    rng = ctx.rng
    quick = ctx.tier == "quick"
    cases = []
    g = Gen(rng)
    ex4 = all_hists(CMDS, 4)
    aex = [h for n in range(0, 5) for h in all_hists(ACMDS, n)]
    def add_gen(body, decl, tag, hists, probe, sig=None):
        cases.append(Case(body, decl, "gen", probe, hists, [rand_digits(rng, len(h.split(" ")), NDEPTH) for h in hists],
                          [rng.randrange(2) for _ in hists], tag, sig))
    def add_async(body, decl, tag, hists, sig=None):
        cases.append(Case(body, decl, "async", False, hists, [rand_digits(rng, len(h.split(" ")) + 1 if h else 1, NSTYLE) for h in hists],
                          [rng.randrange(2) for _ in hists], tag, sig))
    def sampled(n5, n6):
        return [" ".join(rng.choice(CMDS) for _ in range(5)) for _ in range(n5)] + \
               [" ".join(rng.choice(CMDS) for _ in range(6)) for _ in range(n6)]
    # 1. corpus (first): minimised past failures; the recorded history with its recorded depths, then all of length 4
    cdir = os.path.join(ROOT, "corpus", ctx.prop)
    if os.path.isdir(cdir):
        for fn in sorted(os.listdir(cdir)):
            if fn.endswith(".json"):
                with open(os.path.join(cdir, fn)) as f:
                    d = json.load(f)
                body = json.loads(d["body_ast"])
                decl = (d["decl"][0], set(d["decl"][1]))
                if d.get("mode", "gen") == "gen":
                    # the recorded history once per host-depth variant of its commands as recorded, plus 7 uniform variants
                    hs = [d["history"]] * (1 + NDEPTH) + ex4
                    add_gen(body, decl, "corpus:" + fn, hs, bool(d.get("probe")), d.get("signature"))
                    c = cases[-1]
                    n = len(d["history"].split(" "))
                    c.depths[0] = (d.get("depths") or "0" * n)[:n].ljust(n, "0"); c.create[0] = d.get("create", 0)
                    for v in range(NDEPTH):
                        c.depths[1 + v] = str(v) * n; c.create[1 + v] = v % 2
                else:
                    add_async(body, decl, "corpus:" + fn, [d["history"]] + aex, d.get("signature"))
    # 2. systematic bodies: exhaustive length 4 (every history of length <= 4 is a prefix), + sampled 5/6
    for bi, body in enumerate(systematic_bodies()):
        decl = ("llllll" if bi % 2 == 0 else "vvlvll", set([0]) if bi % 3 == 0 else set())
        add_gen(body, decl, "sys%d" % bi, ex4 + sampled(10, 10), probe=(bi % 2 == 1))
        if async_ok(body):
            add_async(body, decl, "sys%d" % bi, aex)
    # 3. random bodies
    n_ex = N_EX_QUICK if quick else N_EX_THOROUGH
    n_sm = 100 if quick else 1200
    for i in range(n_ex + n_sm):
        body = g.body()
        tries = 0
        while count_yields(body) == 0 and tries < 5:
            body = g.body(); tries += 1
        decl = g.decl()
        if i < n_ex:
            add_gen(body, decl, "rnd%d" % i, ex4 + sampled(20, 20), probe=rng.random() < 0.5)
        else:
            hs = [" ".join(rng.choice(CMDS) for _ in range(rng.choice([1, 2, 3, 4, 5, 6, 6]))) for _ in range(60)]
            add_gen(body, decl, "rnd%d" % i, hs, probe=rng.random() < 0.5)
        if async_ok(body) and (i % 2 == 0):
            add_async(body, decl, "rnd%d" % i, aex if i < n_ex else [h for h in aex if rng.random() < 0.25])
    return cases

N_EX_QUICK, N_EX_THOROUGH = 20, 400
N_THEOREMS = 70

RULE = ("one evaluation = one (body, driver history) pair run on goja and on the Lean model (plus one per mechanism dump); "
        "distinct & non-trivial = distinct (mode, body, history) whose trace contains at least one suspension followed by a further command")

# ----------------------------------------------------------------------------------------- main
def main(ctx):
    t0 = time.time()
    regen_ok = ctx.regen()                                   # extract/c09.go -> Generated/C09_Decisions.lean
    ok, errs = ctx.lake_build(["GojaModel.C09.Props", "model_c09"])
    ctx.audit("GojaModel.C09.Props", expect_min=N_THEOREMS)
    if regen_ok:
        # regenerated decision facts interpreted and proved equal to the Mech / genPre definitions (separate build so that
        # a broken tie does not stop the model driver from building)
        tok, terrs = ctx.lake_build(["GojaModel.C09.Tie"])
        if tok:
            ctx.audit("GojaModel.C09.Tie", expect_min=10)
    if ctx.tier == "thorough":
        ctx.leanchecker("GojaModel.C09.Props")
    t1 = time.time()
    harness = ctx.go_build()
    model = ctx.model_exe()
    if not os.path.exists(model):
        model = None
    if harness is None:
        return ctx.finish(level="proof", rule=RULE)
    t2 = time.time()
    cases = build_cases(ctx)
    ctx.log("cases: %d bodies, %d histories (lean %.0fs, go build %.0fs)" % (len(cases), sum(len(c.hists) for c in cases), t1 - t0, t2 - t1))
    ml, mdead = shard_run(ctx, [model], [c.model_line() for c in cases], what="model") if model else (None, [])
    t3 = time.time()
    if model is not None and ml is not None and not mdead:
        for c, m in zip(cases, ml):
            set_expected(c, m)
    hl, hdead = shard_run(ctx, [harness], [c.harness_line() for c in cases], what="harness")
    t4 = time.time()
    ctx.stats["phase_seconds"] = {"lean_build_audit": round(t1 - t0, 1), "go_build": round(t2 - t1, 1), "model_run": round(t3 - t2, 1), "goja_run": round(t4 - t3, 1)}
    # a line that produced nothing even alone with a generous timeout: goja hung or crashed the process on that body
    for (i, rc) in hdead[:2]:
        c = cases[i]
        ctx.violation("hang:" + hashlib.sha1(c.tokens().encode()).hexdigest()[:10],
                      "harness did not answer (rc=%s) even alone with a 180 s budget on {%s}" % (rc, c.src()[:300]),
                      {"kind": "program", "mode": c.mode, "source": c.src(), "body_tokens": c.tokens(), "hists": c.hists[:50], "body_ast": json.dumps(c.body)})
    ctx.obligation("corr:harness-run", "correspondence", not hdead, "%d lines unanswered" % len(hdead))
    if model is None or ml is None or mdead:
        ctx.obligation("corr:model-run", "correspondence", False, "model driver unavailable or failing (Lean build broken?)")
        indep_oracle(ctx, cases, hl)        # the implementation-side search still runs: laws that need no model
        return ctx.finish(level="proof", rule=RULE)
    n_hist = 0; bad = {"gen": [], "async": []}; mech = {}; idle_bad = []; lay_bad = []; lay_n = 0
    feats = {}; reskinds = {"Y": 0, "D": 0, "T": 0}; lens = {}; depth_used = {}
    for c, h in zip(cases, hl):
        if h is None:
            continue
        mm, mrec, idle, err = compare(c, h)
        n_hist += len(c.hists)
        for q, o in mrec:
            mech[q] = o
        if idle != "ok":
            idle_bad.append((c, idle))
        if c.mode == "gen" and not mm:
            try:
                hlay = json.loads(h).get("layouts") or []
            except Exception:
                hlay = []
            for i, (ml_, hl_) in enumerate(zip(c.lay, hlay)):
                lay_n += ml_.count("[")
                if ml_ != hl_ and len(lay_bad) < 5:
                    lay_bad.append((c, i, ml_, hl_))
                elif ml_ != hl_:
                    lay_bad.append(None)
        bad[c.mode].extend((c, i, e, o) for i, e, o in mm)
        if not mm:
            for f in body_features(c.body):
                feats[f] = feats.get(f, 0) + 1
            for i, t in enumerate(c.exp):
                parts = t.split(" ") if t else []
                kinds = "".join(p.split(";", 1)[1][0] for p in parts if ";" in p)
                for ch in kinds:
                    if ch in reskinds: reskinds[ch] += 1
                lens[len(parts)] = lens.get(len(parts), 0) + 1
                if kinds.count("Y") >= 1 and len(kinds) >= 2:
                    ctx.nontriv((c.mode, c.tokens(), c.hists[i]))
            if c.mode == "gen":
                for d in c.depths:
                    for ch in d: depth_used[ch] = depth_used.get(ch, 0) + 1
    ctx.count(n_hist)
    for c in cases[:3] + cases[-3:]:
        ctx.sample({"mode": c.mode, "src": c.src()[:400], "history": c.hists[-1], "depths": c.depths[-1]})
    ctx.stats.update({"bodies": len(cases), "histories": n_hist, "features": dict(sorted(feats.items())),
                      "result_kinds": reskinds, "trace_lengths": dict(sorted(lens.items())), "host_depth_variants": depth_used,
                      "exhaustive": "all 1296 histories of length 4 (hence all of length <= 4) over {next,throw,return}x{7,'pq'} for the corpus, systematic and first %d random bodies; async: all fulfil/reject histories of length <= 4" % (N_EX_QUICK if ctx.tier == "quick" else N_EX_THOROUGH)})
    # concrete failing inputs (the spec model is the judge); a disagreement whose minimised form is a listed known finding is
    # explained, every other one breaks the correspondence obligation
    for kind in ("gen", "async"):
        unexplained = len(bad[kind])
        for (c, i, e, o) in bad[kind][:3]:
            if report_case(ctx, harness, model, c, i, e, o, kind) == "known":
                unexplained -= 1
        ctx.obligation("corr:%s-histories" % kind, "correspondence", unexplained == 0,
                       "%d disagreements (%d unexplained)" % (len(bad[kind]), unexplained))
    # compiler layout: goja's saved try stack at every suspension vs Link.encode of the spec continuation
    lb = [x for x in lay_bad if x is not None]
    ctx.stats["layout_suspensions_compared"] = lay_n
    ctx.obligation("corr:layout-encode", "correspondence", not lay_bad and lay_n > 0,
                   ("%d histories differ; first: {%s} history [%s]: encode %s / goja %s" % (len(lay_bad), lb[0][0].src()[:300], lb[0][0].hists[lb[0][1]], lb[0][2], lb[0][3])) if lb else "%d suspensions" % lay_n)
    # caller's vm at idle
    for (c, idle) in idle_bad[:2]:
        try:
            hi = int(idle.split(":")[0].split(" ")[1])
        except Exception:
            hi = 0
        c1 = c.single(hi)
        ctx.violation("idle:" + hashlib.sha1((c.tokens() + c.hists[hi]).encode()).hexdigest()[:10],
                      "vm stacks not restored after driving {%s} with [%s]: %s" % (c.src()[:300], c.hists[hi], idle),
                      replay_dict(c1, "idle ok", idle, False))
    ctx.obligation("corr:caller-vm-idle-clean", "correspondence", not idle_bad, "; ".join(i for _, i in idle_bad[:3]))
    # mechanism: suspend / resume rebasing, implementation dumps vs the Lean model
    qs = sorted(mech)
    mo, modead = shard_run(ctx, [model], qs, nshard=4, what="mech") if qs else ([], [])
    mbad = []
    shifts = set()
    for q, o in zip(qs, mo):
        if o is None or o.strip() != mech[q].strip():
            mbad.append((q, o, mech[q]))
        if q.startswith("M R"):
            shifts.add(tuple(q.split(" ")[2:6]))
    ctx.count(len(qs))
    ctx.stats["mech_queries"] = len(qs)
    ctx.stats["mech_distinct_resume_sites(callLen,iterLen,refLen,sp)"] = len(shifts)
    ctx.stats["mech_nonempty_frame_queries"] = sum(1 for q in qs if int(q.split(" ")[6]) > 0)
    ctx.obligation("corr:mech-shift", "correspondence", not mbad and len(qs) > 0,
                   ("%d of %d dumps disagree with Mech.suspend/resume; first: query [%s] model [%s] goja [%s]" %
                    (len(mbad), len(qs), mbad[0][0], mbad[0][1], mbad[0][2])) if mbad else "%d dumps" % len(qs))
    ctx.assumptions += [
        "the generated grammar (design/C09.md) stands for 'all generator bodies'; values are small naturals / short strings / undefined / NaN / TypeError",
        "scripted iterators (IterSpec) stand for 'arbitrary iterators' in yield* and for-of",
        "uint32 / int32 wrap-around in tryFrame offsets is not modelled (stack lengths < 2^31)",
        "async: only await at the positions of yield; no async generators; histories are sequences of fulfil/reject",
    ]
    ctx.trusted_base += [
        "the JavaScript rendering of the grammar and the prelude (iterators, drivers DV[0..6], P/RUNA) in harness/cmd/c09 and run/c09.py",
        "/repo/verif_hooks_c09.go reads tryFrame fields faithfully",
    ]
    return ctx.finish(level="proof", rule=RULE)

def indep_oracle(ctx, cases, hl):
    """Model-free laws on the implementation traces (used when the Lean side is unavailable): determinism of common
    prefixes across histories (a state machine), absorbing completed state."""
    nbad = 0
    for c, h in zip(cases, hl):
        if c.mode != "gen" or h is None: continue
        try:
            tr = json.loads(h).get("traces") or []
        except Exception:
            continue
        seen = {}
        for hist, t in zip(c.hists, tr):
            hs = hist.split(" "); ts = t.split(" ")
            done = False
            for n in range(len(hs)):
                key = " ".join(hs[:n + 1])
                if n < len(ts):
                    if key in seen and seen[key] != ts[n]:
                        nbad += 1
                        ctx.violation("prefix:" + hashlib.sha1((c.tokens() + key).encode()).hexdigest()[:10],
                                      "same history prefix [%s] gave %s and %s on {%s}" % (key, seen[key], ts[n], c.src()[:300]),
                                      {"kind": "history", "mode": "gen", "source": c.src(), "history": key, "expected": seen[key], "observed": ts[n]})
                    seen[key] = ts[n]
                    r = ts[n].split(";", 1)[-1]
                    if done:
                        k, p = hs[n].split(":")
                        want = {"n": "D(u)", "t": "T(%s)" % p, "r": "D(%s)" % p}[k]
                        if ts[n] != ";" + want:
                            nbad += 1
                            ctx.violation("absorb:" + hashlib.sha1((c.tokens() + key).encode()).hexdigest()[:10],
                                          "completed generator answered %s to %s on {%s}" % (ts[n], hs[n], c.src()[:300]),
                                          {"kind": "history", "mode": "gen", "source": c.src(), "history": key, "expected": want, "observed": ts[n]})
                    if r[:1] in ("D", "T"): done = True
    ctx.obligation("oracle:state-machine-laws", "correspondence", nbad == 0, "%d" % nbad)

def replay(ctx, path):
    with open(path) as f:
        d = json.load(f)
    if d.get("kind") == "broken-obligation":
        print(json.dumps(d, indent=1)); return 1
    harness = ctx.go_build()
    ctx.lake_build(["model_c09"])
    model = ctx.model_exe()
    mode = d.get("mode", "gen")
    body = json.loads(d["body_ast"]) if d.get("body_ast") else None
    src = js_func(body, mode, bool(d.get("probe")), (d["decl"][0], set(d["decl"][1]))) if body else d["source"]
    n = len(d["history"].split(" ")) + 1
    line = json.dumps({"mode": mode, "src": src, "hists": [d["history"]],
                       "depths": [(d.get("depths") or "").ljust(n, "0")], "create": [d.get("create", 0)], "probe": bool(d.get("probe"))})
    rc, out, err = ctx.run_lines([harness], [line], timeout=240)
    print("source   :", src)
    print("history  :", d["history"], " depths:", d.get("depths"))
    obs = json.loads(out[0]) if out else {}
    print("goja     :", (obs.get("traces") or ["?"])[0], obs.get("err", ""), "idle=" + str(obs.get("idle")))
    exp = "?"
    if body and os.path.exists(model):
        h = d["history"] if mode == "gen" else ("n:u " + d["history"]).strip()
        rc, mo, _ = ctx.run_lines([model], ["G " + " ".join(tok_block(body)) + " # " + h])
        exp = mo[0] if mo else "?"
        if mode == "async": exp = cut_async(exp)
    print("spec     :", exp)
    same = (obs.get("traces") or ["?"])[0] == exp and obs.get("idle") == "ok"
    print("AGREE" if same else "DISAGREE")
    return 0 if same else 1
