"""
C09 — generators / async functions resume faithfully under any driver call sequence.

Check = Lean theorems on the spec model GenReplay (a generator body IS a state machine) and on the mechanism model
GenCtx (suspend/resume offset rebasing)  +  differential correspondence of the real goja against the executable
models: bodies from a grammar x driver histories (exhaustive to length 4 over {next,throw,return} x 2 payloads,
sampled to length 6), every command issued from a different host stack depth; white-box dumps of the generator's
try frames before suspension / saved / after resumption checked against the model's `suspend`/`resume`;
the same bodies as async functions driven by settled / later-settled promises.
"""
import json, os, itertools, hashlib, subprocess, sys
from concurrent.futures import ThreadPoolExecutor
from vlib import *

PAYLOADS = ["i7", "spq"]
CMDS = [k + ":" + p for k in "ntr" for p in PAYLOADS]           # the 6-letter driver alphabet
ACMDS = [k + ":" + p for k in "nt" for p in PAYLOADS]           # async: fulfil / reject
NDEPTH = 7                                                      # host-depth variants DV[0..6] of the harness
NSTYLE = 5                                                      # promise settle styles of the harness

# ----------------------------------------------------------------------------------------- AST helpers
def L(v): return ("L", v)
def V(x): return ("V", x)
def A(a, b): return ("A", a, b)
def Y(e): return ("Y", e)
def YS(spec): return ("YS", spec)
def CJ(*args): return ("C", [a if isinstance(a, tuple) and len(a) == 2 and isinstance(a[0], bool) else (False, a) for a in args])
def SP(e): return (True, e)
def T(l0, *rest): return ("T", l0, list(rest))
def ASG(x, e): return ("=", x, e)
def B(x, e): return ("B", x, e)
def X(e): return ("X", e)
def G(e): return ("G", e)
def TR(b, c=None, f=None): return ("TR", b, c, f)

def spec(id, is_gen, has_ret=0, thr=0, items=("i1", "i2")): return (id, is_gen, has_ret, thr, list(items))

# ---- tokens (the Lean driver's input format)
def tok_spec(s):
    return [str(s[0]), "g" if s[1] else "o", str(int(s[2])), str(s[3]), str(len(s[4]))] + list(s[4])

def tok_args(args):
    out = [str(len(args))]
    for sp, e in args:
        out += ["*" if sp else "."] + tok_e(e)
    return out

def tok_e(e):
    t = e[0]
    if t == "L": return ["L", e[1]]
    if t == "V": return ["V", str(e[1])]
    if t == "A": return ["A"] + tok_e(e[1]) + tok_e(e[2])
    if t == "Y": return ["Y"] + tok_e(e[1])
    if t == "YS": return ["YS"] + tok_spec(e[1])
    if t == "C": return ["C"] + tok_args(e[1])
    if t == "T":
        out = ["T", str(len(e[2])), "s" + e[1]]
        for ex, l in e[2]:
            out += tok_e(ex) + ["s" + l]
        return out
    if t == "=": return ["=", str(e[1])] + tok_e(e[2])
    if t == "B": return ["B", str(e[1])] + tok_e(e[2])
    if t == "R": return ["R", str(e[1])]
    raise ValueError(e)

def tok_c(c): return [c[0]] + tok_e(c[1]) + tok_e(c[2])

def tok_block(b):
    out = [str(len(b))]
    for s in b:
        out += tok_s(s)
    return out

def tok_s(s):
    t = s[0]
    if t == "X": return ["X"] + tok_e(s[1])
    if t == "G": return ["G"] + tok_e(s[1])
    if t == "D":
        out = ["D", str(len(s[1]))]
        for x, d in s[1]:
            out += [str(x)] + (["-"] if d is None else ["+"] + tok_e(d))
        return out + tok_args(s[2])
    if t == "I": return ["I"] + tok_c(s[1]) + tok_block(s[2]) + tok_block(s[3])
    if t == "F": return ["F", str(s[1]), str(s[2])] + tok_block(s[3])
    if t == "W": return ["W"] + tok_c(s[1]) + tok_block(s[2])
    if t == "TR":
        out = ["TR"] + tok_block(s[1])
        out += ["-"] if s[2] is None else ["c", str(s[2][0])] + tok_block(s[2][1])
        out += ["-"] if s[3] is None else ["f"] + tok_block(s[3])
        return out
    if t == "O":
        src = s[2]
        return ["O", str(s[1])] + (["a"] + tok_args(src[1]) if src[0] == "a" else ["t"] + tok_spec(src[1])) + tok_block(s[3])
    if t == "RT": return ["RT"] + tok_e(s[1])
    if t == "TH": return ["TH"] + tok_e(s[1])
    if t == "BK": return ["BK"]
    raise ValueError(s)

# ---- JavaScript
def js_val(v):
    return "undefined" if v == "u" else v[1:] if v[0] == "i" else json.dumps(v[1:])

def js_spec(s):
    return "MK(%d,%s,%s,%d,[%s])" % (s[0], "true" if s[1] else "false", "true" if s[2] else "false", s[3],
                                     ",".join(js_val(v) for v in s[4]))

class JS:
    def __init__(self, mode="gen", probe=False):
        self.mode, self.probe = mode, probe

    def args(self, args):
        return ", ".join(("..." if sp else "") + self.e(e) for sp, e in args)

    def e(self, e):
        t = e[0]
        if t == "L": return js_val(e[1])
        if t == "V": return "x%d" % e[1]
        if t == "A": return "(%s + %s)" % (self.e(e[1]), self.e(e[2]))
        if t == "Y":
            if self.mode == "async": return "(await P(%s))" % self.e(e[1])
            if self.probe: return "PRV(1, yield PRV(0, %s))" % self.e(e[1])
            return "(yield %s)" % self.e(e[1])
        if t == "YS": return "(yield* %s)" % js_spec(e[1])
        if t == "C": return "J(%s)" % self.args(e[1])
        if t == "T": return "`" + e[1] + "".join("${%s}%s" % (self.e(ex), l) for ex, l in e[2]) + "`"
        if t == "=": return "(x%d = %s)" % (e[1], self.e(e[2]))
        if t == "B": return "B%d(%s)" % (e[1], self.e(e[2]))
        if t == "R": return "R(%d)" % e[1]
        raise ValueError(e)

    def c(self, c):
        return "%s %s %s" % (self.e(c[1]), "===" if c[0] == "EQ" else "!==", self.e(c[2]))

    def block(self, b): return "{ " + " ".join(self.s(s) for s in b) + " }"

    def s(self, s):
        t = s[0]
        if t == "X": return self.e(s[1]) + ";"
        if t == "G": return "L(%s);" % self.e(s[1])
        if t == "D":
            tg = ", ".join("x%d" % x + ("" if d is None else " = " + self.e(d)) for x, d in s[1])
            return "[%s] = [%s];" % (tg, self.args(s[2]))
        if t == "I": return "if (%s) %s else %s" % (self.c(s[1]), self.block(s[2]), self.block(s[3]))
        if t == "F": return "for (x%d = 0; x%d !== %d; x%d = x%d + 1) %s" % (s[1], s[1], s[2], s[1], s[1], self.block(s[3]))
        if t == "W": return "while (%s) %s" % (self.c(s[1]), self.block(s[2]))
        if t == "TR":
            out = "try " + self.block(s[1])
            if s[2] is not None:
                out += " catch (e_) { x%d = C(e_); %s }" % (s[2][0], " ".join(self.s(z) for z in s[2][1]))
            if s[3] is not None:
                out += " finally " + self.block(s[3])
            return out
        if t == "O":
            src = s[2]
            return "for (x%d of %s) %s" % (s[1], "[%s]" % self.args(src[1]) if src[0] == "a" else js_spec(src[1]), self.block(s[3]))
        if t == "RT": return "return %s;" % self.e(s[1])
        if t == "TH": return "throw %s;" % self.e(s[1])
        if t == "BK": return "break;"
        raise ValueError(s)

def js_func(body, mode, probe, decl):
    """decl: (kw for x0..x5 as a string of 'l'/'v', set of extra captured vars)"""
    j = JS(mode, probe)
    kws, cap = decl
    lets = [i for i in range(6) if kws[i] == "l"]
    vars_ = [i for i in range(6) if kws[i] == "v"]
    head = ""
    if lets: head += "let " + ", ".join("x%d" % i for i in lets) + "; "
    if vars_: head += "var " + ", ".join("x%d" % i for i in vars_) + "; "
    head += "const B4 = d => (x4 = x4 + d); const B5 = d => (x5 = x5 + d); "
    for i in sorted(cap):
        head += "const K%d = () => x%d; " % (i, i)
    name = "function* GEN()" if mode == "gen" else "async function AGEN()"
    return name + " { " + head + " ".join(j.s(s) for s in body) + " }"

# ----------------------------------------------------------------------------------------- walking
def expr_nodes(e):
    yield e
    t = e[0]
    if t in ("A",): yield from expr_nodes(e[1]); yield from expr_nodes(e[2])
    elif t in ("Y",): yield from expr_nodes(e[1])
    elif t == "C":
        for _, a in e[1]: yield from expr_nodes(a)
    elif t == "T":
        for a, _ in e[2]: yield from expr_nodes(a)
    elif t in ("=", "B"): yield from expr_nodes(e[2])

def stmt_exprs(s):
    t = s[0]
    if t in ("X", "G", "RT", "TH"): yield from expr_nodes(s[1])
    elif t == "D":
        for _, d in s[1]:
            if d is not None: yield from expr_nodes(d)
        for _, a in s[2]: yield from expr_nodes(a)
    elif t == "I":
        yield from expr_nodes(s[1][1]); yield from expr_nodes(s[1][2])
        for b in (s[2], s[3]):
            for z in b: yield from stmt_exprs(z)
    elif t in ("F",):
        for z in s[3]: yield from stmt_exprs(z)
    elif t == "W":
        yield from expr_nodes(s[1][1]); yield from expr_nodes(s[1][2])
        for z in s[2]: yield from stmt_exprs(z)
    elif t == "TR":
        for z in s[1]: yield from stmt_exprs(z)
        if s[2] is not None:
            for z in s[2][1]: yield from stmt_exprs(z)
        if s[3] is not None:
            for z in s[3]: yield from stmt_exprs(z)
    elif t == "O":
        if s[2][0] == "a":
            for _, a in s[2][1]: yield from expr_nodes(a)
        for z in s[3]: yield from stmt_exprs(z)

def body_features(body):
    f = set()
    def ws(s, ctx):
        f.add("s:" + s[0])
        t = s[0]
        for e in (stmt_exprs(s) if t in ("X", "G", "RT", "TH", "D") else []):
            f.add("e:" + e[0])
            if e[0] in ("Y", "YS"):
                f.add("yield-in:" + ctx)
        if t == "I":
            for e in list(expr_nodes(s[1][1])) + list(expr_nodes(s[1][2])):
                if e[0] == "Y": f.add("yield-in:cond")
            for z in s[2] + s[3]: ws(z, ctx)
        elif t == "F":
            for z in s[3]: ws(z, "loop")
        elif t == "W":
            for z in s[2]: ws(z, "loop")
        elif t == "TR":
            for z in s[1]: ws(z, "try")
            if s[2] is not None:
                for z in s[2][1]: ws(z, "catch")
            if s[3] is not None:
                for z in s[3]: ws(z, "finally")
        elif t == "O":
            f.add("forof:" + ("arr" if s[2][0] == "a" else ("gen" if s[2][1][1] else "obj")))
            for z in s[3]: ws(z, "forof")
    for s in body: ws(s, "top")
    return f

def async_ok(body):
    return not any(e[0] in ("YS", "R") for s in body for e in stmt_exprs(s))

# ----------------------------------------------------------------------------------------- systematic bodies
def systematic_bodies():
    """Hand-enumerated bodies: a yield in every expression position, every region of try/catch/finally, every loop
    kind, every iterator-spec variant for yield* and for-of.  Always run, exhaustively to length 4."""
    y1, y2, y3 = Y(L("i1")), Y(L("i2")), Y(L("i3"))
    bs = []
    bs.append([G(A(y1, y2))])                                                  # operands
    bs.append([G(A(L("sa"), A(y1, A(L("i5"), y2))))])
    bs.append([G(CJ(L("i1"), y1, y2, L("sz")))])                               # call arguments
    bs.append([G(CJ(y1, SP(y2), y3))])                                         # spread
    bs.append([G(CJ(SP(L("sab")), SP(y1), L("i9")))])
    bs.append([G(T("a", (y1, "b"), (y2, "c")))])                               # template parts
    bs.append([G(T("", (A(y1, L("i1")), ""), (L("sx"), "")))])
    bs.append([("D", [(0, y1), (1, None), (4, y2)], [(False, L("u")), (False, L("i5"))]), G(CJ(V(0), V(1), V(4)))])   # destructuring defaults
    bs.append([("D", [(0, y1), (1, y2)], [(False, y3), (True, Y(L("i4")))]), G(CJ(V(0), V(1)))])
    bs.append([("I", ("EQ", y1, L("i7")), [G(L("st"))], [G(y2)]), G(L("se"))])  # condition operands
    bs.append([("I", ("NE", L("spq"), y1), [G(y2)], []), ("RT", y3)])
    bs.append([X(ASG(0, y1)), X(ASG(1, A(V(0), y2))), G(V(1)), ("RT", V(0))])   # locals survive
    bs.append([X(ASG(4, L("i1"))), G(B(4, y1)), G(B(4, A(y2, L("i1")))), G(V(4))])   # closure-captured local
    bs.append([X(ASG(5, L("sq"))), G(A(B(5, y1), B(5, y2)))])
    bs.append([("TH", y1)])
    bs.append([("RT", A(y1, y2))])
    bs.append([G(Y(Y(Y(L("i1")))))])                                           # nested yields
    bs.append([G(("R", 0)), G(L("i1"))])                                       # re-entrancy (uncaught)
    for k in range(3):
        bs.append([TR([G(A(y1, ("R", k)))], (0, [G(V(0)), G(y2)]), None), G(L("sd"))])   # re-entrancy (caught)
    # try / catch / finally regions
    bs.append([TR([G(y1)], None, [G(L("sf"))]), G(L("sd"))])
    bs.append([TR([G(y1)], (0, [G(V(0))]), None), G(L("sd"))])
    bs.append([TR([G(y1)], (0, [G(A(V(0), y2))]), [G(L("sf")), G(y3)]), G(L("sd"))])
    bs.append([TR([TR([G(y1)], None, [G(L("sf1"))])], None, [G(L("sf2"))]), G(L("sd"))])
    bs.append([TR([TR([G(y1)], None, [G(y2), G(L("sf1"))])], None, [G(y3), G(L("sf2"))]), G(L("sd"))])
    bs.append([TR([TR([("TH", y1)], (1, [("TH", A(V(1), y2))]), [G(L("sf1"))])], (0, [G(V(0))]), [G(L("sf2"))])])
    bs.append([TR([("RT", y1)], None, [G(y2)]), G(L("sd"))])
    bs.append([TR([G(y1)], None, [("RT", y2)]), G(L("sd"))])                   # finally overrides
    bs.append([TR([G(y1)], None, [("TH", L("sz"))]), G(L("sd"))])
    bs.append([TR([TR([G(y1)], None, [G(L("sf1")), ("TH", y2)])], (0, [G(V(0))]), [G(L("sf2"))])])
    # loops
    bs.append([("F", 3, 2, [G(A(V(3), y1))]), G(L("sd"))])
    bs.append([("F", 3, 2, [TR([G(y1), ("BK",)], None, [G(y2)])]), G(L("sd"))])
    bs.append([X(ASG(2, L("i0"))), ("W", ("NE", V(2), L("i2")), [X(ASG(2, A(V(2), L("i1")))), G(A(y1, V(2)))]), G(L("sd"))])
    bs.append([("O", 0, ("a", [(False, L("i1")), (False, y1), (True, y2)]), [G(A(V(0), y3))]), G(L("sd"))])
    bs.append([("O", 0, ("a", [(False, L("i1")), (False, L("i2"))]), [TR([G(y1)], None, [G(V(0))])]), G(L("sd"))])
    n = 0
    for is_gen in (1, 0):
        for has_ret in ((0,) if is_gen else (0, 1)):
            for thr in ((0,) if is_gen else (0, 1, 2, 3)):
                n += 1
                sp = spec(n % 10, is_gen, has_ret, thr)
                bs.append([G(A(L("sv"), YS(sp))), G(L("sd"))])                                     # yield* value
                bs.append([TR([X(YS(sp))], (0, [G(V(0)), G(y1)]), [G(L("sf"))]), G(L("sd"))])      # yield* in try
                if thr in (0, 1):
                    bs.append([("O", 1, ("t", sp), [G(A(V(1), y1))]), G(L("sd"))])                 # for-of over it
                    bs.append([TR([("O", 1, ("t", sp), [TR([G(y1)], None, [G(L("sfi"))])])], (0, [G(V(0))]), [G(y2)])])
    bs.append([("O", 0, ("t", spec(1, 1)), [("O", 1, ("t", spec(2, 0, 1, 0)), [G(CJ(V(0), V(1), y1))])]), G(L("sd"))])
    bs.append([("O", 0, ("t", spec(1, 1)), [G(y1), ("BK",)]), G(y2)])
    bs.append([X(YS(spec(3, 0, 1, 0, []))), X(YS(spec(4, 1, 0, 0, []))), G(y1)])
    bs.append([G(A(YS(spec(5, 1, 0, 0, ["i1"])), YS(spec(6, 0, 0, 3, ["i2"]))))])
    return bs

# ----------------------------------------------------------------------------------------- random bodies
class Gen:
    def __init__(self, rng):
        self.r = rng
        self.nid = 0

    def val(self):
        return self.r.choice(["i0", "i1", "i2", "i3", "i5", "sa", "sbc", "u", "spq", "i7"])

    def spec(self):
        self.nid = (self.nid + 1) % 10
        is_gen = self.r.random() < 0.5
        items = [self.r.choice(["i1", "i2", "sk", "u"]) for _ in range(self.r.choice([0, 1, 2, 2, 3]))]
        return spec(self.nid, int(is_gen), 0 if is_gen else self.r.randrange(2), 0 if is_gen else self.r.randrange(4), items)

    def expr(self, d, inloop=False):
        r = self.r
        if d <= 0:
            return r.choice([L(self.val()), L(self.val()), V(r.choice([0, 1, 4, 5])), Y(L(self.val()))])
        k = r.random()
        if k < 0.30: return Y(self.expr(d - 1))
        if k < 0.45: return A(self.expr(d - 1), self.expr(d - 1))
        if k < 0.55: return CJ(*[(r.random() < 0.3, self.expr(d - 1)) for _ in range(r.randrange(1, 4))])
        if k < 0.63: return T(r.choice(["", "a"]), *[(self.expr(d - 1), r.choice(["", "b", "c"])) for _ in range(r.randrange(1, 3))])
        if k < 0.72: return ASG(r.choice([0, 1, 4, 5]), self.expr(d - 1))
        if k < 0.79: return B(r.choice([4, 5]), self.expr(d - 1))
        if k < 0.84 and not inloop: return YS(self.spec())
        if k < 0.87: return ("R", r.randrange(3))
        return self.expr(0)

    def cond(self, d):
        return (self.r.choice(["EQ", "NE"]), self.expr(d), self.expr(d - 1))

    def block(self, d, n, ctx):
        return [self.stmt(d, ctx) for _ in range(n)]

    def stmt(self, d, ctx):
        """ctx: dict(loop=bool, f=bool(F var in use), w=bool)"""
        r = self.r
        k = r.random()
        ed = r.choice([1, 1, 2, 2, 3])
        if d <= 0 or k < 0.22: return G(self.expr(ed, ctx["loop"]))
        if k < 0.32: return X(self.expr(ed, ctx["loop"]))
        if k < 0.40:
            tg = [(r.choice([0, 1, 4]), self.expr(1) if r.random() < 0.6 else None) for _ in range(r.randrange(1, 4))]
            src = [(r.random() < 0.25, self.expr(1) if r.random() < 0.5 else L("u")) for _ in range(r.randrange(0, 3))]
            return ("D", tg, src)
        if k < 0.48: return ("I", self.cond(1), self.block(d - 1, r.randrange(1, 3), ctx), self.block(d - 1, r.randrange(0, 2), ctx))
        if k < 0.56 and not ctx["f"]:
            return ("F", 3, r.choice([1, 2, 2]), self.block(d - 1, r.randrange(1, 3), dict(ctx, loop=True, f=True)))
        if k < 0.76:
            b = self.block(d - 1, r.randrange(1, 3), ctx)
            c = (r.choice([0, 1]), self.block(d - 1, r.randrange(1, 3), ctx)) if r.random() < 0.55 else None
            f = self.block(d - 1, r.randrange(1, 3), ctx) if (c is None or r.random() < 0.6) else None
            return TR(b, c, f)
        if k < 0.88:
            x = r.choice([0, 1])
            if r.random() < 0.4:
                src = ("a", [(r.random() < 0.2, self.expr(1)) for _ in range(r.randrange(1, 3))])
            else:
                src = ("t", self.spec())
            return ("O", x, src, self.block(d - 1, r.randrange(1, 3), dict(ctx, loop=True)))
        if k < 0.92: return ("RT", self.expr(ed, ctx["loop"]))
        if k < 0.96: return ("TH", self.expr(1, ctx["loop"]))
        if ctx["loop"]: return ("BK",)
        return G(self.expr(ed))

    def body(self):
        r = self.r
        b = self.block(r.choice([1, 2, 2, 3]), r.randrange(1, 5), dict(loop=False, f=False, w=False))
        if r.random() < 0.15:   # a while loop with a dedicated counter x2
            b.insert(r.randrange(len(b) + 1), ("W", ("NE", V(2), L("i%d" % r.choice([1, 2]))),
                     [X(ASG(2, A(V(2), L("i1"))))] + self.block(1, r.randrange(1, 3), dict(loop=True, f=False, w=True))))
            b.insert(0, X(ASG(2, L("i0"))))
        return b

    def decl(self):
        r = self.r
        return ("".join(r.choice("lv") for _ in range(6)), set(i for i in range(4) if r.random() < 0.25))

def count_yields(body):
    return sum(1 for s in body for e in stmt_exprs(s) if e[0] in ("Y", "YS"))

# ----------------------------------------------------------------------------------------- histories
def all_hists(alpha, n):
    return [" ".join(h) for h in itertools.product(alpha, repeat=n)]

def rand_digits(rng, n, base):
    return "".join(str(rng.randrange(base)) for _ in range(n))

# ----------------------------------------------------------------------------------------- running
def shard_run(ctx, cmd, lines, nshard=12, timeout=900):
    """Run a line-protocol command over `lines`, sharded; returns output lines in order (None on failure)."""
    if not lines:
        return []
    nshard = max(1, min(nshard, len(lines)))
    chunks = [lines[i::nshard] for i in range(nshard)]
    def one(ch):
        rc, out, err = ctx.run_lines(cmd, ch, timeout=timeout)
        return rc, out, err
    with ThreadPoolExecutor(nshard) as ex:
        res = list(ex.map(one, chunks))
    out = [None] * len(lines)
    for si, (rc, o, err) in enumerate(res):
        if rc != 0 or len(o) != len(chunks[si]):
            ctx.log("shard failed rc=%s out=%d/%d err=%s" % (rc, len(o), len(chunks[si]), err[-300:]))
            return None
        for j, l in enumerate(o):
            out[si + j * nshard] = l
    return out

def cut_async(trace):
    out = []
    for part in trace.split(" "):
        out.append(part)
        r = part.split(";", 1)[1] if ";" in part else part
        if not r.startswith("Y("):
            break
    return " ".join(out)

class Case:
    __slots__ = ("body", "decl", "mode", "probe", "hists", "depths", "create", "tag", "run_hists", "marks", "exp")
    def __init__(self, body, decl, mode, probe, hists, depths, create, tag):
        self.body, self.decl, self.mode, self.probe = body, decl, mode, probe
        self.hists, self.depths, self.create, self.tag = hists, depths, create, tag
        self.run_hists, self.marks, self.exp = None, None, None
    def src(self): return js_func(self.body, self.mode, self.probe, self.decl)
    def tokens(self): return " ".join(tok_block(self.body))
    def harness_line(self):
        return json.dumps({"mode": self.mode, "src": self.src(), "hists": self.run_hists if self.run_hists is not None else self.hists, "depths": self.depths,
                           "create": self.create, "probe": self.probe})
    def model_line(self):
        hs = self.hists if self.mode == "gen" else [("n:u " + h).strip() for h in self.hists]
        return "G " + self.tokens() + " # " + " # ".join(hs)

def split_marks(t):
    """'<trace> @<idx>:<marks>' -> (trace, marks, index of the first command during which a marker fired)"""
    if "@" in t:
        t, m = t.rsplit("@", 1)
        i, m = m.split(":", 1)
        return t.strip(), m, int(i)
    return t, "", None

def expected_traces(case, model_out, cut=True):
    """Sets case.exp (spec traces), case.marks [(marks, first-marked command index)], case.run_hists (the histories
    actually sent to goja: a history that triggers known defect B is cut just before the triggering command, because
    that defect corrupts the vm and would poison the other histories sharing the runtime)."""
    tr = model_out.split(" # ")
    exp, marks, run = [], [], []
    for h, t in zip(case.hists, tr):
        t, m, idx = split_marks(t)
        parts = t.split(" ") if t else []
        if case.mode == "async":
            t = cut_async(t)
            if idx is not None and idx >= len(t.split(" ")): idx = None; m = ""
        hs = h.split(" ") if h else []
        if cut and "!B" in m and idx is not None and case.mode == "gen":
            hs = hs[:idx]; t = " ".join(parts[:idx])
            run.append(" ".join(hs))
        else:
            run.append(h)
        exp.append(t); marks.append((m, idx))
    case.exp, case.marks, case.run_hists = exp, marks, run
    return exp

def evaluate(ctx, harness, model, cases):
    ml = shard_run(ctx, [model], [c.model_line() for c in cases]) if model else None
    if ml is None:
        return shard_run(ctx, [harness], [c.harness_line() for c in cases]), None
    for c, m in zip(cases, ml):
        expected_traces(c, m)
    hl = shard_run(ctx, [harness], [c.harness_line() for c in cases])
    return hl, ml

def first_diff(exp, obs):
    e, o = exp.split(" "), obs.split(" ")
    for i in range(max(len(e), len(o))):
        if i >= len(e) or i >= len(o) or e[i] != o[i]:
            return i
    return None

def compare(case, hline, mline=None):
    """-> (mismatches [(i, exp, obs, known-class or None)], mech [[q, obs]], idle, err).  Uses case.exp / case.marks."""
    try:
        h = json.loads(hline)
    except Exception:
        return [(0, "?", "harness output unparsable: " + hline[:200], None)], [], "?", "unparsable"
    if h.get("err"):
        return [(0, "?", "harness error: " + h["err"], None)], [], h.get("idle", "?"), h["err"]
    obs = h.get("traces") or []
    exp = case.exp
    mm = []
    for i in range(max(len(exp), len(obs))):
        if i >= len(exp) or i >= len(obs):
            mm.append((i, exp[i] if i < len(exp) else "?", obs[i] if i < len(obs) else "?", None)); continue
        if exp[i] != obs[i]:
            m, idx = case.marks[i]
            d = first_diff(exp[i], obs[i])
            known = None
            if m and idx is not None and d is not None and d >= idx:
                known = "A" if "!A" in m else "B"
            elif "!B" in m and (obs[i].startswith("PANIC") or obs[i].startswith("ERR")):
                known = "B"     # the whole history aborted: exception escaped the JS driver / Go panic (corrupted vm)
            mm.append((i, exp[i], obs[i], known))
    return mm, h.get("mech") or [], h.get("idle", "ok"), None

# ----------------------------------------------------------------------------------------- shrinking
def sub_bodies(body):
    """Candidate smaller bodies: delete one statement anywhere, or replace a compound statement by one of its blocks."""
    def rec(block):
        for i, s in enumerate(block):
            yield block[:i] + block[i + 1:]
            t = s[0]
            subs = []
            if t == "I": subs = [(2, s[2]), (3, s[3])]
            elif t == "F": subs = [(3, s[3])]
            elif t == "W": subs = [(2, s[2])]
            elif t == "O": subs = [(3, s[3])]
            elif t == "TR":
                subs = [(1, s[1])]
            for idx, sb in subs:
                if not (t in ("F", "W", "O") and any(z[0] == "BK" for z in sb)):
                    yield block[:i] + sb + block[i + 1:]
                for nb in rec(sb):
                    ns = list(s); ns[idx] = nb
                    yield block[:i] + [tuple(ns)] + block[i + 1:]
            if t == "TR":
                if s[2] is not None:
                    yield block[:i] + [("TR", s[1], None, s[3] if s[3] is not None else [])] + block[i + 1:]
                    for nb in rec(s[2][1]):
                        yield block[:i] + [("TR", s[1], (s[2][0], nb), s[3])] + block[i + 1:]
                if s[3] is not None:
                    if s[2] is not None:
                        yield block[:i] + [("TR", s[1], s[2], None)] + block[i + 1:]
                    for nb in rec(s[3]):
                        yield block[:i] + [("TR", s[1], s[2], nb)] + block[i + 1:]
    yield from rec(body)

def has_stray_break(body, inloop=False):
    for s in body:
        t = s[0]
        if t == "BK" and not inloop: return True
        if t == "I" and (has_stray_break(s[2], inloop) or has_stray_break(s[3], inloop)): return True
        if t in ("F", "O") and has_stray_break(s[3], True): return True
        if t == "W" and has_stray_break(s[2], True): return True
        if t == "TR":
            if has_stray_break(s[1], inloop): return True
            if s[2] is not None and has_stray_break(s[2][1], inloop): return True
            if s[3] is not None and has_stray_break(s[3], inloop): return True
    return False

def single_mismatch(ctx, harness, model, case, allow_known=False, cut=True):
    """Run one single-history case through model and harness (fresh runtime); returns (i, exp, obs, known) or None."""
    ml = ctx.run_lines([model], [case.model_line()], timeout=60)[1]
    if not ml:
        return None
    expected_traces(case, ml[0], cut=cut)
    rc, hl, err = ctx.run_lines([harness], [case.harness_line()], timeout=30)
    if rc == 124 or not hl:
        return (0, case.exp[0], "goja did not return (hang or crash): " + err[-200:], case.marks[0][0] and ("A" if "!A" in case.marks[0][0] else "B") or None)
    mm, _, idle, _ = compare(case, hl[0])
    if not mm and idle != "ok":
        mm = [(0, case.exp[0] + " / idle ok", json.loads(hl[0]).get("traces", ["?"])[0] + " / " + idle,
               "B" if (not cut and "!B" in case.marks[0][0]) else None)]
    mm = [m for m in mm if allow_known or m[3] is None]
    return mm[0] if mm else None

def shrink(ctx, harness, model, case, i):
    """Minimise (body, history, depths) keeping a model/implementation disagreement."""
    cur = Case(case.body, case.decl, case.mode, False, [case.hists[i]], [case.depths[i]], [case.create[i]], case.tag)
    if single_mismatch(ctx, harness, model, cur) is None:
        cur.probe = case.probe
        if single_mismatch(ctx, harness, model, cur) is None:
            return None     # only reproduces in the context of the other histories of the same runtime
    # shorter history
    toks = cur.hists[0].split(" ")
    for n in range(1, len(toks)):
        c2 = Case(cur.body, cur.decl, cur.mode, cur.probe, [" ".join(toks[:n])], [cur.depths[0][:n + 1] if cur.mode == "async" else cur.depths[0][:n]], cur.create, cur.tag)
        if single_mismatch(ctx, harness, model, c2) is not None:
            cur = c2
            break
    # simplest depths / creation site
    c2 = Case(cur.body, cur.decl, cur.mode, cur.probe, cur.hists, ["0" * len(cur.depths[0])], [0], cur.tag)
    if single_mismatch(ctx, harness, model, c2) is not None:
        cur = c2
    # smaller body
    budget = 30
    progress = True
    while progress and budget > 0:
        progress = False
        for nb in sub_bodies(cur.body):
            budget -= 1
            if budget <= 0: break
            if not nb or has_stray_break(nb): continue
            c2 = Case(nb, cur.decl, cur.mode, cur.probe, cur.hists, cur.depths, cur.create, cur.tag)
            try:
                if single_mismatch(ctx, harness, model, c2) is not None:
                    cur = c2
                    progress = True
                    break
            except Exception:
                continue
    return cur

# ----------------------------------------------------------------------------------------- fallback oracle
CORPUS_SIG = {}      # corpus tag -> signature recorded with a corpus replay (minimised failing input of a listed finding)

def norm_ids(x):
    """Canonical form for signatures: iterator ids are irrelevant to behaviour classes -> 0."""
    if isinstance(x, (list, tuple)):
        if len(x) == 5 and isinstance(x[0], int) and isinstance(x[4], list) and x[1] in (0, 1, True, False) and isinstance(x[3], int):
            return [0] + [norm_ids(y) for y in x[1:]]
        return [norm_ids(y) for y in x]
    return x

def sig_of(kind, c):
    return "%s:%s" % (kind, hashlib.sha1((" ".join(tok_block(norm_ids(c.body))) + "|" + c.hists[0]).encode()).hexdigest()[:10])

KNOWN_SIG = {
    "A": "goja:throw-inside-finally-entered-normally-is-caught-by-the-same-try-statements-catch",
    "B": "goja:throw-inside-finally-entered-by-generator-return-corrupts-exception-propagation",
}

def replay_dict(c, exp, obs, shrunk):
    return {"kind": "history", "mode": c.mode, "source": c.src(), "body_tokens": c.tokens(), "decl": [c.decl[0], sorted(c.decl[1])],
            "probe": c.probe, "history": c.hists[0], "depths": c.depths[0], "create": c.create[0],
            "expected": exp, "observed": obs, "shrunk": shrunk, "body_ast": json.dumps(c.body)}

def report_case(ctx, harness, model, case, i, exp, obs, kind, known=None):
    if known:
        c = Case(case.body, case.decl, case.mode, case.probe, [case.hists[i]], [case.depths[i]], [case.create[i]], case.tag)
        ctx.violation(KNOWN_SIG[known], "%s {%s} history [%s]: spec %s / goja %s" % (c.mode, c.src()[:260], c.hists[0], exp, obs),
                      replay_dict(c, exp, obs, False))
        return
    if case.tag in CORPUS_SIG and i == 0:
        c = Case(case.body, case.decl, case.mode, case.probe, [case.hists[0]], [case.depths[0]], [case.create[0]], case.tag)
        return ctx.violation(CORPUS_SIG[case.tag], "%s {%s} history [%s] depths %s: spec %s / goja %s" % (c.mode, c.src()[:260], c.hists[0], c.depths[0], exp, obs),
                             replay_dict(c, exp, obs, False))
    small = shrink(ctx, harness, model, case, i) if model else None
    c = small or Case(case.body, case.decl, case.mode, case.probe, [case.hists[i]], [case.depths[i]], [case.create[i]], case.tag)
    mm = single_mismatch(ctx, harness, model, c) if (model and small) else None
    mm = mm or (0, exp, obs, None)
    sig = sig_of(kind, c)
    return ctx.violation(sig, "%s body {%s} history [%s] depths %s: spec %s / goja %s" %
                         (c.mode, c.src()[:300], c.hists[0], c.depths[0], mm[1], mm[2]),
                         replay_dict(c, mm[1], mm[2], small is not None))

# ----------------------------------------------------------------------------------------- main
THEOREMS = 1

def build_cases(ctx):
    rng = ctx.rng
    quick = ctx.tier == "quick"
    cases = []
    g = Gen(rng)
    ex4 = all_hists(CMDS, 4)
    aex = [h for n in range(0, 5) for h in all_hists(ACMDS, n)]
    def add_gen(body, decl, tag, hists, probe):
        cases.append(Case(body, decl, "gen", probe, hists, [rand_digits(rng, len(h.split(" ")), NDEPTH) for h in hists],
                          [rng.randrange(2) for _ in hists], tag))
    def add_async(body, decl, tag, hists):
        cases.append(Case(body, decl, "async", False, hists, [rand_digits(rng, len(h.split(" ")) + 1 if h else 1, NSTYLE) for h in hists],
                          [rng.randrange(2) for _ in hists], tag))
    def sampled(n5, n6):
        return [" ".join(rng.choice(CMDS) for _ in range(5)) for _ in range(n5)] + \
               [" ".join(rng.choice(CMDS) for _ in range(6)) for _ in range(n6)]
    # 1. corpus
    cdir = os.path.join(ROOT, "corpus", ctx.prop)
    if os.path.isdir(cdir):
        for fn in sorted(os.listdir(cdir)):
            if fn.endswith(".json"):
                with open(os.path.join(cdir, fn)) as f:
                    d = json.load(f)
                body = tuplify(json.loads(d["body_ast"]))
                decl = (d["decl"][0], set(d["decl"][1]))
                if d.get("signature"):
                    CORPUS_SIG["corpus:" + fn] = d["signature"]
                if d.get("mode", "gen") == "gen":
                    add_gen(body, decl, "corpus:" + fn, [d["history"]] + ex4, bool(d.get("probe")))
                    cases[-1].depths[0] = d.get("depths", cases[-1].depths[0]); cases[-1].create[0] = d.get("create", 0)
                else:
                    add_async(body, decl, "corpus:" + fn, [d["history"]] + aex)
    # 2. systematic bodies: exhaustive length 4 (every history of length <= 4 is a prefix), + sampled 5/6
    for bi, body in enumerate(systematic_bodies()):
        decl = ("llllll" if bi % 2 == 0 else "vvlvll", set([0]) if bi % 3 == 0 else set())
        add_gen(body, decl, "sys%d" % bi, ex4 + sampled(12, 12), probe=(bi % 2 == 1))
        if async_ok(body):
            add_async(body, decl, "sys%d" % bi, aex)
    # 3. random bodies
    n_ex = 30 if quick else 200
    n_sm = 120 if quick else 800
    for i in range(n_ex + n_sm):
        body = g.body()
        tries = 0
        while count_yields(body) == 0 and tries < 5:
            body = g.body(); tries += 1
        decl = g.decl()
        if i < n_ex:
            add_gen(body, decl, "rnd%d" % i, ex4 + sampled(30, 30), probe=rng.random() < 0.5)
        else:
            hs = [" ".join(rng.choice(CMDS) for _ in range(rng.choice([1, 2, 3, 4, 5, 6, 6]))) for _ in range(60)]
            add_gen(body, decl, "rnd%d" % i, hs, probe=rng.random() < 0.5)
        if async_ok(body) and (i % 2 == 0):
            add_async(body, decl, "rnd%d" % i, aex if i < n_ex else [h for h in aex if rng.random() < 0.25])
    return cases

def tuplify(x):
    if isinstance(x, list):
        return [tuplify(y) for y in x]
    return x

def retuple(x):
    """JSON round trip turns tuples into lists; statements/expressions must be tuples, blocks/arg lists lists."""
    return x

def main(ctx):
    global THEOREMS
    ok, errs = ctx.lake_build(["GojaModel.C09.Props", "model_c09"])
    names = ctx.audit("GojaModel.C09.Props", expect_min=20)
    if ctx.tier == "thorough":
        ctx.leanchecker("GojaModel.C09.Props")
    harness = ctx.go_build()
    model = ctx.model_exe()
    if not os.path.exists(model):
        model = None
    if harness is None:
        return ctx.finish(level="proof", rule=RULE)
    cases = build_cases(ctx)
    ctx.log("cases: %d bodies, %d histories" % (len(cases), sum(len(c.hists) for c in cases)))
    hl, ml = evaluate(ctx, harness, model, cases)
    if hl is None:
        ctx.obligation("corr:harness-run", "correspondence", False, "harness crashed or timed out")
        return ctx.finish(level="proof", rule=RULE)
    if ml is None:
        ctx.obligation("corr:model-run", "correspondence", False, "model driver unavailable (Lean build broken?)")
        # implementation-side search still runs: the state-machine laws that need no model
        indep_oracle(ctx, cases, hl)
        return ctx.finish(level="proof", rule=RULE)
    n_hist = 0; bad_gen = []; bad_async = []; mech = {}; idle_bad = []; known_hits = {"A": [], "B": []}
    feats = {}; reskinds = {"Y": 0, "D": 0, "T": 0}; lens = {}; depth_used = {}; marked = {"!A": 0, "!B": 0}; cutB = []
    for c, h in zip(cases, hl):
        mm, mrec, idle, err = compare(c, h)
        n_hist += len(c.hists)
        for q, o in mrec:
            mech[q] = o
        if idle != "ok":
            idle_bad.append((c, idle))
        for (i, e, o, known) in mm:
            if known:
                known_hits[known].append((c, i, e, o))
            else:
                (bad_gen if c.mode == "gen" else bad_async).append((c, i, e, o))
        for i, (m, idx) in enumerate(c.marks):
            for k in marked:
                if k in m: marked[k] += 1
            if "!B" in m and c.mode == "gen" and len(cutB) < 4000:
                cutB.append((c, i))
        if not mm:
            for f in body_features(c.body):
                feats[f] = feats.get(f, 0) + 1
            for i, t in enumerate(c.exp):
                parts = t.split(" ") if t else []
                kinds = "".join(p.split(";", 1)[1][0] for p in parts if ";" in p)
                for ch in kinds:
                    if ch in reskinds: reskinds[ch] += 1
                lens[len(parts)] = lens.get(len(parts), 0) + 1
                # non-trivial: the body actually suspended at least once and was resumed
                if kinds.count("Y") >= 1 and len(kinds) >= 2:
                    ctx.nontriv((c.mode, c.tokens(), c.run_hists[i]))
            if c.mode == "gen":
                for d in c.depths:
                    for ch in d: depth_used[ch] = depth_used.get(ch, 0) + 1
    # histories that trigger known defect B were cut before the trigger in the shared runtimes; run a sample of them
    # in full, each in a fresh process (goja may corrupt its vm, crash or hang there)
    ctx.rng.shuffle(cutB)
    cutB.sort(key=lambda ci: 0 if (ci[0].tag.startswith("corpus:") and ci[1] == 0) else 1)   # corpus replays first
    iso = cutB[:16 if ctx.tier == "quick" else 64]
    def run_iso(ci):
        c, i = ci
        c1 = Case(c.body, c.decl, c.mode, False, [c.hists[i]], [c.depths[i]], [c.create[i]], c.tag)
        return c1, single_mismatch(ctx, harness, model, c1, allow_known=True, cut=False)
    with ThreadPoolExecutor(8) as ex:
        for c1, mm in ex.map(run_iso, iso):
            n_hist += 1
            if mm is not None:
                if mm[3]:
                    known_hits[mm[3]].append((c1, 0, mm[1], mm[2]))
                else:
                    bad_gen.append((c1, 0, mm[1], mm[2]))
    ctx.stats["known_defect_triggers"] = {"histories_with_!A": marked["!A"], "histories_with_!B": marked["!B"],
                                          "B_run_isolated": len(iso), "A_mismatches": len(known_hits["A"]), "B_mismatches": len(known_hits["B"])}
    ctx.count(n_hist)
    for c in cases[:3] + cases[-3:]:
        ctx.sample({"mode": c.mode, "src": c.src()[:400], "history": c.hists[-1], "depths": c.depths[-1]})
    ctx.stats.update({"bodies": len(cases), "histories": n_hist, "features": dict(sorted(feats.items())),
                      "result_kinds": reskinds, "trace_lengths": dict(sorted(lens.items())), "host_depth_variants": depth_used,
                      "exhaustive": "all 1296 histories of length 4 (hence all of length <= 4) over {next,throw,return}x{7,'pq'} for the corpus, systematic and first %d random bodies; async: all fulfil/reject histories of length <= 4" % (30 if ctx.tier == "quick" else 200)})
    # concrete failing inputs first (the spec model is the judge); a disagreement whose minimised form is a listed
    # known finding is explained, every other one breaks the correspondence obligation
    unexplained = {"gen": len(bad_gen), "async": len(bad_async)}
    for lst, kind in ((bad_gen, "gen"), (bad_async, "async")):
        for (c, i, e, o) in lst[:3]:
            if report_case(ctx, harness, model, c, i, e, o, kind) == "known":
                unexplained[kind] -= 1
    ctx.obligation("corr:gen-histories", "correspondence", unexplained["gen"] == 0, "%d disagreements (%d unexplained)" % (len(bad_gen), unexplained["gen"]))
    ctx.obligation("corr:async-histories", "correspondence", unexplained["async"] == 0, "%d disagreements (%d unexplained)" % (len(bad_async), unexplained["async"]))
    # the vm's stacks at idle: a history inside known-defect territory (marker fired) may leave them dirty — attributed
    # to that finding; anything else is a violation of "suspension leaves the caller clean"
    idle_unexplained = []
    for (c, idle) in idle_bad:
        try:
            hi = int(idle.split(":")[0].split(" ")[1])
        except Exception:
            hi = 0
        m = c.marks[hi][0] if c.marks and hi < len(c.marks) else ""
        c1 = Case(c.body, c.decl, c.mode, c.probe, [c.run_hists[hi]], [c.depths[hi]], [c.create[hi]], c.tag)
        if m:
            ctx.violation(KNOWN_SIG["A" if "!A" in m else "B"], "vm stacks dirty after {%s} with [%s]: %s" % (c.src()[:260], c.run_hists[hi], idle),
                          replay_dict(c1, "idle ok", idle, False))
        else:
            idle_unexplained.append(idle)
            if len(idle_unexplained) <= 2:
                ctx.violation("idle:" + hashlib.sha1((c.tokens() + c.run_hists[hi]).encode()).hexdigest()[:10],
                              "vm stacks not restored after driving {%s} with [%s]: %s" % (c.src()[:300], c.run_hists[hi], idle),
                              replay_dict(c1, "idle ok", idle, False))
    ctx.obligation("corr:caller-vm-idle-clean", "correspondence", not idle_unexplained, "; ".join(idle_unexplained[:3]))
    # mechanism: suspend / resume rebasing, implementation dumps vs the Lean model
    qs = sorted(mech)
    mo = shard_run(ctx, [model], qs, nshard=4) if qs else []
    mbad = []
    shifts = set()
    if mo is None:
        ctx.obligation("corr:mech-shift", "correspondence", False, "model driver failed on mechanism queries")
    else:
        for q, o in zip(qs, mo):
            if o.strip() != mech[q].strip():
                mbad.append((q, o, mech[q]))
            if q.startswith("M R"):
                shifts.add(tuple(q.split(" ")[2:6]))
        ctx.count(len(qs))
        ctx.stats["mech_queries"] = len(qs)
        ctx.stats["mech_distinct_resume_sites(callLen,iterLen,refLen,sp)"] = len(shifts)
        ctx.stats["mech_nonempty_frame_queries"] = sum(1 for q in qs if int(q.split(" ")[6]) > 0)
        ctx.obligation("corr:mech-shift", "correspondence", not mbad and len(qs) > 0,
                       ("%d of %d dumps disagree with Mech.suspend/resume; first: query [%s] model [%s] goja [%s]" %
                        (len(mbad), len(qs), mbad[0][0], mbad[0][1], mbad[0][2])) if mbad else "%d dumps" % len(qs))
    # concrete failing inputs (the spec model is the judge)
    for k in ("A", "B"):
        for (c, i, e, o) in known_hits[k][:1]:
            report_case(ctx, harness, model, c, i, e, o, c.mode, known=k)
    ctx.assumptions += [
        "the generated grammar (design/C09.md) stands for 'all generator bodies'; values are small naturals / short strings / undefined / NaN / TypeError",
        "scripted iterators (IterSpec) stand for 'arbitrary iterators' in yield* and for-of",
        "uint32 / int32 wrap-around in tryFrame offsets is not modelled (stack lengths < 2^31)",
        "async: only await at the positions of yield; no async generators; histories are sequences of fulfil/reject",
    ]
    ctx.trusted_base += [
        "the JavaScript rendering of the grammar and the prelude (iterators, drivers DV[0..6], P/RUNA) in harness/cmd/c09 and run/c09.py",
        "/repo/verif_hooks_c09.go reads tryFrame fields faithfully",
    ]
    return ctx.finish(level="proof", rule=RULE)

RULE = ("one evaluation = one (body, driver history) pair run on goja and on the Lean model (plus one per mechanism dump); "
        "distinct & non-trivial = distinct (mode, body, history) whose trace contains at least one suspension followed by a further command")

def indep_oracle(ctx, cases, hl):
    """Model-free laws on the implementation traces (used when the Lean side is unavailable): determinism of common
    prefixes across histories (a state machine), absorbing completed state, start-state throw/return."""
    bad = 0
    for c, h in zip(cases, hl):
        if c.mode != "gen": continue
        try:
            tr = json.loads(h).get("traces") or []
        except Exception:
            continue
        seen = {}
        for hist, t in zip(c.hists, tr):
            hs = hist.split(" "); ts = t.split(" ")
            done = False
            for n in range(len(hs)):
                key = " ".join(hs[:n + 1])
                if n < len(ts):
                    if key in seen and seen[key] != ts[n]:
                        bad += 1
                        ctx.violation("prefix:" + hashlib.sha1((c.tokens() + key).encode()).hexdigest()[:10],
                                      "same history prefix [%s] gave %s and %s on {%s}" % (key, seen[key], ts[n], c.src()[:300]),
                                      {"kind": "history", "mode": "gen", "source": c.src(), "history": key, "expected": seen[key], "observed": ts[n]})
                    seen[key] = ts[n]
                    r = ts[n].split(";", 1)[-1]
                    if done:
                        k, p = hs[n].split(":")
                        want = {"n": "D(u)", "t": "T(%s)" % p, "r": "D(%s)" % p}[k]
                        if ts[n] != ";" + want and r != "T(E)":
                            bad += 1
                            ctx.violation("absorb:" + hashlib.sha1((c.tokens() + key).encode()).hexdigest()[:10],
                                          "completed generator answered %s to %s on {%s}" % (ts[n], hs[n], c.src()[:300]),
                                          {"kind": "history", "mode": "gen", "source": c.src(), "history": key, "expected": want, "observed": ts[n]})
                    if r[0] in "DT": done = True
    ctx.obligation("oracle:state-machine-laws", "correspondence", bad == 0, "%d" % bad)

def replay(ctx, path):
    with open(path) as f:
        d = json.load(f)
    if d.get("kind") == "broken-obligation":
        print(json.dumps(d, indent=1)); return 1
    harness = ctx.go_build()
    ctx.lake_build(["model_c09"])
    model = ctx.model_exe()
    line = json.dumps({"mode": d.get("mode", "gen"), "src": d["source"], "hists": [d["history"]],
                       "depths": [d.get("depths", "0" * 8)], "create": [d.get("create", 0)], "probe": bool(d.get("probe"))})
    rc, out, err = ctx.run_lines([harness], [line])
    print("source   :", d["source"])
    print("history  :", d["history"], " depths:", d.get("depths"))
    obs = json.loads(out[0]) if out else {}
    print("goja     :", (obs.get("traces") or ["?"])[0], obs.get("err", ""), "idle=" + str(obs.get("idle")))
    exp = "?"
    if d.get("body_tokens") and os.path.exists(model):
        h = d["history"] if d.get("mode", "gen") == "gen" else ("n:u " + d["history"]).strip()
        rc, mo, _ = ctx.run_lines([model], ["G " + d["body_tokens"] + " # " + h])
        exp, marks, idx = split_marks(mo[0]) if mo else ("?", "", None)
        if d.get("mode") == "async": exp = cut_async(exp)
        if marks: print("note     : history triggers known-defect marker(s)", marks, "at command", idx)
    print("spec     :", exp)
    same = (obs.get("traces") or ["?"])[0] == exp and obs.get("idle") == "ok"
    print("AGREE" if same else "DISAGREE")
    return 0 if same else 1
