"""
Check for property C20 (run/c20.py): generators, orchestration, classification.

Generators for property C20 (used by run/c20.py).  Everything derives from the random.Random passed in.

Patterns are generated over the syntax accepted by BOTH regex engines (Go regexp via parser.TransformRegExp,
and regexp2 in ECMAScript mode): literals, '.', classes, \\d \\D \\w \\W \\s \\S, \\b \\B, ^ $, greedy / lazy quantifiers,
capturing / non-capturing / named groups, alternation.  Each pattern P is paired with semantically neutral
variants that force the backtracking engine:
    V1 = (?=)(?:P)        empty look-ahead prefix (always succeeds, consumes nothing)
    V2 = (?:P)(?=)        empty look-ahead suffix
    V3 = (?:P|(?!))       an alternative that can never match
None of them adds a capturing group, so index / captures / groups must be identical.
"""

from vlib import *

HI, LO = 0xD83D, 0xDE00            # U+1F600
HI2, LO2 = 0xD835, 0xDCB3          # U+1D4B3

# subject alphabet: (weight, list of code units)
SUBJ_ATOMS = [
    (6, [ord('a')]), (5, [ord('b')]), (3, [ord('c')]), (2, [ord('A')]), (2, [ord('B')]), (2, [ord('1')]),
    (1, [ord('_')]), (2, [ord(' ')]), (1, [ord('\n')]), (1, [ord('-')]),
    (2, [0xE9]), (1, [0xC9]), (1, [0x436]), (1, [0x20AC]),
    (4, [HI, LO]), (2, [HI2, LO2]), (2, [HI]), (2, [LO]), (1, [LO, HI]),
    (1, [HI, HI, LO]), (1, [HI, LO, LO]), (1, [LO, HI, LO]),          # surrogate adjacency: H-H-L, H-L-L, L-H-L
]

LIT_ASCII = list("abcAB1_ -")
LIT_BMP = ["é", "ж", "€"]


def wchoice(rng, items):
    tot = sum(w for w, _ in items)
    x = rng.randrange(tot)
    for w, v in items:
        if x < w:
            return v
        x -= w
    return items[-1][1]


def gen_subject(rng, maxlen=9):
    n = rng.choice([0, 1, 2, 3, 3, 4, 4, 5, 6, 7, maxlen])
    out = []
    while len(out) < n:
        out += wchoice(rng, SUBJ_ATOMS)
    return out[:max(n, 0)] if rng.random() < 0.3 else out


def units_of(s):
    b = s.encode("utf-16-be", "surrogatepass")
    return [(b[i] << 8) | b[i + 1] for i in range(0, len(b), 2)]


def hx(units):
    return "".join("%04x" % u for u in units) or "-"


def hx_str(s):
    return hx(units_of(s))


class PGen:
    """Generates pattern ASTs.  Node forms (tuples):
        ("chr", cp, src)            literal code point with its source spelling
        ("dot",)  ("esc", x)        x in dDwWsS
        ("cls", neg, items)         items: ("c", cp, src) | ("r", lo, hi, src) | ("e", x, src)
        ("wb", neg)  ("bol",)  ("eol",)
        ("grp", kind, name, node)   kind in cap / non / named
        ("q", node, min, max|None, lazy, src)
        ("seq", [nodes])  ("alt", [nodes])  ("la", neg, node)   (look-ahead: only in the engine-forcing variants)
    """

    def __init__(self, rng, unicode_flag, allow_astral=True):
        self.rng = rng
        self.u = unicode_flag
        self.names = 0
        self.groups = 0
        self.allow_astral = allow_astral
        self.features = set()

    def lit(self):
        r = self.rng
        x = r.random()
        if x < 0.70:
            c = r.choice(LIT_ASCII)
            return ("chr", ord(c), c)
        if x < 0.82:
            self.features.add("bmp-lit")
            c = r.choice(LIT_BMP)
            return ("chr", ord(c), c)
        if x < 0.90 and self.allow_astral:
            self.features.add("astral-lit")
            return ("chr", 0x1F600, "\U0001F600")
        if x < 0.94 and self.allow_astral:
            self.features.add("astral-esc")
            return ("chr", 0x1F600, "\\u{1F600}" if self.u else "\\uD83D\\uDE00")
        if x < 0.97:
            self.features.add("hex-esc")
            src, cp = r.choice([("\\x61", 0x61), ("\\u0062", 0x62), ("\\u00e9", 0xE9)])
            return ("chr", cp, src)
        src, cp = r.choice([("\\.", 0x2E), ("\\-", 0x2D), ("\\/", 0x2F)])
        return ("chr", cp, src)

    def cls(self):
        r = self.rng
        self.features.add("class")
        neg = r.random() < 0.3
        items = []
        for _ in range(r.randint(1, 3)):
            x = r.random()
            if x < 0.45:
                c = r.choice(list("abcAB1_"))
                items.append(("c", ord(c), c))
            elif x < 0.65:
                src = r.choice(["a-c", "A-C", "0-9", "a-b"])
                items.append(("r", ord(src[0]), ord(src[2]), src))
            elif x < 0.85:
                e = r.choice("dwsDW")
                items.append(("e", e, "\\" + e))
            elif x < 0.93:
                c = r.choice(LIT_BMP)
                items.append(("c", ord(c), c))
            else:
                if not self.allow_astral or r.random() < 0.5:
                    items.append(("c", 0xE9, "\\u00e9"))
                else:
                    items.append(("c", 0x1F600, "\U0001F600"))
                    self.features.add("astral-in-class")
        return ("cls", neg, items)

    def atom(self, depth):
        r = self.rng
        x = r.random()
        if x < 0.40:
            return self.lit()
        if x < 0.50:
            self.features.add("dot")
            return ("dot",)
        if x < 0.62:
            return self.cls()
        if x < 0.74:
            self.features.add("esc-class")
            return ("esc", r.choice("dwsDWS"))
        if depth <= 0:
            return self.lit()
        y = r.random()
        if y < 0.45:
            self.features.add("cap")
            self.groups += 1
            return ("grp", "cap", None, self.alt(depth - 1))
        if y < 0.75:
            self.features.add("noncap")
            return ("grp", "non", None, self.alt(depth - 1))
        self.features.add("named")
        self.groups += 1
        self.names += 1
        nm = "n" + "abcdefgh"[self.names % 8] + str(self.names)
        return ("grp", "named", nm, self.alt(depth - 1))

    def quant(self, a):
        r = self.rng
        x = r.random()
        if x < 0.55:
            return a
        q, lo, hi = r.choice([("*", 0, None), ("+", 1, None), ("?", 0, 1), ("{2}", 2, 2), ("{1,2}", 1, 2), ("{0,1}", 0, 1),
                              ("{1,}", 1, None), ("*", 0, None), ("+", 1, None), ("?", 0, 1)])
        self.features.add("quant")
        lazy = r.random() < 0.3
        if lazy:
            q += "?"
            self.features.add("lazy")
        if a[0] == "grp":
            self.features.add("quantgroup")
        return ("q", a, lo, hi, lazy, q)

    def term(self, depth):
        r = self.rng
        x = r.random()
        if x < 0.10:
            self.features.add("wordb")
            return ("wb", r.random() < 0.5)
        if x < 0.17:
            self.features.add("anchor")
            return ("bol",) if r.random() < 0.5 else ("eol",)
        return self.quant(self.atom(depth))

    def seq(self, depth):
        n = self.rng.choice([1, 1, 2, 2, 3, 4])
        return ("seq", [self.term(depth) for _ in range(n)])

    def alt(self, depth):
        n = self.rng.choice([1, 1, 1, 2, 2, 3])
        if n > 1:
            self.features.add("alt")
        return ("alt", [self.seq(depth) for _ in range(n)])


def render_src(n):
    """JavaScript source of a pattern AST."""
    k = n[0]
    if k == "chr":
        return n[2]
    if k == "dot":
        return "."
    if k == "esc":
        return "\\" + n[1]
    if k == "cls":
        return "[" + ("^" if n[1] else "") + "".join(it[-1] for it in n[2]) + "]"
    if k == "wb":
        return "\\B" if n[1] else "\\b"
    if k == "bol":
        return "^"
    if k == "eol":
        return "$"
    if k == "grp":
        inner = render_src(n[3])
        return {"cap": "(", "non": "(?:", "named": "(?<%s>" % n[2]}[n[1]] + inner + ")"
    if k == "q":
        return render_src(n[1]) + n[5]
    if k == "seq":
        return "".join(render_src(x) for x in n[1])
    if k == "alt":
        return "|".join(render_src(x) for x in n[1])
    if k == "la":
        return ("(?!" if n[1] else "(?=") + render_src(n[2]) + ")"
    raise ValueError(k)


def strip_quantified_groups(n):
    """AST without quantifiers applied to groups (used for the cases generated outside known divergences)."""
    k = n[0]
    if k == "q":
        inner = strip_quantified_groups(n[1])
        return inner if inner[0] == "grp" else ("q", inner) + tuple(n[2:])
    if k == "grp":
        return ("grp", n[1], n[2], strip_quantified_groups(n[3]))
    if k in ("seq", "alt"):
        return (k, [strip_quantified_groups(x) for x in n[1]])
    if k == "la":
        return ("la", n[1], strip_quantified_groups(n[2]))
    return n


class _Lean:
    """Token rendering of an AST for the Lean reference matcher (op `ref`), numbering capture groups in source order.
    Without the u flag the pattern is a sequence of code units: an astral literal is two units and a quantifier after it
    applies to the low surrogate only; inside a class it contributes two members."""

    def __init__(self, uflag):
        self.u = uflag
        self.ncap = 0
        self.quant_caps = set()

    def units(self, cp):
        if cp >= 0x10000 and not self.u:
            c = cp - 0x10000
            return [0xD800 + (c >> 10), 0xDC00 + (c & 0x3FF)]
        return [cp]

    def node(self, n):
        k = n[0]
        if k == "chr":
            us = self.units(n[1])
            if len(us) == 1:
                return ["chr", str(us[0])]
            return ["seq", "2", "chr", str(us[0]), "chr", str(us[1])]
        if k == "dot":
            return ["dot"]
        if k == "esc":
            return ["esc", n[1]]
        if k == "cls":
            items = []
            cnt = 0
            for it in n[2]:
                if it[0] == "c":
                    for u in self.units(it[1]):
                        items += ["c", str(u)]
                        cnt += 1
                elif it[0] == "r":
                    items += ["r", str(it[1]), str(it[2])]
                    cnt += 1
                else:
                    items += ["e", it[1]]
                    cnt += 1
            return ["cls", "1" if n[1] else "0", str(cnt)] + items
        if k == "wb":
            return ["wb", "1" if n[1] else "0"]
        if k == "bol":
            return ["bol"]
        if k == "eol":
            return ["eol"]
        if k == "grp":
            if n[1] == "non":
                return ["grp", "0"] + self.node(n[3])
            self.ncap += 1
            idx = self.ncap
            return ["grp", str(idx)] + self.node(n[3])
        if k == "q":
            inner = n[1]
            if inner[0] == "chr" and len(self.units(inner[1])) == 2:
                us = self.units(inner[1])
                return ["seq", "2", "chr", str(us[0])] + ["q", str(n[2]), str(-1 if n[3] is None else n[3]), "1" if n[4] else "0", "0", "0", "chr", str(us[1])]
            first = self.ncap + 1
            body = self.node(inner)
            cnt = self.ncap - first + 1
            for g in range(first, self.ncap + 1):
                self.quant_caps.add(g)
            return ["q", str(n[2]), str(-1 if n[3] is None else n[3]), "1" if n[4] else "0", str(first), str(cnt)] + body
        if k in ("seq", "alt"):
            out = [k, str(len(n[1]))]
            for x in n[1]:
                out += self.node(x)
            return out
        if k == "la":
            return ["la", "1" if n[1] else "0"] + self.node(n[2])
        raise ValueError(k)


def has_negdigit_class(n):
    """a character class that contains \\D together with other members (regexp2 mishandles these)."""
    k = n[0]
    if k == "cls":
        return len(n[2]) >= 2 and any(it[0] == "e" and it[1] == "D" for it in n[2])
    if k == "q":
        return has_negdigit_class(n[1])
    if k == "grp":
        return has_negdigit_class(n[3])
    if k in ("seq", "alt"):
        return any(has_negdigit_class(x) for x in n[1])
    if k == "la":
        return has_negdigit_class(n[2])
    return False


def shape(n):
    """Pattern shape with literals abstracted (c = ASCII literal, b = BMP non-ASCII, a = astral): the part of a
    minimised engine-deviation case that goes into its signature."""
    k = n[0]
    if k == "chr":
        return "c" if n[1] < 0x80 else ("b" if n[1] < 0x10000 else "a")
    if k == "dot":
        return "."
    if k == "esc":
        return "\\" + n[1]
    if k == "cls":
        kinds = sorted(set(("c" if it[1] < 0x80 else "b" if it[1] < 0x10000 else "a") if it[0] == "c" else "r" if it[0] == "r" else "\\" + it[1] for it in n[2]))
        return "[" + ("^" if n[1] else "") + "".join(kinds) + "]"
    if k == "wb":
        return "\\B" if n[1] else "\\b"
    if k == "bol":
        return "^"
    if k == "eol":
        return "$"
    if k == "grp":
        return {"cap": "(", "non": "(?:", "named": "(?<>"}[n[1]] + shape(n[3]) + ")"
    if k == "q":
        return shape(n[1]) + n[5]
    if k == "seq":
        return "".join(shape(x) for x in n[1])
    if k == "alt":
        return "|".join(shape(x) for x in n[1])
    if k == "la":
        return ("(?!" if n[1] else "(?=") + shape(n[2]) + ")"
    return "?"


def shrink_candidates(n):
    """Strictly smaller ASTs, one edit away."""
    k = n[0]
    if k in ("alt", "seq"):
        items = n[1]
        if len(items) > 1:
            for i in range(len(items)):
                yield (k, items[:i] + items[i + 1:])
        for i, x in enumerate(items):
            for y in shrink_candidates(x):
                yield (k, items[:i] + [y] + items[i + 1:])
    elif k == "q":
        yield n[1]
        for y in shrink_candidates(n[1]):
            yield ("q", y) + tuple(n[2:])
    elif k == "grp":
        yield n[3]
        for y in shrink_candidates(n[3]):
            yield ("grp", n[1], n[2], y)
    elif k == "cls":
        if len(n[2]) > 1:
            for i in range(len(n[2])):
                yield ("cls", n[1], n[2][:i] + n[2][i + 1:])
        if n[1]:
            yield ("cls", False, n[2])


def shrink_deviation(ast, flags, subj, holds, budget=90):
    """Greedy delta debugging of (pattern AST, flags, subject) while `holds(ast, subj, flags)` stays true."""
    evals = 0
    changed = True
    while changed and evals < budget:
        changed = False
        for cand in shrink_candidates(ast):
            if evals >= budget:
                break
            evals += 1
            if holds(cand, subj, flags):
                ast, changed = cand, True
                break
        if changed:
            continue
        for i in range(len(subj)):
            if evals >= budget:
                break
            cand_s = subj[:i] + subj[i + 1:]
            evals += 1
            if holds(ast, cand_s, flags):
                subj, changed = cand_s, True
                break
        if changed:
            continue
        for ch in flags:
            if evals >= budget:
                break
            cand_f = flags.replace(ch, "")
            evals += 1
            if holds(ast, subj, cand_f):
                flags, changed = cand_f, True
                break
    return ast, subj, flags, evals


def render_lean(ast, uflag):
    r = _Lean(uflag)
    toks = r.node(ast)
    return ",".join(toks), r.ncap, sorted(r.quant_caps)


def gen_pattern(rng, uflag):
    g = PGen(rng, uflag)
    ast = g.alt(rng.choice([0, 1, 2, 2, 3]))
    return ast, g


EMPTY = ("seq", [])


def variant_asts(ast):
    """base + three semantically neutral rewrites that force the backtracking engine (none adds a capture group)."""
    non = ("grp", "non", None, ast)
    return [("base", ast),
            ("v1", ("seq", [("la", False, EMPTY), non])),
            ("v2", ("seq", [non, ("la", False, EMPTY)])),
            ("v3", ("grp", "non", None, ("alt", [ast, ("la", True, EMPTY)])))]


def variants(p):
    return [("base", p), ("v1", "(?=)(?:" + p + ")"), ("v2", "(?:" + p + ")(?=)"), ("v3", "(?:" + p + "|(?!))")]


def case_variants(case):
    if case.get("ast") is not None:
        return [(vid, render_src(a), a) for vid, a in variant_asts(case["ast"])]
    return [(vid, p, None) for vid, p in variants(case["pattern"])]


def gen_flags(rng):
    fl = ""
    for c, pr in (("g", 0.45), ("i", 0.25), ("m", 0.25), ("s", 0.2), ("u", 0.5), ("y", 0.3)):
        if rng.random() < pr:
            fl += c
    return fl


def gen_starts(rng, subj):
    n = len(subj)
    st = {0}
    if n:
        st.add(rng.randrange(n + 1))
    pairs = [i + 1 for i in range(n - 1) if 0xD800 <= subj[i] <= 0xDBFF and 0xDC00 <= subj[i + 1] <= 0xDFFF]
    if pairs and rng.random() < 0.8:
        st.add(rng.choice(pairs))
    if rng.random() < 0.5:
        st.add(n)
    if rng.random() < 0.35:
        st.add(n + 1 + rng.randrange(3))
    return sorted(st)


TEMPLATES = ["[$&]", "<$1|$2>", "$`|$'", "$$-$<na1>-$<nb2>", "$0$10$01", "x", "", "$<zz>$"]


TEMPLATE_PIECES = ["$$", "$&", "$`", "$'", "$1", "$2", "$3", "$0", "$00", "$01", "$02", "$10", "$11", "$99", "$<na1>", "$<nb2>", "$<zz>", "$<",
                   "$<na1", "$", "$x", "$ ", "a", "-", ">", "<", "0", "1", "\u00e9", "\U0001F600"]


def gen_template(rng):
    """replacement templates over every GetSubstitution form (and their near misses), ending in a lone '$' now and then"""
    n = rng.choice([0, 1, 2, 3, 4, 5])
    t = "".join(rng.choice(TEMPLATE_PIECES) for _ in range(n))
    t = t.replace("\\u00e9", "\u00e9").replace("\\U0001F600", "\U0001F600")
    if rng.random() < 0.15:
        t += "$"
    return t


def gen_case(rng, cid):
    flags = gen_flags(rng)
    ast, g = gen_pattern(rng, "u" in flags)
    p = render_src(ast)
    subj = gen_subject(rng)
    starts = gen_starts(rng, subj)
    limit = rng.choice([0, 1, 2, 3, 5])
    tmpl = rng.choice(TEMPLATES) if rng.random() < 0.3 else gen_template(rng)
    modes = GEN_MODES[cid % len(GEN_MODES)] if isinstance(cid, int) else "gexec"
    if rng.random() < 0.08:
        modes = ",".join(GEN_MODES)
    return {"id": cid, "pattern": p, "ast": ast, "flags": flags, "subject": subj, "starts": starts, "limit": limit,
            "template": tmpl, "modes": modes, "features": sorted(g.features), "ngroups": g.groups}


GEN_MODES = ["gexec", "gflag", "gsym", "ginst", "gisym"]


def rx_line(case, vid, pattern):
    return "rx %s:%s %s %s %s %s %d %s %s" % (
        case["id"], vid, hx_str(pattern), hx_str(case["flags"]), hx(case["subject"]),
        ",".join(map(str, case["starts"])), case["limit"], hx_str(case["template"]), case.get("modes", "gexec"))


# ---------------------------------------------------------------- sharded execution with time limits
def run_sharded(cmd, lines, nproc=16, timeout=120, one_timeout=20):
    """Run `lines` through `cmd` (line protocol) in nproc parallel processes.  Returns a list of output lines
    (same order); an entry is None when the process handling it exceeded its time limit even when run alone."""
    import subprocess, concurrent.futures
    n = len(lines)
    if n == 0:
        return []
    nproc = max(1, min(nproc, n))
    shards = [list(range(i, n, nproc)) for i in range(nproc)]
    out = [None] * n

    def run(idx, t):
        try:
            p = subprocess.run(cmd, input="\n".join(lines[i] for i in idx) + "\n", stdout=subprocess.PIPE,
                               stderr=subprocess.PIPE, text=True, timeout=t)
        except subprocess.TimeoutExpired:
            return None
        res = p.stdout.splitlines()
        if len(res) != len(idx):
            return None
        return res

    def work(idx, t=None):
        t = t or timeout
        res = run(idx, t)
        if res is not None:
            return list(zip(idx, res))
        if len(idx) == 1:
            r = run(idx, one_timeout)                      # alone, once more
            return [(idx[0], r[0] if r else None)]
        mid = len(idx) // 2                                # isolate the slow / crashing line(s) by bisection
        return work(idx[:mid], max(one_timeout, t // 2)) + work(idx[mid:], max(one_timeout, t // 2))

    with concurrent.futures.ThreadPoolExecutor(max_workers=nproc) as ex:
        for pairs in ex.map(work, shards):
            for i, r in pairs:
                out[i] = r
    return out


# ---------------------------------------------------------------- invalid patterns / flags
BAD_PATTERNS = ["(", ")", "a(", "[a", "a**", "?", "*a", "+", "a{2,1}", "(?", "(?<", "(?<a", "(?<a>", "(?<1>a)", "\\",
                "a|*", "(?:", "[b-a]", "(?<a>x)(?<a>y)", "(?=a)*" if False else "a)"]
BAD_U_PATTERNS = ["\\u{110000}", "\\u{", "{", "a{", "\\-", "\\c", "(?=a)*", "\\1", "]", "}"]


def gen_flag_strings(rng, n):
    out = []
    alpha = "gimsuy"
    for _ in range(n):
        k = rng.choice([0, 1, 2, 2, 3, 3, 4, 5, 6, 7])
        x = rng.random()
        if x < 0.5:
            s = "".join(rng.choice(alpha) for _ in range(k))
        elif x < 0.8:
            s = "".join(rng.sample(alpha, min(k, 6)))
        else:
            s = "".join(rng.choice(alpha + "dvxGU 1") for _ in range(k))
        out.append(s)
    return out


# =====================================================================================================
#                                         the check
# =====================================================================================================
import json, os, re, time

LETTERS_NONASCII = {0xE9, 0xC9, 0x436, 0xD835}


def is_ascii_subject(units):
    return all(u < 0x80 for u in units)


# ------------------------------------------------------------------ independent python oracles (used when the
# Lean driver is unavailable, and as a second opinion for the posmap / flags ops)
def py_decode(units):
    out, i = [], 0
    while i < len(units):
        c = units[i]
        if 0xD800 <= c <= 0xDBFF and i + 1 < len(units) and 0xDC00 <= units[i + 1] <= 0xDFFF:
            out.append((0x10000 + ((c - 0xD800) << 10) + (units[i + 1] - 0xDC00), 2))
            i += 2
        else:
            out.append((c, 1))
            i += 1
    return out


def py_posmap(units, start):
    dec = py_decode(units)
    pm, cur = [0], 0
    for _, sz in dec:
        cur += sz
        pm.append(cur)
    ms, sp = 0, False
    if start <= len(units):
        j = next(i for i, x in enumerate(pm) if x >= start)
        ms, sp = (j, False) if pm[j] == start else (j - 1, True)
    return "posmap pm=%s runes=%s ms=%d sp=%d rl=%d,%d" % (
        ",".join(map(str, pm)), ",".join("%x" % r for r, _ in dec), ms, sp, ms, sp)


def py_flags(fl):
    ok = len(set(fl)) == len(fl) and all(c in "gimsuy" for c in fl)
    if not ok:
        return "flags ok=0"
    return "flags ok=1 bits=" + "".join("1" if c in fl else "0" for c in "gimsuy")


# ------------------------------------------------------------------ small-op generators
def gen_small_ops(rng, n):
    ops = []
    for _ in range(n):
        subj = gen_subject(rng, 10)
        k = rng.random()
        if k < 0.45:
            st = rng.choice([0, len(subj), rng.randrange(len(subj) + 1)])
            pairs = [i + 1 for i in range(len(subj) - 1) if 0xD800 <= subj[i] <= 0xDBFF and 0xDC00 <= subj[i + 1] <= 0xDFFF]
            if pairs and rng.random() < 0.5:
                st = rng.choice(pairs)
            ops.append("posmap %s %d" % (hx(subj), st))
        elif k < 0.70:
            qs = sorted({0, rng.randrange(0, 3 * len(subj) + 2), rng.randrange(0, 3 * len(subj) + 2)} | set(range(0, 4 * len(subj) + 1, max(1, rng.randrange(1, 4)))))
            ops.append("utf8map %s %s" % (hx(subj), ",".join(map(str, qs[:12]))))
        else:
            ops.append("adv %s %d %d" % (hx(subj), rng.randrange(len(subj) + 2), rng.randrange(2)))
    return ops


def exhaustive_flag_strings():
    """every string over 'gimsuy' of length ≤ 3, every permutation-free subset order, plus foreign letters."""
    import itertools
    out = [""]
    for n in (1, 2, 3):
        out += ["".join(t) for t in itertools.product("gimsuy", repeat=n)]
    for n in (4, 5, 6):
        out += ["".join(t) for t in itertools.combinations("gimsuy", n)]
        out += ["".join(t)[::-1] for t in itertools.combinations("gimsuy", n)]
    out += ["gimsuyg", "uu", "gg", "yy", "x", "gx", "G", "d", "v", " g", "g ", "uiu"]
    return out


# ------------------------------------------------------------------ parsing of harness output
def parse_rx(line):
    d = {}
    if line is None:
        return {"eng": "ERR:TIMEOUT"}
    if not line.startswith("rx "):
        return {"eng": "ERR:PANIC", "panic": line[:300]}       # common.Loop reports a Go panic of the whole op as one line
    for part in line.split("\t")[1:]:
        k, _, v = part.partition("=")
        d[k] = v
    return d


def parse_dump(s):
    out = {}
    for x in s.split(";"):
        k, _, v = x.partition("=")
        out[k] = v
    return out


def norm_tbl(tbl):
    """unset groups are reported as -1.-1 (Go regexp) or -1.0 (regexp2): same thing."""
    rows = []
    for row in tbl.split("|"):
        if row == "x":
            rows.append(row)
            continue
        ints, _, names = row.partition(":")
        v = ints.split(".")
        for i in range(0, len(v) - 1, 2):
            if v[i] == "-1":
                v[i + 1] = "-1"
        rows.append(".".join(v) + ":" + names)
    return rows


def rows_of(tbl):
    out = []
    for row in norm_tbl(tbl):
        if row == "x":
            out.append(None)
        else:
            ints, _, names = row.partition(":")
            out.append(([int(x) for x in ints.split(".")], names))
    return out


def norm_names(nm):
    """nil group-name slice and a slice of empty names are indistinguishable for scripts."""
    if nm == "!" or all(x == "" for x in nm.split(",")):
        return None
    return nm


def wf_problems(rows, n, positions=None):
    """Hypotheses of the protocol theorems (structure Leftmost) checked on the finder table."""
    bad = []
    ok = (lambda i: True) if positions is None else (lambda i: i in positions)
    for i, r in enumerate(rows):
        if not ok(i):
            continue
        if r is None:
            for j in range(i, n + 1):
                if ok(j) and rows[j] is not None:
                    bad.append("none_up:%d->%d" % (i, j))
                    break
            continue
        s, e = r[0][0], r[0][1]
        if not (s <= e <= n):
            bad.append("inside:%d" % i)
        if s < i:
            bad.append("ge:%d" % i)       # may legitimately happen only when start splits a pair in u-mode
        for j in range(i, min(s, n) + 1):
            if ok(j) and (rows[j] is None or rows[j][0] != r[0]):
                bad.append("stable:%d->%d" % (i, j))
                break
    return bad


# ------------------------------------------------------------------ classification of disagreements
def has_wordboundary(case, pattern):
    return "\\b" in pattern or "\\B" in pattern


def clean_case(rng, case):
    """Most cases are generated outside the circumstances of the known engine divergences (quantified groups,
    word boundaries next to non-ASCII letters), so that whatever differs there cannot be attributed to them."""
    if case.get("ast") is not None:
        case["ast"] = strip_quantified_groups(case["ast"])
        case["pattern"] = render_src(case["ast"])
    p = case["pattern"]
    if "\\b" in p or "\\B" in p:
        rep = {0xE9: 0x20AC, 0xC9: 0x20AC, 0x436: ord("-")}
        subj = [rep.get(u, u) for u in case["subject"]]
        subj = [0xD83D if u == 0xD835 else (0xDE00 if u == 0xDCB3 else u) for u in subj]
        case["subject"] = subj
    case["clean"] = True
    return case


CORPUS_CASES = [
    # (pattern, flags, subject string, starts, limit, template)  — regression seeds, always run first
    ("(?<na1>.)", "u", "\U0001F600b", [0, 1], 2, "[$&]"),                 # groups object missing (re2, u, start 0)
    ("a", "u", "\U0001F600a\U0001F600a", [0], 2, "x"),                    # non-global replace must replace once
    ("a*", "gy", "baa", [0], 2, "x"),                                      # sticky + global + empty match
    ("a*", "g", "baaac", [0, 2], 3, "[$&]"),                               # empty match next to a match
    ("\\b", "", "éa", [0, 1], 2, "|"),                                # word boundary next to a non-ASCII letter
    ("(a*)*", "", "b", [0], 2, "$1"),                                      # empty iteration of a quantified group
    (".", "uy", "\U0001F600", [0, 1, 2], 2, "x"),                          # start position splits a pair
    ("$", "y", "A\U0001F600", [0, 1, 3], 2, "x"),
    ("\\uD83D", "", "\U0001F600", [0, 1], 2, "x"), ("\\uD83D", "u", "\U0001F600", [0, 1], 2, "x"),
    ("^.", "gm", "a\nb", [0, 2], 5, "x"), ("[^a]", "gi", "aAbB", [0], 5, "$`"),
    ("a", "y", "abc", [5, 0, 4], 2, "x"),                                  # sticky replace with lastIndex beyond the length (was a Go panic, /repo 931ac52)
    ("(?<na1>a)|(?<nb2>b)", "gu", "\u00e9ab", [0, 1], 3, "$<na1>-$<nb2>-$<zz>-$1$2$3$0"),   # named groups /u linear engine (/repo 67f330f)
    ("(?=)a", "u", "\U0001F600a\U0001F600a", [0, 3], 2, "[$`|$&|$']"),    # limit ignored by the unicode sweep (/repo c615352)
    ("[\\Dc\\D]+\\B", "u", "a\U0001F600", [0], 2, "x"),
]


def corpus_cases():
    out = []
    for i, (p, fl, s, starts, lim, tmpl) in enumerate(CORPUS_CASES):
        out.append({"id": "c%d" % i, "pattern": p, "flags": fl, "subject": units_of(s), "starts": starts, "limit": lim,
                    "template": tmpl, "modes": ",".join(GEN_MODES), "features": ["corpus"], "ngroups": 0})
    return out


def load_corpus_files():
    d = os.path.join(os.path.dirname(os.path.dirname(os.path.abspath(__file__))), "corpus", "C20")
    small, cases = [], []
    if os.path.isdir(d):
        for fn in sorted(os.listdir(d)):
            p = os.path.join(d, fn)
            if fn.endswith(".ops"):
                small += [l.strip() for l in open(p) if l.strip() and not l.startswith("#")]
            elif fn.endswith(".json"):
                for c in json.load(open(p)).get("cases", []):
                    c = dict(c)
                    if isinstance(c.get("subject"), str):
                        c["subject"] = units_of(c["subject"])
                    c.setdefault("modes", ",".join(GEN_MODES))
                    c.setdefault("features", ["corpus"])
                    cases.append(c)
    return small, cases


def run_small(ctx, h, model, ops):
    """posmap / utf8map / flags / adv: mechanism model (Lean) and python oracle vs the real functions."""
    impl = run_sharded([h], ops, 4, 120, 20)
    mod = run_sharded([model], ops, 2, 120, 20) if model else [None] * len(ops)
    n_bad = 0
    for op, a, m in zip(ops, impl, mod):
        ctx.count(1)
        kind = op.split()[0]
        a_cmp = a
        js = None
        if a is not None and kind == "flags":
            a_cmp, _, js = a.partition(" js=")
        oracle = None
        f = op.split()
        if kind == "posmap":
            us = [int(f[1][i:i + 4], 16) for i in range(0, len(f[1]), 4)] if f[1] != "-" else []
            if int(f[2]) <= len(us):
                oracle = py_posmap(us, int(f[2]))
        elif kind == "flags":
            fl = "".join(chr(int(f[1][i:i + 4], 16)) for i in range(0, len(f[1]), 4)) if f[1] != "-" else ""
            oracle = py_flags(fl)
        expected = m if m is not None else oracle
        ctx.stats.setdefault("small_ops", {}).setdefault(kind, 0)
        ctx.stats["small_ops"][kind] += 1
        if kind in ("posmap", "utf8map") and a and ("sp=1" in a or "ok=0" in a or "x" in a.split("get=")[-1]):
            ctx.nontriv(op)
        elif kind == "flags":
            ctx.nontriv(op)
        problems = []
        if a is None:
            r1 = run_sharded([h], [op], 1, 300, 300)[0]           # slow machine? retry alone with a long limit
            a = r1
            if a is not None and kind == "flags":
                a_cmp, _, js = a.partition(" js=")
            elif a is not None:
                a_cmp = a
        if a is None:
            ctx.stats["small_inconclusive"] = ctx.stats.get("small_inconclusive", 0) + 1    # inconclusive, not a violation
            continue
        elif a.startswith("PANIC"):
            problems.append("implementation panicked: " + a)
        else:
            if expected is not None and a_cmp != expected:
                problems.append("model/oracle expects %r, implementation gives %r" % (expected, a_cmp))
            if oracle is not None and m is not None and m != oracle:
                problems.append("model %r != python oracle %r" % (m, oracle))
            if kind == "flags" and js is not None:
                okm = a_cmp.startswith("flags ok=1")
                if okm != js.startswith("ok:") or (not okm and js != "SyntaxError"):
                    problems.append("constructor outcome %r inconsistent with compileRegexp %r" % (js, a_cmp))
                if expected is not None and expected.startswith("flags ok=0") and js != "SyntaxError":
                    problems.append("invalid flags accepted by the RegExp constructor: " + js)
        if problems:
            n_bad += 1
            ctx.violation("small:%s:%s" % (kind, op.split()[1] if kind == "flags" else "mismatch"),
                          "%s: %s" % (op, "; ".join(problems)),
                          {"kind": "input", "ops": [op], "expected": expected, "observed": a, "problems": problems})
    return n_bad


def valid_utf16(units):
    return all(not (0xD800 <= r <= 0xDFFF) for r, _ in py_decode(units))


def find_path_bits(hasre2, start0, ascii_subj, limit1, uflag, pmok):
    """Which code path regexpPattern.findAllSubmatchIndex takes (regexp.go).  Cross-checked on every run against the
    Lean `findAllRoute`, which Tie.tie_findAllRoute proves equal to the decision tree regenerated from the Go source."""
    if not hasre2 or not start0:
        return "r2"
    if ascii_subj:
        return "go"
    if limit1:
        return "single"
    if uflag and pmok:
        return "go"
    return "r2"


def find_path(hasre2, subj, uflag, start, limit):
    return find_path_bits(hasre2, start == 0, is_ascii_subject(subj), limit == 1, uflag, valid_utf16(subj))


def check_routing_table(ctx, model):
    import itertools
    mine = "".join({"r2": "r", "go": "g", "single": "s"}[find_path_bits(*bits)] for bits in itertools.product([False, True], repeat=6))
    theirs = run_sharded([model], ["routes"], 1, 120, 120)[0] if model else None
    ctx.obligation("tie:routing table of run/c20.py = Lean findAllRoute (= tree regenerated from regexp.go, Tie.tie_findAllRoute)", "tie",
                   theirs == mine, "python %s / lean %s" % (mine, theirs))


def raw_rows(s):
    if s in ("-", "", None):
        return []
    out = []
    for r in s.split("|"):
        v = [int(x) for x in r.split(".")]
        for i in range(0, len(v) - 1, 2):
            if v[i] == -1:
                v[i + 1] = -1
        out.append(v)
    return out


def row_idx(r):
    return None if r is None else r[0]


QUANT_GROUP_RE = re.compile(r"\)[*+?{]")

FVG_OPS = "MFRP"          # operations with a fast path of their own


def run_rx(ctx, h, model, cases, nproc=16):
    lines, meta = [], []
    for c in cases:
        for vid, p, ast in case_variants(c):
            lines.append(rx_line(c, vid, p))
            meta.append((c, vid, p, ast))
    t0 = time.time()
    outs = run_sharded([h], lines, nproc, max(600, 5 * len(lines) // max(1, nproc)), 120)
    ctx.stats["rx_harness_s"] = round(ctx.stats.get("rx_harness_s", 0) + time.time() - t0, 1)
    ctx.log("rx harness done: %d lines, %d without answer" % (len(lines), sum(1 for o in outs if o is None)))
    parsed = [parse_rx(o) for o in outs]
    shrink_deadline = [time.time() + 240]                  # wall budget for delta debugging of engine deviations

    # ---------------- model queries: one `pred` per line + `iter` per distinct raw-list request
    mlines, mkey = [], []
    for i, (d, (c, vid, p, ast)) in enumerate(zip(parsed, meta)):
        if "tbl" not in d:
            continue
        fl, subj = c["flags"], c["subject"]
        mlines.append("pred %s %s %s %d %s %s %s %s %s" % (fl or "-", hx(subj), ",".join(map(str, c["starts"])), c["limit"],
                                                          hx_str(c["template"]), d["tbl"], d["allm"], d["alls"], d["allr"]))
        mkey.append((i, "pred"))
        hasre2 = d["tblr"] != "-"
        reqs = {("m", 0, -1, "y" in fl), ("s", 0, -1, False)}
        for ent in d["allr"].split(";"):
            k, _, l = ent.partition(":")
            if l == "beyond" or k == "":
                continue
            k = int(k)
            reqs.add(("r%d" % k, 0 if ("g" in fl or "y" not in fl) else k, -1 if "g" in fl else 1, "y" in fl))
        d["_reqs"] = sorted(reqs)
        if vid == "base" and ast is not None and hasre2:
            toks, ncap, qcaps = render_lean(ast, "u" in fl)
            for nm, wbu, perl in (("ref", 0, 0), ("refw", 1, 0), ("refp", 0, 1), ("refwp", 1, 1)):
                mlines.append("ref %s %s %d %d %d %s" % (fl or "-", hx(subj), ncap, wbu, perl, toks))
                mkey.append((i, nm))
        for (tag, st, lim, stk) in d["_reqs"]:
            for tname in ("tbl", "tbl2") + (("tblr",) if hasre2 else ()):
                mlines.append("iter %s %s %d %d %d %s" % (fl or "-", hx(subj), st, lim, 1 if stk else 0, d[tname]))
                mkey.append((i, (tag, tname)))
    mres = {}
    if model and mlines:
        mo = run_sharded([model], mlines, 4, max(600, len(mlines) // 8), 120)
        ctx.log("rx model done: %d lines" % len(mlines))
        for (i, k), o in zip(mkey, mo):
            if o is None:
                continue
            if k == "pred":
                parts = o.split("\t")
                mres[(i, "gen")] = parse_dump(parts[0])
                mres[(i, "fast")] = parse_dump(parts[1] if len(parts) > 1 else "")
                mres[(i, "plain")] = parse_dump(parts[2]) if len(parts) > 2 else {}
            elif isinstance(k, str):
                mres[(i, k)] = [None if r == "x" else "na" if r == "na" else [int(x) for x in r.split(".")] for r in o.split("|")]
            else:
                mres[(i, k)] = {kk: raw_rows(vv) for kk, vv in (x.split("=", 1) for x in o.split(";"))}

    st = ctx.stats.setdefault("rx", {"cases": 0, "lines": 0, "engines": {}, "syntax_errors": 0, "timeouts": 0, "flags": {},
                                     "features": {}, "subject_kinds": {}, "modes": {}, "ops_compared": 0, "split_pair_starts": 0,
                                     "clean_cases": 0, "paths": {}, "rawlists_checked": 0, "fast_ne_generic": {}, "engine_rows_compared": 0})
    found = {}

    def report(sig, summary, c, vid, p, detail):
        if sig in found:
            return
        found[sig] = True
        ctx.violation(sig, summary, {"kind": "input", "case": {k: c[k] for k in ("pattern", "flags", "subject", "starts", "limit", "template")},
                                     "variant": vid, "pattern_run": p, "line": rx_line(c, vid, p), "detail": detail})

    for ci in range(0, len(lines), 4):
        c = meta[ci][0]
        ds = parsed[ci:ci + 4]
        subj, fl = c["subject"], c["flags"]
        n = len(subj)
        st["cases"] += 1
        st["lines"] += 4
        ctx.count(4)
        st["flags"][fl or "-"] = st["flags"].get(fl or "-", 0) + 1
        for ftr in c.get("features", []):
            st["features"][ftr] = st["features"].get(ftr, 0) + 1
        dec = py_decode(subj)
        sk = ("empty" if not subj else "ascii" if is_ascii_subject(subj) else "lone-surrogate" if not valid_utf16(subj)
              else "astral" if any(sz == 2 for _, sz in dec) else "bmp")
        st["subject_kinds"][sk] = st["subject_kinds"].get(sk, 0) + 1
        if c.get("clean"):
            st["clean_cases"] += 1
        if any(d["eng"] == "ERR:PANIC" for d in ds):
            k0 = [i for i, d in enumerate(ds) if d["eng"] == "ERR:PANIC"][0]
            report("rx:go-panic-in-engine-glue", "Go panic while matching /%s/%s on %s: %s" % (meta[ci + k0][2], fl, hx(subj), ds[k0].get("panic")),
                   c, meta[ci + k0][1], meta[ci + k0][2], {"panic": ds[k0].get("panic")})
            continue
        if any(d["eng"] == "ERR:TIMEOUT" for d in ds):
            st["timeouts"] += 1          # inconclusive (slow machine / catastrophic backtracking): counted, not a violation
            continue
        errs = [d["eng"].startswith("ERR") for d in ds]
        if any(errs):
            st["syntax_errors"] += 1
            if not all(errs) or any(d["eng"] != "ERR:SyntaxError" for d in ds):
                report("engine:syntax-acceptance", "variants disagree on validity of %r: %s" % (c["pattern"], [d["eng"] for d in ds]),
                       c, "base", c["pattern"], {"eng": [d["eng"] for d in ds]})
            continue
        ctx.nontriv([c["pattern"], fl, subj])
        if len(ctx.samples) < 8:
            ctx.sample({"pattern": c["pattern"], "flags": fl, "subject": hx(subj), "starts": c["starts"], "engines": [d["eng"] for d in ds]})
        bset, cur = {0}, 0
        for _, sz in dec:
            cur += sz
            bset.add(cur)
        bpos = bset if "u" in fl else None
        base_rows2 = rows_of(ds[0]["tbl2"])
        for k, (d, (cc, vid, p, ast)) in enumerate(zip(ds, meta[ci:ci + 4])):
            li = ci + k
            eng = d["eng"]
            st["engines"][eng] = st["engines"].get(eng, 0) + 1
            rows = rows_of(d["tbl"])
            rows2 = rows_of(d["tbl2"])
            hasre2 = d["tblr"] != "-"
            rowsr = [None if r in ("na",) else (rows_of(r)[0]) for r in d["tblr"].split("|")] if hasre2 else None
            na_r = [r == "na" for r in d["tblr"].split("|")] if hasre2 else None
            if not d.get("std", "1").startswith("1") or "1" in d.get("std", "1")[1:]:
                report("guard:path-selection", "checkStdRegexp gave %s for modes fast+%s" % (d.get("std"), c["modes"]), c, vid, p, {"std": d.get("std")})
            dumps = {k2[2:]: parse_dump(v) for k2, v in d.items() if k2.startswith("D:")}
            for mname in dumps:
                st["modes"][mname] = st["modes"].get(mname, 0) + 1
            bad_dump = [m for m, dd in dumps.items() if any(k3.startswith("PANIC") or k3.startswith("DUMPERR") for k3 in dd)]
            if bad_dump:
                report("rx:panic", "Go panic / dump error escaped in mode %s for /%s/%s on %s" % (bad_dump, p, fl, hx(subj)), c, vid, p,
                       {m: d["D:" + m][:300] for m in bad_dump})
                continue

            # (a) engine routing of findSubmatchIndex: start 0 -> linear engine when there is one, start > 0 -> backtracking engine
            exp0 = rowsr[0] if hasre2 else rows2[0]
            route_bad = []
            if (rows[0] and (rows[0][0], norm_names(rows[0][1]))) != (exp0 and (exp0[0], norm_names(exp0[1]))):
                route_bad.append(0)
            for i2 in range(1, n + 1):
                if (rows[i2] and (rows[i2][0], norm_names(rows[i2][1]))) != (rows2[i2] and (rows2[i2][0], norm_names(rows2[i2][1]))):
                    route_bad.append(i2)
            if route_bad:
                report("finder:routing", "findSubmatchIndex of /%s/%s on %s is not {start 0: linear engine, start>0: regexp2} at starts %s" % (p, fl, hx(subj), route_bad[:4]),
                       c, vid, p, {"tbl": d["tbl"], "tbl2": d["tbl2"], "tblr": d["tblr"]})

            # (b) hypotheses of the protocol theorems (Leftmost) on the finder goja uses
            wf = wf_problems(rows, n, bpos)
            engines_differ = False
            if hasre2:
                for i2 in range(n + 1):
                    if not na_r[i2] and row_idx(rowsr[i2]) != row_idx(rows2[i2]):
                        engines_differ = True
            if wf:
                report("wf:engine-mix" if engines_differ else "wf:unexplained",
                       "finder table of /%s/%s on %s is not leftmost-consistent: %s" % (p, fl, hx(subj), wf[:3]),
                       c, vid, p, {"tbl": d["tbl"], "problems": wf})

            # (c) unicode mode: every reported index is a boundary of the lenient decoding (PosMap theorems)
            if "u" in fl:
                for r in rows + rows2:
                    if r is not None and any(x >= 0 and x not in bset for x in r[0]):
                        report("posmap:index-not-on-boundary", "/%s/%s on %s reports index off a code point boundary: %s" % (p, fl, hx(subj), r[0]),
                               c, vid, p, {"tbl": d["tbl"], "tbl2": d["tbl2"]})
                st["split_pair_starts"] += sum(1 for s0 in c["starts"] if s0 <= n and s0 not in bset)

            # (d) raw findAll lists = the wrapper / engine iteration over the per-engine finder, exactly
            rawobs = {"m": raw_rows(d["allm"]), "s": raw_rows(d["alls"])}
            for ent in d["allr"].split(";"):
                kk, _, l = ent.partition(":")
                if kk != "" and l != "beyond":
                    rawobs["r" + kk] = raw_rows(l)
            ideal = {}
            cause_raw = {}
            for (tag, st0, lim, stk) in d.get("_reqs", []):
                it2, itr, itm = mres.get((li, (tag, "tbl2"))), mres.get((li, (tag, "tblr"))), mres.get((li, (tag, "tbl")))
                if it2 is None or itm is None:
                    continue
                path = find_path(hasre2, subj, "u" in fl, st0, lim)
                st["paths"][path] = st["paths"].get(path, 0) + 1
                st["rawlists_checked"] += 1
                if path == "r2":
                    expected = it2["coded"]
                elif path == "go":
                    expected = itr["go"] if itr else None
                else:
                    expected = [list(rowsr[0][0])] if rowsr and rowsr[0] else []
                obs = rawobs.get(tag)
                ideal[tag] = itm["ideal"]
                if expected is not None and obs != expected:
                    report("rawlist:%s:unexplained" % path,
                           "findAllSubmatchIndex(start=%d, limit=%d, sticky=%s) of /%s/%s on %s: observed %s, %s-path model %s" % (
                               st0, lim, stk, p, fl, hx(subj), obs, path, expected), c, vid, p,
                           {"request": [tag, st0, lim, stk], "observed": obs, "expected": expected, "tbl2": d["tbl2"], "tblr": d["tblr"]})
                # why does the raw list differ from what the generic protocol would collect?
                if obs != itm["ideal"]:
                    if stk:
                        cause_raw[tag] = "unexplained"       # sticky sweeps are not used by any built-in any more
                    elif path == "go" and itr and obs == itr["go"] and itr["ideal"] == itm["ideal"] and not stk:
                        cause_raw[tag] = "go-adjacent-empty"
                    elif hasre2 and itr and itr["ideal"] != it2["ideal"]:
                        cause_raw[tag] = "engine-mix"
                    elif path == "go" and itr and obs == itr["go"]:
                        cause_raw[tag] = "engine-mix" if engines_differ else "go-adjacent-empty"
                    else:
                        cause_raw[tag] = "unexplained"

            # (e) glue, exactly: every mode's dump = the mechanism model fed with the observed finder table / raw lists
            gen, fastm = mres.get((li, "gen")), mres.get((li, "fast"))
            for mname, dd in dumps.items():
                for op, v in dd.items():
                    st["ops_compared"] += 1
                    if gen is None:
                        continue
                    use_fast = (mname == "fast" and op[0] in FVG_OPS) or (mname in ("ginst", "gisym") and op[0] == "P")
                    if use_fast and ((op[0] == "M" and "g" in fl and "y" in fl) or (op[0] in "FR" and "y" in fl)):
                        use_fast = False      # sticky regexps take the generic protocol in match / replace (/repo 15617dc)
                    exp = (fastm if use_fast else gen).get(op)
                    if exp != v:
                        report("glue:%s:%s" % (op[0], "fast" if use_fast else "generic"),
                               "%s of /%s/%s on %s in mode %s: mechanism model (%s path) %s, implementation %s" % (
                                   op, p, fl, hx(subj), mname, "fast" if use_fast else "generic", exp, v),
                               c, vid, p, {"op": op, "mode": mname, "model": exp, "impl": v, "tbl": d["tbl"], "allm": d["allm"], "alls": d["alls"], "allr": d["allr"]})
            if gen is None and "fast" in dumps:           # no model: mode against mode, nothing can be excused
                for mname, dd in dumps.items():
                    for op, v in dd.items():
                        if mname != "fast" and not (mname in ("ginst", "gisym") and op[0] == "P") and dumps["fast"].get(op) != v:
                            report("fast-vs-generic:%s:no-model" % op[0], "%s: fast %s, %s %s for /%s/%s on %s" % (op, dumps["fast"].get(op), mname, v, p, fl, hx(subj)),
                                   c, vid, p, {"op": op})

            # (f) the property itself: fast path = generic path.  Differences are computed in the model world (both sides
            #     are exact by (d),(e)) and attributed to a known finding only when that finding's mechanism reproduces them.
            if gen is not None:
                for op, gv in gen.items():
                    if op[0] not in FVG_OPS:
                        continue
                    fv = fastm.get(op)
                    if (op[0] == "M" and "g" in fl and "y" in fl) or (op[0] in "FR" and "y" in fl):
                        fv = gv               # no fast path of its own any more
                    if fv == gv:
                        continue
                    tag = "m" if op[0] == "M" else "s" if op[0] == "P" else "r" + op[1:]
                    cause = cause_raw.get(tag)
                    if cause is None:
                        cause = "unexplained"
                    if cause == "unexplained" and op[0] in "FR" and mres.get((li, "plain"), {}).get(op) == fv:
                        cause = "capture-lowerbound"     # exec hides captures by its lowerBound rule, the fast path does not
                    if cause == "unexplained" and engines_differ:
                        cause = "engine-mix"      # the generic path asks regexp2 at start > 0, the fast path asked the linear engine
                    st["fast_ne_generic"][cause] = st["fast_ne_generic"].get(cause, 0) + 1
                    sig = "fast-vs-generic:%s" % cause if cause != "unexplained" else "fast-vs-generic:%s:unexplained" % op[0]
                    report(sig, "%s of /%s/%s on %s: generic path %s, fast path %s (%s)" % (op, p, fl, hx(subj), gv, fv, cause),
                           c, vid, p, {"op": op, "generic": gv, "fast": fv, "raw": rawobs.get(tag), "ideal": ideal.get(tag), "tbl": d["tbl"]})

            # (g) engine against engine, arbitrated by the reference matcher (ECMA-262 semantics; `w` = word boundary over
            #     Unicode letters as regexp2 does, `p` = Perl-like loops: no empty-iteration check, no capture reset)
            if k == 0 and hasre2:
                refs = {nm: mres.get((li, nm)) for nm in ("ref", "refw", "refp", "refwp")}
                lin = [None if na_r[i2] else (row_idx(rowsr[i2]) or "x") for i2 in range(n + 1)]
                r2 = [(row_idx(rows2[i2]) or "x") for i2 in range(n + 1)]
                cmp_pos = [i2 for i2 in range(n + 1) if lin[i2] is not None]
                st["engine_rows_compared"] += len(cmp_pos)

                def same(tbl_, eng_rows):
                    return tbl_ is not None and all(tbl_[i2] == "na" or (tbl_[i2] or "x") == eng_rows[i2] for i2 in cmp_pos)

                def spans(rows_):
                    return [(r if r in ("x", None) else r[:2]) for r in rows_]
                if refs["ref"] is not None:
                    key = "lin=%s r2=%s" % (next((nm for nm in ("ref", "refp", "refw", "refwp") if same(refs[nm], lin)), "none"),
                                            next((nm for nm in ("ref", "refp", "refw", "refwp") if same(refs[nm], r2)), "none"))
                    st.setdefault("three_way", {})[key] = st.setdefault("three_way", {}).get(key, 0) + 1
                if any(lin[i2] != r2[i2] for i2 in cmp_pos):
                    diff_at = [i2 for i2 in cmp_pos if lin[i2] != r2[i2]]
                    span_diff = [i2 for i2 in diff_at if spans([lin[i2]]) != spans([r2[i2]])]
                    cap_diff = set()
                    for i2 in diff_at:
                        if i2 not in span_diff:
                            for g in range(1, len(lin[i2]) // 2):
                                if lin[i2][2 * g:2 * g + 2] != r2[i2][2 * g:2 * g + 2]:
                                    cap_diff.add(g)
                    sig = None
                    if refs["ref"] is not None:
                        lin_ok = same(refs["ref"], lin) or same(refs["refp"], lin)
                        if lin_ok and (same(refs["refw"], r2) or same(refs["refwp"], r2)) and has_wordboundary(c, p):
                            sig = "engine:regexp2-wordboundary-unicode-letters"      # reproduced exactly by switching the word-character set
                        elif lin_ok and has_negdigit_class(ast):
                            sig = "engine:regexp2-class-with-negated-digit"    # linear engine = reference exactly; regexp2 deviates on a [..\\D..] class
                        elif lin_ok and "u" not in fl and any(
                                isinstance(lin[i2], list) and any(0 < x < n and 0xD800 <= subj[x - 1] <= 0xDBFF and 0xDC00 <= subj[x] <= 0xDFFF for x in lin[i2][:2])
                                for i2 in diff_at):
                            sig = "engine:regexp2-match-inside-surrogate-pair"   # linear = reference; the match starts/ends between the halves of a pair
                        elif lin_ok and "u" not in fl and same(refs["ref"], lin):
                            # three-way arbitration: reference and linear engine agree exactly, regexp2 deviates.  Only without the u flag,
                            # where goja's glue around regexp2 copies rune indices unchanged (findSubmatchIndexUTF16).
                            sig = "engine:regexp2-deviates-nonunicode"
                            try:
                                def holds(a2, s2, f2):
                                    if "u" in f2 or time.time() > shrink_deadline[0]:
                                        return False
                                    c2 = {"id": "shrink", "flags": f2, "subject": s2, "starts": [0], "limit": 1, "template": "", "modes": "gexec"}
                                    o2 = run_sharded([h], [rx_line(c2, "base", render_src(a2))], 1, 40, 40)[0]
                                    if o2 is None:
                                        return False
                                    d2 = parse_rx(o2)
                                    if "tblr" not in d2 or d2["tblr"] == "-":
                                        return False
                                    toks2, ncap2, _ = render_lean(a2, False)
                                    ro = run_sharded([model], ["ref %s %s %d 0 0 %s" % (f2 or "-", hx(s2), ncap2, toks2)], 1, 40, 40)[0]
                                    if ro is None:
                                        return False
                                    ref2 = [None if r == "x" else [int(x) for x in r.split(".")] for r in ro.split("|")]
                                    lin2 = [row_idx(r) for r in ([None if r == "na" else rows_of(r)[0] for r in d2["tblr"].split("|")])]
                                    r22 = [row_idx(r) for r in rows_of(d2["tbl2"])]
                                    return lin2 == ref2 and r22 != ref2
                                a_min, s_min, f_min, evals = shrink_deviation(ast, fl, subj, holds)
                                relevant = "".join(x for x in f_min if x in "ims")
                                sig = "engine:regexp2-deviates:%s/%s" % (shape(a_min), relevant or "-")
                                st.setdefault("shrunk", []).append({"pattern": render_src(a_min), "flags": f_min, "subject": hx(s_min), "evals": evals, "signature": sig})
                            except Exception as e:          # shrinking is best effort; the unshrunk signature is not listed as known
                                st.setdefault("shrink_errors", []).append(str(e)[:200])
                        elif span_diff:
                            sig = "engine:span:unexplained"
                        elif cap_diff <= set(render_lean(ast, "u" in fl)[2]) and (same(refs["ref"], r2) or same(refs["refp"], r2) or same(refs["ref"], lin) or same(refs["refp"], lin)):
                            sig = "engine:quantified-group-captures"                  # one engine is reproduced exactly, the other differs only inside quantified groups
                        else:
                            sig = "engine:captures:unexplained"
                    else:       # no AST (corpus seeds given as source text): circumstance test only
                        if span_diff and re.search(r"\[[^\]]*\\D[^\]]+\]|\[\^?[^\]\\]+[^\]]*\\D", p):
                            sig = "engine:regexp2-class-with-negated-digit"
                        elif span_diff:
                            sig = "engine:regexp2-wordboundary-unicode-letters" if (has_wordboundary(c, p) and any(u in LETTERS_NONASCII for u in subj)) else "engine:span:unexplained"
                        else:
                            sig = "engine:quantified-group-captures" if QUANT_GROUP_RE.search(p) else "engine:captures:unexplained"
                    report(sig, "engines disagree on /%s/%s on %s at starts %s: linear %s vs regexp2 %s; reference %s" % (
                        p, fl, hx(subj), diff_at[:4], d["tblr"], d["tbl2"], refs["ref"]), c, vid, p,
                        {"tblr": d["tblr"], "tbl2": d["tbl2"], "reference": refs, "captures_differing": sorted(cap_diff)})
                names_l = [None if na_r[i2] or rowsr[i2] is None else norm_names(rowsr[i2][1]) for i2 in range(n + 1)]
                names_l = [None if na_r[i2] or rowsr[i2] is None or rows2[i2] is None else norm_names(rowsr[i2][1]) for i2 in range(n + 1)]
                names_2 = [None if na_r[i2] or rows2[i2] is None or rowsr[i2] is None else norm_names(rows2[i2][1]) for i2 in range(n + 1)]
                if names_l != names_2:
                    report("engine:group-names", "group names differ between engines for /%s/%s on %s" % (p, fl, hx(subj)), c, vid, p, {"tblr": d["tblr"], "tbl2": d["tbl2"]})
            if k > 0:
                # a neutral variant runs on regexp2 only and must reproduce the base pattern's regexp2 table exactly
                if [(r and (r[0], norm_names(r[1]))) for r in rows2] != [(r and (r[0], norm_names(r[1]))) for r in base_rows2]:
                    report("engine:neutral-variant-changes-result", "variant %s of /%s/%s on %s: regexp2 gives %s for the base pattern, %s for the variant" % (
                        vid, c["pattern"], fl, hx(subj), ds[0]["tbl2"], d["tbl2"]), c, vid, p, {"base_tbl2": ds[0]["tbl2"], "variant_tbl2": d["tbl2"]})
    return len(found)


PRE_PIECES = [[0x61], [0x2D], [0xE9], [0x20AC], [0x5C, 0x5C], [0x5C, 0x2D], [0x1F600], [0x1D4B3],
              [0x5C, 0x75, 0x30, 0x30, 0x36, 0x32], [0x5C, 0x75, 0x64, 0x38, 0x33, 0x64], [0x5C, 0x1F600], [0x5C, 0x5C, 0x1F600], [0x62, 0x1F600]]


def runes_to_units(runes):
    out = []
    for r in runes:
        if r > 0xFFFF:
            out += [0xD800 + ((r - 0x10000) >> 10), 0xDC00 + ((r - 0x10000) & 0x3FF)]
        else:
            out.append(r)
    return out


def find_sub(hay, needle):
    for i in range(len(hay) - len(needle) + 1):
        if hay[i:i + len(needle)] == needle:
            return i
    return None


def run_pre(ctx, h, model, n):
    """Pattern pre-processing of non-unicode regexps (convertRegexpToUtf16): literal patterns over plain characters, `\\\\`,
    `\\-`, `\\uXXXX`, astral characters and a backslash before an astral character.  The Lean model gives the converted
    source and the code units it matches (mechanism) and the code units the original matches per ECMA-262 (spec); goja must
    match exactly the mechanism's units; where mechanism and spec differ it is the known pre-processing finding."""
    if not model:
        return
    rng = ctx.rng
    pats = [[0x5C, 0x1F600], [0x5C, 0x5C, 0x1F600], [0x61, 0x1F600], [0x5C, 0x5C, 0x5C, 0x1F600]]
    for _ in range(n):
        k = rng.choice([1, 2, 2, 3, 3, 4, 5])
        pats.append([r for _ in range(k) for r in rng.choice(PRE_PIECES)])
    mo = run_sharded([model], ["pre16 " + ".".join("%x" % r for r in p) for p in pats], 2, 300, 60)
    lines, meta = [], []
    for p, o in zip(pats, mo):
        if o is None:
            continue
        d = dict(x.split("=", 1) for x in o.split()[1:])
        if d["mech"] == "x" or d["spec"] == "x":
            continue
        mech = [] if d["mech"] == "-" else [int(d["mech"][i:i + 4], 16) for i in range(0, len(d["mech"]), 4)]
        spec = [] if d["spec"] == "-" else [int(d["spec"][i:i + 4], 16) for i in range(0, len(d["spec"]), 4)]
        for subj in ([mech] if mech == spec else [mech, spec]):
            c = {"id": "pre", "flags": "", "subject": subj, "starts": [0], "limit": 1, "template": "", "modes": "gexec"}
            lines.append("rx pre:base %s - %s 0 1 - gexec" % (hx(runes_to_units(p)), hx(subj)))
            meta.append((p, mech, spec, subj))
    outs = run_sharded([h], lines, 8, max(600, 5 * len(lines)), 120)
    st = ctx.stats.setdefault("pre16", {"patterns": len(pats), "lines": 0, "mech_ne_spec": 0})
    bad = 0
    for (p, mech, spec, subj), o in zip(meta, outs):
        if o is None:
            continue
        st["lines"] += 1
        ctx.count(1)
        d = parse_rx(o)
        src = "".join(chr(r) for r in p)
        if "tbl" not in d:
            bad += 1
            ctx.violation("pre:glue:no-table", "literal pattern %r: %s" % (src, d.get("eng")), {"kind": "input", "ops": [o[:200]], "pattern_runes": p})
            continue
        row0 = rows_of(d["tbl"])[0]
        got = None if row0 is None else row0[0][:2]
        at = find_sub(subj, mech)
        exp = None if at is None else [at, at + len(mech)]
        if got != exp:
            bad += 1
            ctx.violation("pre:glue:unexplained", "non-unicode literal pattern %r on %s: mechanism model (convertRegexpToUtf16) predicts %s, implementation %s" % (src, hx(subj), exp, got),
                          {"kind": "input", "line": "rx pre:base %s - %s 0 1 - gexec" % (hx(runes_to_units(p)), hx(subj)), "pattern_runes": p, "expected": exp, "observed": got})
        if mech != spec and subj == spec:
            st["mech_ne_spec"] += 1
            ctx.nontriv(["pre", p])
            if got != [0, len(spec)]:
                ctx.violation("pre:escaped-astral-nonunicode", "/%s/ (no u flag) must match %s entirely (ECMA-262: code-unit pattern), goja matches %s there; the converted source matches %s instead" % (
                    src, hx(spec), got, hx(mech)), {"kind": "input", "line": "rx pre:base %s - %s 0 1 - gexec" % (hx(runes_to_units(p)), hx(spec)), "pattern_runes": p, "spec_units": spec, "mechanism_units": mech})
    ctx.obligation("corr:pre16 convertRegexpToUtf16 model = implementation on literal patterns", "correspondence", bad == 0, "%d disagreements" % bad)


def run_syntax(ctx, h):
    """invalid patterns / flags must raise SyntaxError whatever the engine; valid ones must not."""
    lines, expect = [], []
    for p in BAD_PATTERNS:
        for fl in ("", "g", "i", "y", "gim"):
            lines.append("syn %s %s" % (hx_str(p), hx_str(fl)))
            expect.append("syn SyntaxError")
    for p in BAD_U_PATTERNS:
        lines.append("syn %s %s" % (hx_str(p), hx_str("u")))
        expect.append("syn SyntaxError")
    for p in ["a", "(?:)", "[]", "[^]", "a{2}", "\\u{1F600}", "(?<n>a)\\k<n>", "(?=a)", "a|b", "^$", "\\-", "{", "a{", "}", "]"]:
        lines.append("syn %s %s" % (hx_str(p), hx_str("")))
        expect.append("syn ok")
    outs = run_sharded([h], lines, 2, 120, 20)
    ctx.stats["syntax_probes"] = len(lines)
    for l, o, e in zip(lines, outs, expect):
        ctx.count(1)
        ok = o is not None and (o == e or (e == "syn ok" and o.startswith("syn ok")))
        if not ok:
            ctx.violation("syntax:%s" % l.split()[1], "%s: expected %s, got %s" % (l, e, o), {"kind": "input", "ops": [l], "expected": e, "observed": o})


def main(ctx):
    regen_ok = ctx.regen()
    lean_ok, errs = ctx.lake_build(["GojaModel.C20.Props", "GojaModel.C20.PreProps", "GojaModel.C20.Tie", "model_c20"])
    ctx.audit("GojaModel.C20.Props", expect_min=33)
    ctx.audit("GojaModel.C20.PreProps", expect_min=7)
    ctx.audit("GojaModel.C20.Tie", expect_min=5)
    if ctx.tier == "thorough":
        ctx.leanchecker("GojaModel.C20.Props")
    ctx.log("lean done; building harness")
    h = None
    for attempt in range(4):
        h = ctx.go_build()
        if h is not None:
            break
        # harness/go.sum is shared with concurrently running checks and is rewritten (non-atomically) by each of them:
        # a "verifying module" failure is transient.  Forget the failed attempt and retry.
        last = ctx.obligations[-1] if ctx.obligations else None
        if attempt < 3 and last is not None and last["name"].startswith("tie.harness.build") and "verifying module" in last["detail"]:
            ctx.obligations.pop()
            ctx.broken = [b for b in ctx.broken if not b[0].startswith("tie.harness.build")]
            time.sleep(3 + 2 * attempt)
        else:
            break
    model = ctx.model_exe()
    if not lean_ok:
        rc, _, _ = sh(["lake", "build", "model_c20"], cwd=LEAN, timeout=1500)
        if rc != 0 or not os.path.exists(model):
            model = None
    elif not os.path.exists(model):
        model = None
    if h is None:
        return ctx.finish(level="proof", rule="harness did not build")
    thorough = ctx.tier == "thorough"
    rng = ctx.rng

    # ---- small ops: corpus, exhaustive flag strings, generated posmap/utf8map/adv
    corp_small, corp_cases = load_corpus_files()
    flag_ops = ["flags " + hx_str(s) for s in exhaustive_flag_strings()] + ["flags " + hx_str(s) for s in gen_flag_strings(rng, 200 if thorough else 40)]
    small = corp_small + flag_ops + gen_small_ops(rng, 4000 if thorough else 500)
    ctx.log("small ops: %d" % len(small))
    n_bad = run_small(ctx, h, model, small)
    ctx.log("small ops done, %d bad" % n_bad)
    ctx.obligation("corr:posmap-flags-advance (model = implementation, flags exhaustive up to length 3)", "correspondence", n_bad == 0, "%d disagreements" % n_bad)
    run_syntax(ctx, h)
    run_pre(ctx, h, model, 300 if thorough else 80)

    # ---- rx: corpus first, then generated (70 % outside the circumstances of the known divergences)
    n_cases = 1200 if thorough else 220
    cases = corpus_cases() + corp_cases
    for i in range(n_cases):
        c = gen_case(rng, i)
        if rng.random() < 0.7:
            c = clean_case(rng, c)
        cases.append(c)
    if model:
        check_routing_table(ctx, model)
    ctx.log("rx cases: %d" % len(cases))
    run_rx(ctx, h, model, cases)
    ctx.log("rx done")
    unknown = len(ctx.violations)
    ctx.obligation("corr:rx mechanism model = implementation on every path; fast = generic and engine = engine outside exactly-reproduced known findings", "correspondence",
                   unknown == 0, "%d unknown disagreement signatures" % unknown)
    rx = ctx.stats.get("rx", {})
    both = any(k.startswith("re2") for k in rx.get("engines", {})) and "regexp2" in rx.get("engines", {})
    ctx.obligation("corr:both engines and both paths exercised", "correspondence", both and len(rx.get("modes", {})) >= 4,
                   json.dumps({"engines": rx.get("engines"), "modes": rx.get("modes")}))
    if model is None:
        ctx.obligation("model-driver-available", "theorem", False, "model_c20 could not be built; python oracles and mode-vs-mode comparison were used instead")
    ctx.assumptions += [
        "the two regex engines (Go regexp, regexp2) are opaque: theorems quantify over every finder satisfying `Leftmost`; the check validates `Leftmost` on every table it sees",
        "sort.SearchInts / sort.Search return the first index satisfying the predicate on ascending input (ascending-ness of posMap is proved)",
        "JS-level dumps observe strings, not capture indices; capture indices are observed through the VerifC20Find hook",
    ]
    ctx.trusted_base += [
        "harness/cmd/c20/dump.js (structural dump) and its mirror in lean/GojaModel/C20/Driver.lean",
        "/repo/verif_hooks_c20.go accessors (thin wrappers around buildPosMap, posMapReverseLookup, buildUTF8PosMap, positionMap.get, compileRegexp, findSubmatchIndex, findAllSubmatchIndex, checkStdRegexp)",
        "reference matcher lean/GojaModel/C20/Ref.lean (hand transcription of ECMA-262 22.2.2 for the generated syntax; agrees with both engines on the cases counted in stats.rx.three_way)",
        "attribution rules of run/c20.py: every JS-observable result must equal the mechanism model fed with the observed finder tables / raw findAll lists (no excuses); a fast-vs-generic or engine-vs-engine difference is attributed to a known finding only when that finding's mechanism reproduces the observed data exactly",
    ]
    return ctx.finish(
        level="proof",
        rule=("small ops: every flags string over gimsuy up to length 3 + duplicate-free longer ones + random (exhaustive for length<=3), random "
              "subjects (ASCII/BMP/astral/lone surrogates) x start positions incl. pair-splitting ones for posmap/utf8map/advance. rx: generated pattern x "
              "4 variants (base + 3 engine-forcing neutral rewrites) x flag subset x subject x start positions x fast + de-optimised modes; a case is "
              "distinct by (pattern, flags, subject); non-trivial = compiled by every variant"),
        explanation=("Lean theorems (PosMap / UTF-8 map translation, flag parser, exec/lastIndex protocol, fast search/match/replace = generic, "
                     "defect witnesses) about a mechanism model of goja's RegExp glue; flag loop regenerated from builtin_regexp.go and proved equal "
                     "to the model (Tie); exact correspondence of every observable operation with the mechanism model fed with the engines' observed "
                     "results; engine vs engine arbitrated three-way by a reference ECMA-262 matcher. The two regex engines are opaque finders, not verified."))


def replay(ctx, path):
    r = json.load(open(path))
    h = ctx.go_build()
    model = ctx.model_exe() if os.path.exists(ctx.model_exe()) else None
    if r.get("kind") == "broken-obligation":
        print(json.dumps(r, indent=1))
        return 1
    lines = r.get("ops") or [r.get("line")]
    for l in lines:
        print("op      :", l)
        out = run_sharded([h], [l], 1, 120, 120)[0]
        print("impl    :", (out or "TIMEOUT").replace("\t", "\n          "))
        if model and not l.startswith("rx") and not l.startswith("syn"):
            print("model   :", run_sharded([model], [l], 1, 60, 60)[0])
        elif model and l.startswith("rx") and out:
            d = parse_rx(out)
            c = r["case"]
            if "tbl" in d:
                pl = "pred %s %s %s %d %s %s %s %s %s" % (c["flags"] or "-", hx(c["subject"]), ",".join(map(str, c["starts"])), c["limit"],
                                                      hx_str(c["template"]), d["tbl"], d["allm"], d["alls"], d["allr"])
                mo = run_sharded([model], [pl], 1, 60, 60)[0] or ""
                parts = mo.split("\t") + ["", ""]
                print("model generic path:", parts[0].replace(";", "\n          "))
                print("model fast path   :", parts[1].replace(";", "\n          "))
    print("recorded in the replay file:", json.dumps({k: r.get(k) for k in ("signature", "summary", "expected", "observed", "detail")}, default=str)[:3000])
    return 1
