"""
Check for property C20 (run/c20.py): generators, orchestration, classification.

Generators for property C20 (used by run/c20.py).  Everything derives from the random.Random passed in.

Patterns are generated over the syntax accepted by BOTH regex engines (Go regexp via parser.TransformRegExp,
and regexp2 in ECMAScript mode): literals, '.', classes, \\d \\D \\w \\W \\s \\S, \\b \\B, ^ $, greedy / lazy quantifiers,
capturing / non-capturing / named groups, alternation.  Each pattern P is paired with semantically neutral
variants that force the backtracking engine:
    V1 = (?=)(?:P)        empty look-ahead prefix (always succeeds, consumes nothing)
    V2 = (?:P)(?=)        empty look-ahead suffix
    V3 = (?:P|(?!))       an alternative that can never match
None of them adds a capturing group, so index / captures / groups must be identical.
"""

from vlib import *

HI, LO = 0xD83D, 0xDE00            # U+1F600
HI2, LO2 = 0xD835, 0xDCB3          # U+1D4B3

# subject alphabet: (weight, list of code units)
SUBJ_ATOMS = [
    (6, [ord('a')]), (5, [ord('b')]), (3, [ord('c')]), (2, [ord('A')]), (2, [ord('B')]), (2, [ord('1')]),
    (1, [ord('_')]), (2, [ord(' ')]), (1, [ord('\n')]), (1, [ord('-')]),
    (2, [0xE9]), (1, [0xC9]), (1, [0x436]), (1, [0x20AC]),
    (4, [HI, LO]), (2, [HI2, LO2]), (2, [HI]), (2, [LO]), (1, [LO, HI]),
]

LIT_ASCII = list("abcAB1_ -")
LIT_BMP = ["é", "ж", "€"]


def wchoice(rng, items):
    tot = sum(w for w, _ in items)
    x = rng.randrange(tot)
    for w, v in items:
        if x < w:
            return v
        x -= w
    return items[-1][1]


def gen_subject(rng, maxlen=9):
    n = rng.choice([0, 1, 2, 3, 3, 4, 4, 5, 6, 7, maxlen])
    out = []
    while len(out) < n:
        out += wchoice(rng, SUBJ_ATOMS)
    return out[:max(n, 0)] if rng.random() < 0.3 else out


def units_of(s):
    b = s.encode("utf-16-be", "surrogatepass")
    return [(b[i] << 8) | b[i + 1] for i in range(0, len(b), 2)]


def hx(units):
    return "".join("%04x" % u for u in units) or "-"


def hx_str(s):
    return hx(units_of(s))


class PGen:
    def __init__(self, rng, unicode_flag, allow_astral=True):
        self.rng = rng
        self.u = unicode_flag
        self.names = 0
        self.groups = 0
        self.allow_astral = allow_astral
        self.features = set()

    def lit(self):
        r = self.rng
        x = r.random()
        if x < 0.70:
            c = r.choice(LIT_ASCII)
            if c in "-":
                return c
            return c
        if x < 0.82:
            self.features.add("bmp-lit")
            return r.choice(LIT_BMP)
        if x < 0.90 and self.allow_astral:
            self.features.add("astral-lit")
            return "\U0001F600"
        if x < 0.94 and self.allow_astral:
            self.features.add("astral-esc")
            return "\\u{1F600}" if self.u else "\\uD83D\\uDE00"
        if x < 0.97:
            self.features.add("hex-esc")
            return r.choice(["\\x61", "\\u0062", "\\u00e9"])
        return r.choice(["\\.", "\\-", "\\/"])

    def cls(self):
        r = self.rng
        self.features.add("class")
        neg = "^" if r.random() < 0.3 else ""
        items = []
        for _ in range(r.randint(1, 3)):
            x = r.random()
            if x < 0.45:
                items.append(r.choice(list("abcAB1_")))
            elif x < 0.65:
                items.append(r.choice(["a-c", "A-C", "0-9", "a-b"]))
            elif x < 0.85:
                items.append(r.choice(["\\d", "\\w", "\\s", "\\D", "\\W"]))
            elif x < 0.93:
                items.append(r.choice(LIT_BMP))
            else:
                items.append("\\u00e9" if not self.allow_astral or r.random() < 0.5 else "\U0001F600")
                if items[-1] == "\U0001F600":
                    self.features.add("astral-in-class")
        return "[" + neg + "".join(items) + "]"

    def atom(self, depth):
        r = self.rng
        x = r.random()
        if x < 0.40:
            return self.lit()
        if x < 0.50:
            self.features.add("dot")
            return "."
        if x < 0.62:
            return self.cls()
        if x < 0.74:
            self.features.add("esc-class")
            return r.choice(["\\d", "\\w", "\\s", "\\D", "\\W", "\\S"])
        if depth <= 0:
            return self.lit()
        y = r.random()
        if y < 0.45:
            self.features.add("cap")
            self.groups += 1
            return "(" + self.alt(depth - 1) + ")"
        if y < 0.75:
            self.features.add("noncap")
            return "(?:" + self.alt(depth - 1) + ")"
        self.features.add("named")
        self.groups += 1
        self.names += 1
        nm = "n" + "abcdefgh"[self.names % 8] + str(self.names)
        return "(?<" + nm + ">" + self.alt(depth - 1) + ")"

    def quant(self, a):
        r = self.rng
        x = r.random()
        if x < 0.55:
            return a
        q = r.choice(["*", "+", "?", "{2}", "{1,2}", "{0,1}", "{1,}", "*", "+", "?"])
        self.features.add("quant")
        if r.random() < 0.3:
            q += "?"
            self.features.add("lazy")
        return a + q

    def term(self, depth):
        r = self.rng
        x = r.random()
        if x < 0.10:
            self.features.add("wordb")
            return r.choice(["\\b", "\\B"])
        if x < 0.17:
            self.features.add("anchor")
            return r.choice(["^", "$"])
        return self.quant(self.atom(depth))

    def seq(self, depth):
        n = self.rng.choice([1, 1, 2, 2, 3, 4])
        return "".join(self.term(depth) for _ in range(n))

    def alt(self, depth):
        n = self.rng.choice([1, 1, 1, 2, 2, 3])
        if n > 1:
            self.features.add("alt")
        return "|".join(self.seq(depth) for _ in range(n))


def gen_pattern(rng, uflag):
    g = PGen(rng, uflag)
    p = g.alt(rng.choice([0, 1, 2, 2, 3]))
    return p, g


def variants(p):
    return [("base", p), ("v1", "(?=)(?:" + p + ")"), ("v2", "(?:" + p + ")(?=)"), ("v3", "(?:" + p + "|(?!))")]


def gen_flags(rng):
    fl = ""
    for c, pr in (("g", 0.45), ("i", 0.25), ("m", 0.25), ("s", 0.2), ("u", 0.5), ("y", 0.3)):
        if rng.random() < pr:
            fl += c
    return fl


def gen_starts(rng, subj):
    n = len(subj)
    st = {0}
    if n:
        st.add(rng.randrange(n + 1))
    pairs = [i + 1 for i in range(n - 1) if 0xD800 <= subj[i] <= 0xDBFF and 0xDC00 <= subj[i + 1] <= 0xDFFF]
    if pairs and rng.random() < 0.8:
        st.add(rng.choice(pairs))
    if rng.random() < 0.5:
        st.add(n)
    if rng.random() < 0.35:
        st.add(n + 1 + rng.randrange(3))
    return sorted(st)


TEMPLATES = ["[$&]", "<$1|$2>", "$`|$'", "$$-$<na1>-$<nb2>", "$0$10$01", "x", "", "$<zz>$"]


def gen_case(rng, cid):
    flags = gen_flags(rng)
    p, g = gen_pattern(rng, "u" in flags)
    subj = gen_subject(rng)
    starts = gen_starts(rng, subj)
    limit = rng.choice([0, 1, 2, 3, 5])
    tmpl = rng.choice(TEMPLATES)
    modes = GEN_MODES[cid % len(GEN_MODES)] if isinstance(cid, int) else "gexec"
    if rng.random() < 0.08:
        modes = ",".join(GEN_MODES)
    return {"id": cid, "pattern": p, "flags": flags, "subject": subj, "starts": starts, "limit": limit,
            "template": tmpl, "modes": modes, "features": sorted(g.features), "ngroups": g.groups}


GEN_MODES = ["gexec", "gflag", "gsym", "ginst", "gisym"]


def rx_line(case, vid, pattern):
    return "rx %s:%s %s %s %s %s %d %s %s" % (
        case["id"], vid, hx_str(pattern), hx_str(case["flags"]), hx(case["subject"]),
        ",".join(map(str, case["starts"])), case["limit"], hx_str(case["template"]), case.get("modes", "gexec"))


# ---------------------------------------------------------------- sharded execution with time limits
def run_sharded(cmd, lines, nproc=16, timeout=120, one_timeout=20):
    """Run `lines` through `cmd` (line protocol) in nproc parallel processes.  Returns a list of output lines
    (same order); an entry is None when the process handling it exceeded its time limit even when run alone."""
    import subprocess, concurrent.futures
    n = len(lines)
    if n == 0:
        return []
    nproc = max(1, min(nproc, n))
    shards = [list(range(i, n, nproc)) for i in range(nproc)]
    out = [None] * n

    def run(idx, t):
        try:
            p = subprocess.run(cmd, input="\n".join(lines[i] for i in idx) + "\n", stdout=subprocess.PIPE,
                               stderr=subprocess.PIPE, text=True, timeout=t)
        except subprocess.TimeoutExpired:
            return None
        res = p.stdout.splitlines()
        if len(res) != len(idx):
            return None
        return res

    def work(idx):
        res = run(idx, timeout)
        if res is not None:
            return list(zip(idx, res))
        pairs = []
        for i in idx:                      # isolate the slow / crashing line(s)
            r = run([i], one_timeout)
            pairs.append((i, r[0] if r else None))
        return pairs

    with concurrent.futures.ThreadPoolExecutor(max_workers=nproc) as ex:
        for pairs in ex.map(work, shards):
            for i, r in pairs:
                out[i] = r
    return out


# ---------------------------------------------------------------- invalid patterns / flags
BAD_PATTERNS = ["(", ")", "a(", "[a", "a**", "?", "*a", "+", "a{2,1}", "(?", "(?<", "(?<a", "(?<a>", "(?<1>a)", "\\",
                "a|*", "(?:", "[b-a]", "(?<a>x)(?<a>y)", "(?=a)*" if False else "a)"]
BAD_U_PATTERNS = ["\\u{110000}", "\\u{", "{", "a{", "\\-", "\\c", "(?=a)*", "\\1", "]", "}"]


def gen_flag_strings(rng, n):
    out = []
    alpha = "gimsuy"
    for _ in range(n):
        k = rng.choice([0, 1, 2, 2, 3, 3, 4, 5, 6, 7])
        x = rng.random()
        if x < 0.5:
            s = "".join(rng.choice(alpha) for _ in range(k))
        elif x < 0.8:
            s = "".join(rng.sample(alpha, min(k, 6)))
        else:
            s = "".join(rng.choice(alpha + "dvxGU 1") for _ in range(k))
        out.append(s)
    return out


# =====================================================================================================
#                                         the check
# =====================================================================================================
import json, os, re, time

LETTERS_NONASCII = {0xE9, 0xC9, 0x436, 0xD835}


def is_ascii_subject(units):
    return all(u < 0x80 for u in units)


# ------------------------------------------------------------------ independent python oracles (used when the
# Lean driver is unavailable, and as a second opinion for the posmap / flags ops)
def py_decode(units):
    out, i = [], 0
    while i < len(units):
        c = units[i]
        if 0xD800 <= c <= 0xDBFF and i + 1 < len(units) and 0xDC00 <= units[i + 1] <= 0xDFFF:
            out.append((0x10000 + ((c - 0xD800) << 10) + (units[i + 1] - 0xDC00), 2))
            i += 2
        else:
            out.append((c, 1))
            i += 1
    return out


def py_posmap(units, start):
    dec = py_decode(units)
    pm, cur = [0], 0
    for _, sz in dec:
        cur += sz
        pm.append(cur)
    ms, sp = 0, False
    if start <= len(units):
        j = next(i for i, x in enumerate(pm) if x >= start)
        ms, sp = (j, False) if pm[j] == start else (j - 1, True)
    return "posmap pm=%s runes=%s ms=%d sp=%d rl=%d,%d" % (
        ",".join(map(str, pm)), ",".join("%x" % r for r, _ in dec), ms, sp, ms, sp)


def py_flags(fl):
    ok = len(set(fl)) == len(fl) and all(c in "gimsuy" for c in fl)
    if not ok:
        return "flags ok=0"
    return "flags ok=1 bits=" + "".join("1" if c in fl else "0" for c in "gimsuy")


# ------------------------------------------------------------------ small-op generators
def gen_small_ops(rng, n):
    ops = []
    for _ in range(n):
        subj = gen_subject(rng, 10)
        k = rng.random()
        if k < 0.45:
            st = rng.choice([0, len(subj), rng.randrange(len(subj) + 1)])
            pairs = [i + 1 for i in range(len(subj) - 1) if 0xD800 <= subj[i] <= 0xDBFF and 0xDC00 <= subj[i + 1] <= 0xDFFF]
            if pairs and rng.random() < 0.5:
                st = rng.choice(pairs)
            ops.append("posmap %s %d" % (hx(subj), st))
        elif k < 0.70:
            qs = sorted({0, rng.randrange(0, 3 * len(subj) + 2), rng.randrange(0, 3 * len(subj) + 2)} | set(range(0, 4 * len(subj) + 1, max(1, rng.randrange(1, 4)))))
            ops.append("utf8map %s %s" % (hx(subj), ",".join(map(str, qs[:12]))))
        else:
            ops.append("adv %s %d %d" % (hx(subj), rng.randrange(len(subj) + 2), rng.randrange(2)))
    return ops


def exhaustive_flag_strings():
    """every string over 'gimsuy' of length ≤ 3, every permutation-free subset order, plus foreign letters."""
    import itertools
    out = [""]
    for n in (1, 2, 3):
        out += ["".join(t) for t in itertools.product("gimsuy", repeat=n)]
    for n in (4, 5, 6):
        out += ["".join(t) for t in itertools.combinations("gimsuy", n)]
        out += ["".join(t)[::-1] for t in itertools.combinations("gimsuy", n)]
    out += ["gimsuyg", "uu", "gg", "yy", "x", "gx", "G", "d", "v", " g", "g ", "uiu"]
    return out


# ------------------------------------------------------------------ parsing of harness output
def parse_rx(line):
    d = {}
    if line is None:
        return {"eng": "ERR:TIMEOUT"}
    if not line.startswith("rx "):
        return {"eng": "ERR:PANIC", "panic": line[:300]}       # common.Loop reports a Go panic of the whole op as one line
    for part in line.split("\t")[1:]:
        k, _, v = part.partition("=")
        d[k] = v
    return d


def parse_dump(s):
    out = {}
    for x in s.split(";"):
        k, _, v = x.partition("=")
        out[k] = v
    return out


def norm_tbl(tbl):
    """unset groups are reported as -1.-1 (Go regexp) or -1.0 (regexp2): same thing."""
    rows = []
    for row in tbl.split("|"):
        if row == "x":
            rows.append(row)
            continue
        ints, _, names = row.partition(":")
        v = ints.split(".")
        for i in range(0, len(v) - 1, 2):
            if v[i] == "-1":
                v[i + 1] = "-1"
        rows.append(".".join(v) + ":" + names)
    return rows


def rows_of(tbl):
    out = []
    for row in norm_tbl(tbl):
        if row == "x":
            out.append(None)
        else:
            ints, _, names = row.partition(":")
            out.append(([int(x) for x in ints.split(".")], names))
    return out


def norm_names(nm):
    """nil group-name slice and a slice of empty names are indistinguishable for scripts."""
    if nm == "!" or all(x == "" for x in nm.split(",")):
        return None
    return nm


def wf_problems(rows, n, positions=None):
    """Hypotheses of the protocol theorems (structure Leftmost) checked on the finder table."""
    bad = []
    ok = (lambda i: True) if positions is None else (lambda i: i in positions)
    for i, r in enumerate(rows):
        if not ok(i):
            continue
        if r is None:
            for j in range(i, n + 1):
                if ok(j) and rows[j] is not None:
                    bad.append("none_up:%d->%d" % (i, j))
                    break
            continue
        s, e = r[0][0], r[0][1]
        if not (s <= e <= n):
            bad.append("inside:%d" % i)
        if s < i:
            bad.append("ge:%d" % i)       # may legitimately happen only when start splits a pair in u-mode
        for j in range(i, min(s, n) + 1):
            if ok(j) and (rows[j] is None or rows[j][0] != r[0]):
                bad.append("stable:%d->%d" % (i, j))
                break
    return bad


# ------------------------------------------------------------------ classification of disagreements
QUANT_GROUP = re.compile(r"\)[*+?{]")


def tags_for(case, pattern, eng, rows):
    """Detector tags: circumstances under which a KNOWN divergence (documented in known_findings.d/C20.json)
    can occur.  A disagreement in a case that carries no tag is never suppressed."""
    fl = case["flags"]
    subj = case["subject"]
    t = []
    has_empty = any(r is not None and r[0][0] == r[0][1] for r in rows)
    if "g" in fl and "y" in fl and has_empty:
        t.append("gy-empty")
    if "g" not in fl and "u" in fl and not is_ascii_subject(subj):
        t.append("nonglobal-u")
    if ("\\b" in pattern or "\\B" in pattern) and any(u in LETTERS_NONASCII for u in subj):
        t.append("wb-nonascii")
    if QUANT_GROUP.search(pattern):
        t.append("quantgroup")
    if has_empty and eng.startswith("re2"):
        t.append("re2-empty")
    if has_empty:
        t.append("split-empty")
    if "u" in fl and not is_ascii_subject(subj) and "(?<" in pattern and eng.startswith("re2"):
        t.append("names-nil")
    return t

TAG_OPS = {
    "gy-empty": "MFR", "nonglobal-u": "FR", "re2-empty": "MFRP", "wb-nonascii": "ETMASFRP", "quantgroup": "ETMASFRP",
    "names-nil": "EMAFR", "split-empty": "P",
}
MIXED_ONLY = {"re2-empty", "wb-nonascii", "quantgroup", "names-nil"}     # need two engines to be involved
TAG_PRIORITY = ["names-nil", "wb-nonascii", "gy-empty", "nonglobal-u", "quantgroup", "split-empty", "re2-empty"]


def signature_for(cmpkind, op, tags, mixed):
    for t in TAG_PRIORITY:
        if t in tags and op[0] in TAG_OPS[t] and (mixed or t not in MIXED_ONLY):
            return "%s:%s" % (cmpkind, t)
    return "%s:%s:untagged" % (cmpkind, op[0])


def clean_case(rng, case):
    """Most cases are generated outside the circumstances of the known divergences, so that a disagreement
    there can never be attributed to one of them."""
    p = case["pattern"]
    p = re.sub(r"\)([*+?]|\{\d+(,\d*)?\})\??", ")", p)                 # no quantified groups
    case["pattern"] = p
    if "\\b" in p or "\\B" in p:
        rep = {0xE9: 0x20AC, 0xC9: 0x20AC, 0x436: ord("-")}
        subj = [rep.get(u, u) for u in case["subject"]]
        subj = [0xD83D if u == 0xD835 else (0xDE00 if u == 0xDCB3 else u) for u in subj]
        case["subject"] = subj
    if "g" in case["flags"] and "y" in case["flags"]:
        case["flags"] = case["flags"].replace(rng.choice("gy"), "")
    case["clean"] = True
    return case


CORPUS_CASES = [
    # (pattern, flags, subject string, starts, limit, template)  — regression seeds, always run first
    ("(?<na1>.)", "u", "\U0001F600b", [0, 1], 2, "[$&]"),                 # groups object missing (re2, u, start 0)
    ("a", "u", "\U0001F600a\U0001F600a", [0], 2, "x"),                    # non-global replace must replace once
    ("a*", "gy", "baa", [0], 2, "x"),                                      # sticky + global + empty match
    ("a*", "g", "baaac", [0, 2], 3, "[$&]"),                               # empty match next to a match
    ("\\b", "", "éa", [0, 1], 2, "|"),                                # word boundary next to a non-ASCII letter
    ("(a*)*", "", "b", [0], 2, "$1"),                                      # empty iteration of a quantified group
    (".", "uy", "\U0001F600", [0, 1, 2], 2, "x"),                          # start position splits a pair
    ("$", "y", "A\U0001F600", [0, 1, 3], 2, "x"),
    ("\\uD83D", "", "\U0001F600", [0, 1], 2, "x"), ("\\uD83D", "u", "\U0001F600", [0, 1], 2, "x"),
    ("^.", "gm", "a\nb", [0, 2], 5, "x"), ("[^a]", "gi", "aAbB", [0], 5, "$`"),
]


def corpus_cases():
    out = []
    for i, (p, fl, s, starts, lim, tmpl) in enumerate(CORPUS_CASES):
        out.append({"id": "c%d" % i, "pattern": p, "flags": fl, "subject": units_of(s), "starts": starts, "limit": lim,
                    "template": tmpl, "modes": ",".join(GEN_MODES), "features": ["corpus"], "ngroups": 0})
    return out


def load_corpus_files():
    d = os.path.join(os.path.dirname(os.path.dirname(os.path.abspath(__file__))), "corpus", "C20")
    small, cases = [], []
    if os.path.isdir(d):
        for fn in sorted(os.listdir(d)):
            p = os.path.join(d, fn)
            if fn.endswith(".ops"):
                small += [l.strip() for l in open(p) if l.strip() and not l.startswith("#")]
            elif fn.endswith(".json"):
                for c in json.load(open(p)).get("cases", []):
                    c = dict(c)
                    if isinstance(c.get("subject"), str):
                        c["subject"] = units_of(c["subject"])
                    c.setdefault("modes", ",".join(GEN_MODES))
                    c.setdefault("features", ["corpus"])
                    cases.append(c)
    return small, cases


def run_small(ctx, h, model, ops):
    """posmap / utf8map / flags / adv: mechanism model (Lean) and python oracle vs the real functions."""
    impl = run_sharded([h], ops, 4, 120, 20)
    mod = run_sharded([model], ops, 2, 120, 20) if model else [None] * len(ops)
    n_bad = 0
    for op, a, m in zip(ops, impl, mod):
        ctx.count(1)
        kind = op.split()[0]
        a_cmp = a
        js = None
        if a is not None and kind == "flags":
            a_cmp, _, js = a.partition(" js=")
        oracle = None
        f = op.split()
        if kind == "posmap":
            us = [int(f[1][i:i + 4], 16) for i in range(0, len(f[1]), 4)] if f[1] != "-" else []
            if int(f[2]) <= len(us):
                oracle = py_posmap(us, int(f[2]))
        elif kind == "flags":
            fl = "".join(chr(int(f[1][i:i + 4], 16)) for i in range(0, len(f[1]), 4)) if f[1] != "-" else ""
            oracle = py_flags(fl)
        expected = m if m is not None else oracle
        ctx.stats.setdefault("small_ops", {}).setdefault(kind, 0)
        ctx.stats["small_ops"][kind] += 1
        if kind in ("posmap", "utf8map") and a and ("sp=1" in a or "ok=0" in a or "x" in a.split("get=")[-1]):
            ctx.nontriv(op)
        elif kind == "flags":
            ctx.nontriv(op)
        problems = []
        if a is None:
            problems.append("implementation timed out / crashed")
        elif a.startswith("PANIC"):
            problems.append("implementation panicked: " + a)
        else:
            if expected is not None and a_cmp != expected:
                problems.append("model/oracle expects %r, implementation gives %r" % (expected, a_cmp))
            if oracle is not None and m is not None and m != oracle:
                problems.append("model %r != python oracle %r" % (m, oracle))
            if kind == "flags" and js is not None:
                okm = a_cmp.startswith("flags ok=1")
                if okm != js.startswith("ok:") or (not okm and js != "SyntaxError"):
                    problems.append("constructor outcome %r inconsistent with compileRegexp %r" % (js, a_cmp))
                if expected is not None and expected.startswith("flags ok=0") and js != "SyntaxError":
                    problems.append("invalid flags accepted by the RegExp constructor: " + js)
        if problems:
            n_bad += 1
            ctx.violation("small:%s:%s" % (kind, op.split()[1] if kind == "flags" else "mismatch"),
                          "%s: %s" % (op, "; ".join(problems)),
                          {"kind": "input", "ops": [op], "expected": expected, "observed": a, "problems": problems})
    return n_bad


def run_rx(ctx, h, model, cases, nproc=16):
    lines, meta = [], []
    for c in cases:
        for vid, p in variants(c["pattern"]):
            lines.append(rx_line(c, vid, p))
            meta.append((c, vid, p))
    t0 = time.time()
    outs = run_sharded([h], lines, nproc, 400, 30)
    ctx.stats["rx_harness_s"] = round(ctx.stats.get("rx_harness_s", 0) + time.time() - t0, 1)
    parsed = [parse_rx(o) for o in outs]
    # model predictions
    pred_lines, pred_idx = [], []
    for i, (d, (c, vid, p)) in enumerate(zip(parsed, meta)):
        if "tbl" in d:
            pred_lines.append("pred %s %s %s %d %s" % (c["flags"] or "-", hx(c["subject"]), ",".join(map(str, c["starts"])),
                                                      c["limit"], d["tbl"].replace(" ", "")))
            pred_idx.append(i)
    preds = {}
    if model and pred_lines:
        po = run_sharded([model], pred_lines, 4, 300, 30)
        for i, o in zip(pred_idx, po):
            if o is not None:
                preds[i] = parse_dump(o)
    st = ctx.stats.setdefault("rx", {"cases": 0, "lines": 0, "engines": {}, "syntax_errors": 0, "timeouts": 0, "flags": {},
                                     "features": {}, "subject_kinds": {}, "modes": {}, "ops_compared": 0, "split_pair_starts": 0,
                                     "clean_cases": 0, "tags": {}})
    found = {}

    def report(sig, summary, c, vid, p, detail):
        if sig in found:
            return
        found[sig] = True
        ctx.violation(sig, summary, {"kind": "input", "case": {k: c[k] for k in ("pattern", "flags", "subject", "starts", "limit", "template")},
                                     "variant": vid, "pattern_run": p, "line": rx_line(c, vid, p), "detail": detail})

    for ci in range(0, len(lines), 4):
        c = meta[ci][0]
        ds = parsed[ci:ci + 4]
        st["cases"] += 1
        st["lines"] += 4
        ctx.count(4)
        st["flags"][c["flags"] or "-"] = st["flags"].get(c["flags"] or "-", 0) + 1
        for ftr in c.get("features", []):
            st["features"][ftr] = st["features"].get(ftr, 0) + 1
        subj = c["subject"]
        sk = ("empty" if not subj else "ascii" if is_ascii_subject(subj) else
              "lone-surrogate" if len(py_decode(subj)) + sum(1 for r, s in py_decode(subj) if s == 2) == len(subj) and any(0xD800 <= r <= 0xDFFF for r, _ in py_decode(subj))
              else "astral" if any(s == 2 for _, s in py_decode(subj)) else "bmp")
        st["subject_kinds"][sk] = st["subject_kinds"].get(sk, 0) + 1
        if c.get("clean"):
            st["clean_cases"] += 1
        errs = [d["eng"].startswith("ERR") for d in ds]
        if any(d["eng"] == "ERR:PANIC" for d in ds):
            k0 = [i for i, d in enumerate(ds) if d["eng"] == "ERR:PANIC"][0]
            report("rx:go-panic-in-engine-glue", "Go panic while matching /%s/%s on %s: %s" % (meta[ci + k0][2], c["flags"], hx(subj), ds[k0].get("panic")),
                   c, meta[ci + k0][1], meta[ci + k0][2], {"panic": ds[k0].get("panic")})
            continue
        if any(d["eng"] == "ERR:TIMEOUT" for d in ds):
            st["timeouts"] += 1
            report("rx:timeout-or-crash", "harness timed out or crashed on %r /%s/" % (c["pattern"], c["flags"]), c, "?", c["pattern"], {})
            continue
        if any(errs):
            st["syntax_errors"] += 1
            if not all(errs) or any(d["eng"] != "ERR:SyntaxError" for d in ds):
                report("engine:syntax-acceptance", "variants disagree on validity of %r: %s" % (c["pattern"], [d["eng"] for d in ds]),
                       c, "base", c["pattern"], {"eng": [d["eng"] for d in ds]})
            continue
        ctx.nontriv([c["pattern"], c["flags"], c["subject"]])
        if len(ctx.samples) < 8:
            ctx.sample({"pattern": c["pattern"], "flags": c["flags"], "subject": hx(subj), "starts": c["starts"], "engines": [d["eng"] for d in ds]})
        base_rows = rows_of(ds[0]["tbl"])
        for k, (d, (cc, vid, p)) in enumerate(zip(ds, meta[ci:ci + 4])):
            eng = d["eng"]
            st["engines"][eng] = st["engines"].get(eng, 0) + 1
            rows = rows_of(d["tbl"])
            mixed = eng.startswith("re2")
            tags = tags_for(c, p, eng, rows)
            for t in tags:
                st["tags"][t] = st["tags"].get(t, 0) + 1
            # which path did each mode take?
            if not d.get("std", "1").startswith("1") or "1" in d.get("std", "1")[1:]:
                report("guard:path-selection", "checkStdRegexp gave %s for modes fast+%s" % (d.get("std"), c["modes"]), c, vid, p, {"std": d.get("std")})
            dumps = {k2[2:]: parse_dump(v) for k2, v in d.items() if k2.startswith("D:")}
            for mname in dumps:
                st["modes"][mname] = st["modes"].get(mname, 0) + 1
            bad_dump = [m for m, dd in dumps.items() if any(v.startswith("PANIC") or v.startswith("DUMPERR") for v in dd) or
                        any(k3.startswith("PANIC") or k3.startswith("DUMPERR") for k3 in dd)]
            if bad_dump:
                beyond = any(s0 > len(subj) for s0 in c["starts"])
                only_replace = all(v.startswith("PANIC") <= (op[0] in "FR") for m in bad_dump for op, v in dumps[m].items())
                psig = "rx:panic"
                if "y" in c["flags"] and "g" not in c["flags"] and beyond and only_replace and bad_dump == ["fast"] or \
                        ("y" in c["flags"] and "g" not in c["flags"] and beyond and only_replace):
                    psig = "rx:panic:replace-sticky-lastindex-beyond-length"
                report(psig, "Go panic / dump error escaped in mode %s for /%s/%s" % (bad_dump, p, c["flags"]), c, vid, p,
                       {m: d["D:" + m][:300] for m in bad_dump})
                continue
            # hypotheses of the protocol theorems on this finder table
            bpos = None
            if "u" in c["flags"]:                       # unicode mode: only code point boundaries are candidate positions
                bpos, cur0 = {0}, 0
                for _, sz0 in py_decode(subj):
                    cur0 += sz0
                    bpos.add(cur0)
            wf = wf_problems(rows, len(subj), bpos)
            if wf:
                report(signature_for("wf", "E", tags, mixed), "finder table of /%s/%s on %s is not leftmost-consistent: %s" % (p, c["flags"], hx(subj), wf[:3]),
                       c, vid, p, {"tbl": d["tbl"], "problems": wf})
            # u-mode: every reported index must be a boundary of the lenient decoding (PosMap theorem posmap_correct)
            if "u" in c["flags"]:
                bset, cur = {0}, 0
                for _, sz in py_decode(subj):
                    cur += sz
                    bset.add(cur)
                for r in rows:
                    if r is not None and any(x >= 0 and x not in bset for x in r[0]):
                        report("posmap:index-not-on-boundary", "/%s/%s on %s reports index off a code point boundary: %s" % (p, c["flags"], hx(subj), r[0]),
                               c, vid, p, {"tbl": d["tbl"]})
                st["split_pair_starts"] += sum(1 for s0 in c["starts"] if s0 <= len(subj) and s0 not in bset)
            # spec-level model vs every mode (R has no model: compared mode against mode below)
            pred = preds.get(ci + k)
            fast = dumps.get("fast", {})
            for mname, dd in dumps.items():
                kind = "spec-fast" if mname == "fast" else "spec-generic"
                for op, v in dd.items():
                    if op[0] == "R":
                        if mname != "fast" and fast.get(op) != v:
                            report(signature_for("fast-generic", op, tags, mixed),
                                   "replace with template: fast path %s, generic (%s) %s for /%s/%s on %s" % (fast.get(op), mname, v, p, c["flags"], hx(subj)),
                                   c, vid, p, {"op": op, "fast": fast.get(op), mname: v})
                        continue
                    st["ops_compared"] += 1
                    if pred is not None:
                        if pred.get(op) != v:
                            report(signature_for(kind, op, tags, mixed),
                                   "%s of /%s/%s on %s: model(spec) %s, implementation[%s] %s" % (op, p, c["flags"], hx(subj), pred.get(op), mname, v),
                                   c, vid, p, {"op": op, "model": pred.get(op), "impl": v, "mode": mname, "tbl": d["tbl"]})
                    elif mname != "fast" and fast.get(op) != v:        # no model available: mode against mode
                        report(signature_for("fast-generic", op, tags, mixed),
                               "%s: fast path %s, generic (%s) %s for /%s/%s on %s" % (op, fast.get(op), mname, v, p, c["flags"], hx(subj)),
                               c, vid, p, {"op": op, "fast": fast.get(op), mname: v})
            # engine vs engine: the neutral variant must give the same table and the same dumps
            if k > 0:
                etags = sorted(set(tags) | set(tags_for(c, meta[ci][2], ds[0]["eng"], base_rows)))
                if [r and r[0] for r in rows] != [r and r[0] for r in base_rows] or \
                        [r and norm_names(r[1]) for r in rows] != [r and norm_names(r[1]) for r in base_rows]:
                    if [r and r[0] for r in rows] == [r and r[0] for r in base_rows]:
                        sig = signature_for("engine", "E", [t for t in etags if t == "names-nil"], True)
                    else:
                        sig = signature_for("engine", "E", etags, True)
                    report(sig, "engines disagree on /%s/%s on %s: %s(%s) %s vs %s(%s) %s" % (
                        c["pattern"], c["flags"], hx(subj), ds[0]["eng"], "base", ds[0]["tbl"], eng, vid, d["tbl"]), c, vid, p,
                        {"base_tbl": ds[0]["tbl"], "variant_tbl": d["tbl"]})
                bd = {k2[2:]: parse_dump(v) for k2, v in ds[0].items() if k2.startswith("D:")}
                for mname in dumps:
                    for op, v in dumps[mname].items():
                        if bd.get(mname, {}).get(op) != v:
                            report(signature_for("engine", op, etags, True),
                                   "%s[%s] differs between engines for /%s/%s on %s: %s gives %s, %s (%s) gives %s" % (
                                       op, mname, c["pattern"], c["flags"], hx(subj), ds[0]["eng"], bd.get(mname, {}).get(op), eng, vid, v),
                                   c, vid, p, {"op": op, "mode": mname, "base": bd.get(mname, {}).get(op), "variant": v})
                            break
    return len(found)


def run_syntax(ctx, h):
    """invalid patterns / flags must raise SyntaxError whatever the engine; valid ones must not."""
    lines, expect = [], []
    for p in BAD_PATTERNS:
        for fl in ("", "g", "i", "y", "gim"):
            lines.append("syn %s %s" % (hx_str(p), hx_str(fl)))
            expect.append("syn SyntaxError")
    for p in BAD_U_PATTERNS:
        lines.append("syn %s %s" % (hx_str(p), hx_str("u")))
        expect.append("syn SyntaxError")
    for p in ["a", "(?:)", "[]", "[^]", "a{2}", "\\u{1F600}", "(?<n>a)\\k<n>", "(?=a)", "a|b", "^$", "\\-", "{", "a{", "}", "]"]:
        lines.append("syn %s %s" % (hx_str(p), hx_str("")))
        expect.append("syn ok")
    outs = run_sharded([h], lines, 2, 120, 20)
    ctx.stats["syntax_probes"] = len(lines)
    for l, o, e in zip(lines, outs, expect):
        ctx.count(1)
        ok = o is not None and (o == e or (e == "syn ok" and o.startswith("syn ok")))
        if not ok:
            ctx.violation("syntax:%s" % l.split()[1], "%s: expected %s, got %s" % (l, e, o), {"kind": "input", "ops": [l], "expected": e, "observed": o})


def main(ctx):
    regen_ok = ctx.regen()
    lean_ok, errs = ctx.lake_build(["GojaModel.C20.Props", "GojaModel.C20.Tie", "model_c20"])
    ctx.audit("GojaModel.C20.Props", expect_min=14)
    ctx.audit("GojaModel.C20.Tie", expect_min=2)
    if ctx.tier == "thorough":
        ctx.leanchecker("GojaModel.C20.Props")
    ctx.log("lean done; building harness")
    h = None
    for attempt in range(4):
        h = ctx.go_build()
        if h is not None:
            break
        # harness/go.sum is shared with concurrently running checks and is rewritten (non-atomically) by each of them:
        # a "verifying module" failure is transient.  Forget the failed attempt and retry.
        last = ctx.obligations[-1] if ctx.obligations else None
        if attempt < 3 and last is not None and last["name"].startswith("tie.harness.build") and "verifying module" in last["detail"]:
            ctx.obligations.pop()
            ctx.broken = [b for b in ctx.broken if not b[0].startswith("tie.harness.build")]
            time.sleep(3 + 2 * attempt)
        else:
            break
    model = ctx.model_exe()
    if not lean_ok:
        rc, _, _ = sh(["lake", "build", "model_c20"], cwd=LEAN, timeout=1500)
        if rc != 0 or not os.path.exists(model):
            model = None
    elif not os.path.exists(model):
        model = None
    if h is None:
        return ctx.finish(level="proof", rule="harness did not build")
    thorough = ctx.tier == "thorough"
    rng = ctx.rng

    # ---- small ops: corpus, exhaustive flag strings, generated posmap/utf8map/adv
    corp_small, corp_cases = load_corpus_files()
    flag_ops = ["flags " + hx_str(s) for s in exhaustive_flag_strings()] + ["flags " + hx_str(s) for s in gen_flag_strings(rng, 200 if thorough else 40)]
    small = corp_small + flag_ops + gen_small_ops(rng, 4000 if thorough else 500)
    ctx.log("small ops: %d" % len(small))
    n_bad = run_small(ctx, h, model, small)
    ctx.log("small ops done, %d bad" % n_bad)
    ctx.obligation("corr:posmap-flags-advance (model = implementation, flags exhaustive up to length 3)", "correspondence", n_bad == 0, "%d disagreements" % n_bad)
    run_syntax(ctx, h)

    # ---- rx: corpus first, then generated (70 % outside the circumstances of the known divergences)
    n_cases = 500 if thorough else 70
    cases = corpus_cases() + corp_cases
    for i in range(n_cases):
        c = gen_case(rng, i)
        if rng.random() < 0.7:
            c = clean_case(rng, c)
        cases.append(c)
    ctx.log("rx cases: %d" % len(cases))
    run_rx(ctx, h, model, cases)
    ctx.log("rx done")
    unknown = len(ctx.violations)
    ctx.obligation("corr:rx spec-model = generic path = fast path; engine = engine (outside known findings)", "correspondence",
                   unknown == 0, "%d unknown disagreement signatures" % unknown)
    rx = ctx.stats.get("rx", {})
    both = any(k.startswith("re2") for k in rx.get("engines", {})) and "regexp2" in rx.get("engines", {})
    ctx.obligation("corr:both engines and both paths exercised", "correspondence", both and len(rx.get("modes", {})) >= 4,
                   json.dumps({"engines": rx.get("engines"), "modes": rx.get("modes")}))
    if model is None:
        ctx.obligation("model-driver-available", "theorem", False, "model_c20 could not be built; python oracles and mode-vs-mode comparison were used instead")
    ctx.assumptions += [
        "the two regex engines (Go regexp, regexp2) are opaque: theorems quantify over every finder satisfying `Leftmost`; the check validates `Leftmost` on every table it sees",
        "sort.SearchInts / sort.Search return the first index satisfying the predicate on ascending input (ascending-ness of posMap is proved)",
        "JS-level dumps observe strings, not capture indices; capture indices are observed through the VerifC20Find hook",
    ]
    ctx.trusted_base += [
        "harness/cmd/c20/dump.js (structural dump) and its mirror in lean/GojaModel/C20/Driver.lean",
        "/repo/verif_hooks_c20.go accessors (thin wrappers around buildPosMap, posMapReverseLookup, buildUTF8PosMap, positionMap.get, compileRegexp, findSubmatchIndex, findAllSubmatchIndex, checkStdRegexp)",
        "classification tags of run/c20.py (a disagreement is attributed to a known finding only inside that finding's circumstances)",
    ]
    return ctx.finish(
        level="proof",
        rule=("small ops: every flags string over gimsuy up to length 3 + duplicate-free longer ones + random (exhaustive for length<=3), random "
              "subjects (ASCII/BMP/astral/lone surrogates) x start positions incl. pair-splitting ones for posmap/utf8map/advance. rx: generated pattern x "
              "4 variants (base + 3 engine-forcing neutral rewrites) x flag subset x subject x start positions x fast + de-optimised modes; a case is "
              "distinct by (pattern, flags, subject); non-trivial = compiled by every variant"),
        explanation=("Lean theorems (PosMap translation, flag parser, exec/lastIndex protocol, fast search/match = generic) about a mechanism model; "
                     "flag loop regenerated from builtin_regexp.go and proved equal to the model (Tie); differential correspondence model vs goja "
                     "and engine vs engine / fast vs generic. The regex engines are modelled as opaque finders, not verified."))


def replay(ctx, path):
    r = json.load(open(path))
    h = ctx.go_build()
    model = ctx.model_exe() if os.path.exists(ctx.model_exe()) else None
    if r.get("kind") == "broken-obligation":
        print(json.dumps(r, indent=1))
        return 1
    lines = r.get("ops") or [r.get("line")]
    for l in lines:
        print("op      :", l)
        out = run_sharded([h], [l], 1, 60, 60)[0]
        print("impl    :", (out or "TIMEOUT").replace("\t", "\n          "))
        if model and not l.startswith("rx") and not l.startswith("syn"):
            print("model   :", run_sharded([model], [l], 1, 60, 60)[0])
        elif model and l.startswith("rx") and out:
            d = parse_rx(out)
            c = r["case"]
            if "tbl" in d:
                pl = "pred %s %s %s %d %s" % (c["flags"] or "-", hx(c["subject"]), ",".join(map(str, c["starts"])), c["limit"], d["tbl"])
                print("model   :", run_sharded([model], [pl], 1, 60, 60)[0])
    print("expected/observed recorded in the replay file:", json.dumps({k: r.get(k) for k in ("summary", "expected", "observed", "detail")}, default=str)[:1500])
    return 1
