"""
C17 — typed arrays / DataViews never touch memory outside their buffer; bytes match spec.

Run order (BUILDERS.md): regenerate the index/range decision functions from /repo (extract/c17.go) →
lake build Props + Tie + driver → audit → build the Go harness against the working tree → correspondence:
corpus first, exhaustive constructor / DataView grids, then seeded random op sequences (≤ 25 ops over 1-3
canary-guarded buffers of 0..64 bytes) — harness and Lean model consume the same lines, outputs are diffed.
Independently of the model the harness flags canary damage, writes after Detach, broken Go-side aliasing and
escaping Go panics, so the implementation-side search still works when the Lean build is broken.
"""
import os, re, json, struct, random, hashlib, concurrent.futures
from vlib import *

KINDS = ["u8", "u8c", "i8", "u16", "i16", "u32", "i32", "f32", "f64", "bi64", "bu64"]
ES = {"u8": 1, "u8c": 1, "i8": 1, "u16": 2, "i16": 2, "u32": 4, "i32": 4, "f32": 4, "f64": 8, "bi64": 8, "bu64": 8}
DVKINDS = [k for k in KINDS if k != "u8c"]
OTHER = ["every", "some", "find", "findIndex", "findLast", "findLastIndex", "forEach", "map", "filter", "toSorted",
         "reduce", "reduceRight", "indexOf", "lastIndexOf", "includes", "at", "join", "with", "toReversed",
         "toString", "toLocaleString", "keys", "values", "entries", "iterate", "export"]
PROPS_MIN = 64


def f64(x):
    return "x%016x" % struct.unpack("<Q", struct.pack("<d", x))[0]


# element values from the boundary classes (C05 list + typed-array specific rounding / wrap-around points)
BOUNDARY_F = [0.0, -0.0, float("nan"), float("inf"), float("-inf"), 1.0, -1.0, 0.5, -0.5, 1.5, 2.5, 254.5, 255.5, 255.0,
              256.0, 127.0, 128.0, -128.0, -129.0, 32767.0, 32768.0, -32769.0, 65535.0, 65536.0, 2.0 ** 31, 2.0 ** 31 - 1,
              -2.0 ** 31, -2.0 ** 31 - 1, 2.0 ** 32, 2.0 ** 32 + 1, 2.0 ** 32 - 1, -2.0 ** 32 + 1, 2.0 ** 53, 2.0 ** 53 + 2,
              -2.0 ** 53, 2.0 ** 62, -2.0 ** 63, 3.4028234663852886e38, 3.4028235677973366e38,
              3.5e38, 1e-40, 1.401298464324817e-45, 7e-46, 7.1e-46, 1e-46, 5e-324, 1.1754943508222875e-38,
              16777217.0, 16777219.0, 0.1, 1 / 3.0, 4294967295.5, 0.49999999999999994, 1.4999999999999998]
# |x| >= 2^63 (ToIntN is modular there): drawn rarely, because a reproduced known finding ends the useful part of a case
HUGE_F = [2.0 ** 63, 2.0 ** 63 + 2048, 2.0 ** 64, 2.0 ** 64 + 4096, -(2.0 ** 64 + 4096), 2.0 ** 68 + 2.0 ** 16, 1e21, 1e40, -1e40, 1e308,
          -(2.0 ** 63) - 2048]
BOUNDARY_B = [0, 1, -1, 255, 256, 2 ** 31, 2 ** 32 + 1, 2 ** 63 - 1, 2 ** 63, -2 ** 63, -2 ** 63 - 1, 2 ** 64 - 1, 2 ** 64,
              2 ** 64 + 5, -(2 ** 64) - 7, 10 ** 30]
BOUNDARY_I = [0, 1, -1, 2, -2, 2 ** 31, -2 ** 31, 2 ** 32, 2 ** 32 + 1, -2 ** 32, 2 ** 53 - 1, -(2 ** 53 - 1), 2 ** 53]


class Gen:
    """Generates one case (list of op lines) while keeping a light shadow of ids; a wrong prediction only
    produces a BAD-OP line on both sides."""

    def __init__(self, rng, max_ops=25, adversary=0.18):
        self.r = rng
        self.max_ops = max_ops
        self.adv = adversary
        self.lines = ["N"]
        self.bufs = []   # {"n": len, "det": bool}
        self.views = []  # {"k","b","off","len"}  (elements)
        self.dvs = []    # {"b","off","len"}

    # ---- args
    def dets(self, force=False):
        if not self.bufs or (not force and self.r.random() > self.adv):
            return []
        n = 1 if self.r.random() < 0.8 else 2
        return sorted({self.r.randrange(len(self.bufs)) for _ in range(n)})

    def apply(self, dets):
        for d in dets:
            self.bufs[d]["det"] = True

    def bang(self, tok, dets):
        return tok + ("!" + ",".join(map(str, dets)) if dets else "")

    def iarg(self, length, optional=True):
        """returns (token, int value or None, dets)"""
        r = self.r
        if optional and r.random() < 0.25:
            return "_", None, []
        c = r.random()
        if c < 0.62:
            v = r.randint(-length - 2, length + 2)
        elif c < 0.75:
            v = r.choice([0, length, length - 1, length + 1, -length, -length - 1, 1, -1])
        elif c < 0.92:
            v = r.choice(BOUNDARY_I) * r.choice([1, -1])
        else:
            tok = r.choice(["inf", "-inf", "nan"])
            d = self.dets()
            return self.bang(tok, d), {"inf": 2 ** 63 - 1, "-inf": -2 ** 63, "nan": 0}[tok], d
        d = self.dets()
        return self.bang(str(v), d), v, d

    def varg(self, kind, dets_ok=True):
        r = self.r
        big = kind in ("bi64", "bu64")
        if r.random() < 0.06:
            big = not big  # wrong numeric type → TypeError path
        if big:
            v = r.choice(BOUNDARY_B) if r.random() < 0.6 else r.getrandbits(r.choice([8, 32, 64, 70])) * r.choice([1, -1])
            tok = "b%d" % v
        else:
            c = r.random()
            if c < 0.012:
                tok = f64(r.choice(HUGE_F))
            elif c < 0.55:
                tok = f64(r.choice(BOUNDARY_F))
            elif c < 0.75:
                tok = f64(float(r.randint(-70000, 70000)) + r.choice([0, 0, 0.5, 0.25, -0.5]))
            elif c < 0.9:
                bits = r.getrandbits(64)
                if (bits >> 52) & 0x7FF >= 1023 + 63 and r.random() < 0.97:
                    # mostly keep |x| < 2^63 (see HUGE_F): redraw the exponent
                    bits = (bits & ~(0x7FF << 52)) | (r.randint(1023 - 30, 1023 + 62) << 52)
                if (bits >> 52) & 0x7FF == 0x7FF and bits & ((1 << 52) - 1):
                    bits = 0x7FF8000000000001  # every NaN reaching goja as a Value is its _NaN
                tok = "x%016x" % bits
            else:
                tok = f64(float(r.randint(-2 ** 40, 2 ** 40)))
            if tok[1:] in ("7ff8000000000000", "fff8000000000000"):
                tok = "x7ff8000000000001"
        d = self.dets() if dets_ok else []
        return self.bang(tok, d), d

    @staticmethod
    def rel(v, l):
        if v is None:
            return None
        return min(v, l) if v >= 0 else max(l + v, 0)

    # ---- ops
    def add_buf(self, n=None):
        r = self.r
        if n is None:
            n = r.choice([0, 1, 2, 3, 4, 7, 8, 9, 15, 16, 17, 24, 31, 32, 33, 48, 63, 64, r.randint(0, 64), r.randint(0, 64)])
        c = r.random()
        if c < 0.4:
            data = bytes(range(1, n + 1))
        elif c < 0.8:
            data = bytes(r.getrandbits(8) for _ in range(n))
        else:
            data = bytes(r.choice([0, 0xFF, 0x7F, 0x80]) for _ in range(n))
        self.lines.append("B " + (data.hex() or "-"))
        self.bufs.append({"n": n, "det": False})

    def add_view(self, valid=0.85):
        r = self.r
        b = r.randrange(len(self.bufs))
        n = self.bufs[b]["n"]
        k = r.choice(KINDS)
        es = ES[k]
        if r.random() < valid:
            maxel = n // es
            off = r.randint(0, maxel)
            ln = r.randint(0, maxel - off)
            if r.random() < 0.2 and n % es == 0:
                otok, ltok = (str(off * es) if off or r.random() < 0.5 else "_"), "_"
                ln = maxel - off
            else:
                otok, ltok = str(off * es), str(ln)
            d1, d2 = (self.dets() if otok != "_" else []), (self.dets() if ltok != "_" else [])
            d0 = self.dets() if r.random() < 0.3 else None
            if d0 is None and r.random() < 0.2:
                # a user subclass of the typed array constructor (species = the subclass)
                self.lines.append("V %s %d %s %s ^s" % (k, b, self.bang(otok, d1), self.bang(ltok, d2)))
            else:
                self.lines.append("V %s %d %s %s" % (k, b, self.bang(otok, d1), self.bang(ltok, d2)) + ("" if d0 is None else " ^" + ",".join(map(str, d0))))
            self.apply((d0 or []) + d1 + d2)
            if not self.bufs[b]["det"]:
                self.views.append({"k": k, "b": b, "off": off, "len": ln})
        else:
            o, ov, d1 = self.iarg(n, optional=True)
            l, lv, d2 = self.iarg(n // es, optional=True)
            self.lines.append("V %s %d %s %s" % (k, b, o, l))
            self.apply(d1 + d2)
            ov = ov or 0
            ok = not self.bufs[b]["det"] and 0 <= ov < 2 ** 53 and ov % es == 0
            if ok and lv is not None:
                ok = 0 <= lv < 2 ** 53 and ov + lv * es <= n
                ln = lv
            elif ok:
                ok = n % es == 0 and ov <= n
                ln = (n - ov) // es
            if ok:
                self.views.append({"k": k, "b": b, "off": ov // es, "len": ln})

    def add_dv(self, valid=0.85):
        r = self.r
        b = r.randrange(len(self.bufs))
        n = self.bufs[b]["n"]
        if r.random() < valid:
            off = r.randint(0, n)
            ln = r.randint(0, n - off)
            if r.random() < 0.2:
                otok, ltok, ln = (str(off) if off or r.random() < 0.5 else "_"), "_", n - off
            else:
                otok, ltok = str(off), str(ln)
            d1, d2 = (self.dets() if otok != "_" else []), (self.dets() if ltok != "_" else [])
            d0 = self.dets() if r.random() < 0.3 else None
            self.lines.append("D %d %s %s" % (b, self.bang(otok, d1), self.bang(ltok, d2)) + ("" if d0 is None else " ^" + ",".join(map(str, d0))))
            self.apply(d1 + d2 + (d0 or []))
            if not self.bufs[b]["det"]:
                self.dvs.append({"b": b, "off": off, "len": ln})
        else:
            o, ov, d1 = self.iarg(n)
            l, lv, d2 = self.iarg(n)
            self.lines.append("D %d %s %s" % (b, o, l))
            self.apply(d1 + d2)
            ov = ov or 0
            ok = not self.bufs[b]["det"] and 0 <= ov < 2 ** 53 and ov <= n
            if ok and lv is not None:
                ok = 0 <= lv < 2 ** 53 and ov + lv <= n
            ln = lv if lv is not None else n - ov
            if ok:
                self.dvs.append({"b": b, "off": ov, "len": ln})

    def hexstr(self, L):
        """a hex string around 2·L characters: exact, shorter, longer, odd, with an invalid character, upper case"""
        r = self.r
        n = max(0, 2 * L + r.choice([0, 0, 0, -2, 2, 4, -4, 1, -1, 6]))
        t = "".join(r.choice("0123456789abcdef") for _ in range(n))
        c = r.random()
        if c < 0.15 and n > 0:
            i = r.randrange(n)
            t = t[:i] + r.choice("gzGxX-._") + t[i + 1:]
        elif c < 0.3:
            t = t.upper()
        return t or "-"

    def pick_view(self):
        return self.r.randrange(len(self.views))

    def species(self, kind):
        r = self.r
        if r.random() < 0.7 or not self.views:
            return "_", None, []
        same = [i for i, v in enumerate(self.views) if v["k"] == kind]
        di = r.choice(same) if same and r.random() < 0.7 else r.randrange(len(self.views))
        d = self.dets()
        return self.bang(str(di), d), di, d

    def op(self):
        r = self.r
        choices = ["g", "p", "f", "c", "s", "a", "l", "u", "o", "r", "m", "X", "V", "D", "R", "T", "w", "t", "M", "O", "A", "Q", "k", "e", "J", "hex"]
        weights = [6, 8, 10, 12, 10, 7, 10, 7, 5, 3, 5, 1, 4, 3, 2, 3, 4, 4, 8, 8, 3, 9, 4, 5, 3, 6]
        if self.dvs:
            choices += ["G", "S"]
            weights += [8, 10]
        if not self.views:
            return self.add_view()
        o = r.choices(choices, weights)[0]
        if o == "V":
            return self.add_view(valid=0.6)
        if o == "D":
            return self.add_dv(valid=0.6)
        if o == "X":
            b = r.randrange(len(self.bufs))
            self.lines.append("X %d" % b)
            self.bufs[b]["det"] = True
            return
        if o == "hex":
            # Uint8Array hex methods; prefer Uint8Array receivers, sometimes another kind (TypeError)
            u8 = [i for i, w in enumerate(self.views) if w["k"] == "u8"]
            vi = r.choice(u8) if u8 and r.random() < 0.85 else self.pick_view()
            L = self.views[vi]["len"]
            c = r.random()
            if c < 0.25:
                self.lines.append("h %d" % vi)
            elif c < 0.85:
                self.lines.append("H %d %s" % (vi, self.hexstr(L)))
            else:
                t = self.hexstr(r.randint(0, 6))
                self.lines.append("x %s" % t)
                if t == "-" or (len(t) % 2 == 0 and all(ch in "0123456789abcdefABCDEF" for ch in t)):
                    n = 0 if t == "-" else len(t) // 2
                    self.bufs.append({"n": n, "det": False})
                    self.views.append({"k": "u8", "b": len(self.bufs) - 1, "off": 0, "len": n})
            return
        if o == "A":
            b = r.randrange(len(self.bufs))
            n = self.bufs[b]["n"]
            a, av, d1 = self.iarg(n)
            e, ev, d2 = self.iarg(n)
            l0 = 0 if self.bufs[b]["det"] else n
            if r.random() < 0.35:
                # user species constructor returning an existing buffer (possibly the receiver itself, too small, detached)
                nb = r.randrange(len(self.bufs))
                d3 = self.dets()
                self.lines.append("A %d %s %s %s" % (b, a, e, self.bang(str(nb), d3)))
                self.apply(d1 + d2 + d3)
                return
            self.lines.append("A %d %s %s" % (b, a, e))
            self.apply(d1 + d2)
            st = self.rel(av if av is not None else 0, l0)
            en = self.rel(ev if ev is not None else l0, l0)
            cnt = max(en - st, 0)
            if cnt == 0 or not self.bufs[b]["det"]:
                self.bufs.append({"n": cnt, "det": False})
            return
        if o == "O":
            mode = r.choice(["of", "of", "from", "fromMap"])
            if r.random() < 0.45 or not self.views:
                k = r.choice(KINDS)
                n = r.randint(0, 6)
                toks, ds = [], []
                for _ in range(n):
                    vt, d = self.varg(k)
                    toks.append(vt)
                    ds += d
                self.lines.append(("O %s %s %s" % (mode, k, " ".join(toks))).rstrip())
                self.apply(ds)
                bad = any(t.startswith("b") != (k in ("bi64", "bu64")) for t in toks)
                if not bad:
                    self.bufs.append({"n": n * ES[k], "det": False})
                    self.views.append({"k": k, "b": len(self.bufs) - 1, "off": 0, "len": n})
            else:
                di = self.pick_view()
                w = self.views[di]
                n = r.randint(0, min(w["len"], 6)) if r.random() < 0.9 else w["len"] + 1
                d0 = self.dets()
                toks, ds = [], []
                for _ in range(n):
                    vt, d = self.varg(w["k"])
                    toks.append(vt)
                    ds += d
                self.lines.append(("O %s %s %s" % (mode, self.bang(str(di), d0), " ".join(toks))).rstrip())
                self.apply(d0)
                okc = not self.bufs[w["b"]]["det"] and w["len"] >= n
                if okc:
                    self.apply(ds)
                    if not any(t.startswith("b") != (w["k"] in ("bi64", "bu64")) for t in toks):
                        self.views.append(dict(w))
            return
        if o in ("G", "S"):
            di = r.randrange(len(self.dvs))
            d = self.dvs[di]
            k = r.choice(DVKINDS)
            c = r.random()
            if c < 0.7:
                idx = r.randint(0, max(0, d["len"] - ES[k]))
            elif c < 0.9:
                idx = r.choice([d["len"] - ES[k] + 1, d["len"], d["len"] + 1, -1, d["len"] - ES[k]])
            else:
                idx = r.choice(BOUNDARY_I)
            dt = self.dets()
            itok = self.bang(str(idx), dt)
            le = r.choice("01")
            if o == "G":
                self.lines.append("G %d %s %s %s" % (di, k, itok, le))
                self.apply(dt)
            else:
                vt, d2 = self.varg(k)
                self.lines.append("S %d %s %s %s %s" % (di, k, itok, vt, le))
                self.apply(dt + d2)
            return
        vi = self.pick_view()
        v = self.views[vi]
        L = v["len"]
        if o == "g":
            self.lines.append("g %d %d" % (vi, r.choice([r.randint(-1, L + 1), r.randint(0, max(0, L - 1)), L, -1])))
        elif o == "p":
            vt, d = self.varg(v["k"])
            self.lines.append("p %d %d %s" % (vi, r.choice([r.randint(0, max(0, L - 1)), r.randint(-1, L + 1), L]), vt))
            self.apply(d)
        elif o == "f":
            vt, d0 = self.varg(v["k"])
            a, _, d1 = self.iarg(L)
            b, _, d2 = self.iarg(L)
            self.lines.append("f %d %s %s %s" % (vi, vt, a, b))
            self.apply(d0 + d1 + d2)
        elif o == "c":
            a, _, d1 = self.iarg(L, optional=False)
            b, _, d2 = self.iarg(L, optional=False)
            c, _, d3 = self.iarg(L)
            self.lines.append("c %d %s %s %s" % (vi, a, b, c))
            self.apply(d1 + d2 + d3)
        elif o == "s":
            # prefer sources that fit and sources sharing the buffer (overlap)
            cands = [i for i, w in enumerate(self.views) if w["len"] <= L]
            shared = [i for i in cands if self.views[i]["b"] == v["b"]]
            si = r.choice(shared) if shared and r.random() < 0.6 else (r.choice(cands) if cands and r.random() < 0.85 else self.pick_view())
            sl = self.views[si]["len"]
            if r.random() < 0.75:
                off = r.randint(0, max(0, L - sl))
                d = self.dets()
                otok = self.bang(str(off), d) if off or r.random() < 0.5 else "_"
                if otok == "_":
                    d = []
            else:
                otok, _, d = self.iarg(L)
            self.lines.append("s %d %d %s" % (vi, si, otok))
            self.apply(d)
        elif o == "a":
            n = r.randint(0, min(L, 6)) if r.random() < 0.85 else r.randint(0, L + 2)
            off = r.randint(0, max(0, L - n))
            d0 = self.dets()
            vals, ds = [], []
            for _ in range(n):
                vt, d = self.varg(v["k"])
                vals.append(vt)
                ds += d
            self.lines.append(("a %d %s %s" % (vi, self.bang(str(off), d0), " ".join(vals))).rstrip())
            self.apply(d0 + ds)
        elif o in ("l", "u"):
            a, av, d1 = self.iarg(L)
            b, bv, d2 = self.iarg(L)
            sp, di, d3 = self.species(v["k"])
            self.lines.append("%s %d %s %s %s" % (o, vi, a, b, sp))
            pre_det = self.bufs[v["b"]]["det"]
            self.apply(d1 + d2 + d3)
            st = self.rel(av if av is not None else 0, L)
            en = self.rel(bv if bv is not None else L, L)
            cnt = max(en - st, 0)
            if o == "l":
                if pre_det:
                    return
                if di is None:
                    if cnt > 0 and self.bufs[v["b"]]["det"]:
                        return
                    self.bufs.append({"n": cnt * ES[v["k"]], "det": False})
                    self.views.append({"k": v["k"], "b": len(self.bufs) - 1, "off": 0, "len": cnt})
                else:
                    w = self.views[di]
                    if self.bufs[w["b"]]["det"] or w["len"] < cnt or (cnt > 0 and self.bufs[v["b"]]["det"]):
                        return
                    if (w["k"] in ("bi64", "bu64")) != (v["k"] in ("bi64", "bu64")) and cnt > 0:
                        return
                    self.views.append(dict(w))
            else:
                if di is None:
                    if not self.bufs[v["b"]]["det"]:
                        self.views.append({"k": v["k"], "b": v["b"], "off": v["off"] + st, "len": cnt})
                else:
                    w = self.views[di]
                    if not self.bufs[w["b"]]["det"]:
                        self.views.append(dict(w))
        elif o == "Q":
            mode = r.choice(["lastIndexOf", "lastIndexOf", "indexOf", "includes"])
            big = v["k"] in ("bi64", "bu64")
            if big:
                tok = "b%d" % r.choice([0, 1, -1, 2, 255, 2 ** 63 - 1, -2 ** 63, r.randint(-300, 300)])
            else:
                c = r.random()
                tok = f64(float(r.randint(0, 12))) if c < 0.5 else (f64(float(r.choice([0, 255, 127, 128, -1, -128, 65535, 32767, 0.5, 1.5, -0.0]))) if c < 0.85 else f64(float(r.randint(-70000, 70000))))
                if tok == f64(-0.0):
                    tok = f64(0.0)
            c = r.random()
            if c < 0.2:
                fr, d = "_", []
            elif c < 0.75:
                fr = str(r.choice([L - 1, L, L + 1, -L - 1, -L, -1, 0, 1, r.randint(-L - 2, L + 2), 1000, 2 ** 31, 2 ** 53 - 1, -(2 ** 53 - 1)]))
                d = self.dets()
                fr = self.bang(fr, d)
            else:
                fr = r.choice(["inf", "-inf", "nan"])
                d = self.dets()
                fr = self.bang(fr, d)
            self.lines.append("Q %s %d %s %s" % (mode, vi, tok, fr))
            if not self.bufs[v["b"]]["det"] and L > 0:
                self.apply(d)
        elif o == "k":
            it, _, d = self.iarg(L, optional=False)
            self.lines.append("k %d %s" % (vi, it))
            if not self.bufs[v["b"]]["det"]:
                self.apply(d)
        elif o == "e":
            m = r.choice(VISIT)
            if L == 0 or r.random() < 0.5:
                self.lines.append("e %s %d _" % (m, vi))
            else:
                kk = r.randrange(L)
                d = self.dets(force=True)
                self.lines.append("e %s %d %s" % (m, vi, self.bang(str(kk), d) if d else "_"))
                if not self.bufs[v["b"]]["det"]:
                    self.apply(d)
        elif o == "J":
            m = r.choice(["join", "join", "toString", "toLocaleString"])
            d = self.dets() if m == "join" else []
            self.lines.append("J %s %d %s" % (m, vi, ",".join(map(str, d)) if d else "_"))
            if not self.bufs[v["b"]]["det"]:
                self.apply(d)
        elif o in ("R", "T", "w", "t", "M"):
            att0 = not self.bufs[v["b"]]["det"]
            fresh = None
            if o == "R":
                self.lines.append("R %d" % vi)
                fresh = L if att0 else None
            elif o == "T":
                if r.random() < 0.4:
                    self.lines.append("T %d _" % vi)
                else:
                    d = self.dets()
                    self.lines.append("T %d %s" % (vi, self.bang("r", d)))
                    if att0 and L >= 2:
                        self.apply(d)
                fresh = L if att0 else None
            elif o == "w":
                it, iv, d1 = self.iarg(L, optional=False)
                vt, d2 = self.varg(v["k"])
                self.lines.append("w %d %s %s" % (vi, it, vt))
                if att0:
                    self.apply(d1 + d2)
                    act = iv if iv >= 0 else L + iv
                    typ_ok = vt.startswith("b") == (v["k"] in ("bi64", "bu64"))
                    if typ_ok and not self.bufs[v["b"]]["det"] and 0 <= act < L:
                        fresh = L
            elif o == "t":
                bits = "".join(r.choice("01") for _ in range(L)) or "-"
                sp, di, d3 = self.species(v["k"])
                sptok = "" if sp == "_" else " " + sp
                if L > 0 and r.random() < 0.5:
                    k = r.randrange(L)
                    d = self.dets(force=True)
                    self.lines.append("t %d %s %s%s" % (vi, bits, self.bang(str(k), d) if d else "_", sptok))
                    if att0:
                        self.apply(d)
                else:
                    self.lines.append("t %d %s _%s" % (vi, bits, sptok))
                if di is None:
                    fresh = bits.count("1") if att0 else None
                elif att0:
                    self.apply(d3)
                    w = self.views[di]
                    cnt1 = bits.count("1")
                    mixed = (w["k"] in ("bi64", "bu64")) != (v["k"] in ("bi64", "bu64"))
                    if not self.bufs[w["b"]]["det"] and w["len"] >= cnt1 and not (mixed and cnt1 > 0):
                        self.views.append(dict(w))
            else:
                n = L if r.random() < 0.85 else max(0, L + r.choice([-1, 1]))
                n = min(n, 12)
                sp, di, d3 = self.species(v["k"])
                kind = self.views[di]["k"] if di is not None else v["k"]
                toks, ds = [], []
                for _ in range(n):
                    vt, d = self.varg(kind)
                    if d and r.random() < 0.5:
                        vt = vt.replace("!", "@")
                    toks.append(vt)
                    ds += d
                self.lines.append(("M %d %s %s" % (vi, sp, " ".join(toks))).rstrip())
                if att0:
                    self.apply(d3)
                    big = kind in ("bi64", "bu64")
                    typ_ok = all(t.startswith("b") == big for t in toks[:L]) and (n >= L or not big)
                    if di is None:
                        self.apply(ds)
                        fresh = L if typ_ok else None
                    else:
                        w = self.views[di]
                        if not self.bufs[w["b"]]["det"] and w["len"] >= L:
                            self.apply(ds)
                            if typ_ok:
                                self.views.append(dict(w))
            if fresh is not None:
                self.bufs.append({"n": fresh * ES[v["k"]], "det": False})
                self.views.append({"k": v["k"], "b": len(self.bufs) - 1, "off": 0, "len": fresh})
        elif o == "o":
            if r.random() < 0.5:
                self.lines.append("o %d _" % vi)
            else:
                d = self.dets()
                self.lines.append("o %d %s" % (vi, self.bang("r", d)))
                if L >= 2 and not self.bufs[v["b"]]["det"]:
                    self.apply(d)
        elif o == "r":
            self.lines.append("r %d" % vi)
        elif o == "m":
            name = r.choice(OTHER)
            d = self.dets(force=r.random() < 0.6)
            # model and harness agree on when the adversary runs (Driver.otherCond); python only shadows it
            need_att, min_len = {"toSorted": (True, 2), "at": (True, 0), "join": (True, 0), "with": (True, 0), "iterate": (True, 0),
                                 "toReversed": (False, 0), "keys": (False, 0), "values": (False, 0), "entries": (False, 0),
                                 "toString": (True, 10 ** 6), "toLocaleString": (True, 10 ** 6), "export": (True, 10 ** 6)}.get(name, (True, 1))
            runs = (not need_att or not self.bufs[v["b"]]["det"]) and L >= min_len
            self.lines.append("m %s %d %s" % (name, vi, ",".join(map(str, d)) if d else "_"))
            if runs:
                self.apply(d)

    def case(self):
        r = self.r
        for _ in range(r.choice([1, 1, 2, 2, 3])):
            self.add_buf()
        for _ in range(r.randint(1, 4)):
            self.add_view()
        if r.random() < 0.6:
            self.add_dv()
        while len(self.lines) - 1 < self.max_ops:
            self.op()
        return self.lines


def grid_ctor_cases(sizes):
    """every kind × every byteOffset (aligned and not) × every length up to one past the end, for each size;
    each successful view is filled so that its exact byte range becomes visible in the dump."""
    for n in sizes:
        for k in KINDS:
            es = ES[k]
            lines = ["N", "B " + (bytes(n).hex() or "-")]
            vid = 0
            for off in range(0, n + 2):
                maxl = (n - off) // es if off <= n else 0
                for ln in list(range(0, maxl + 2)) + [None]:
                    lines.append("V %s 0 %d %s" % (k, off, "_" if ln is None else str(ln)))
                    okk = off % es == 0 and ((ln is not None and off + ln * es <= n) or (ln is None and n % es == 0 and off <= n))
                    if okk:
                        val = "b%d" % (vid % 250 + 1) if k in ("bi64", "bu64") else f64(float(vid % 120 + 1))
                        lines.append("f %d %s _ _" % (vid, val))
                        vid += 1
            yield lines


def grid_dv_cases(sizes):
    """DataView at every (byteOffset, byteLength), every type, every index up to one past the end, both byte orders."""
    for n in sizes:
        for off in range(0, n + 2):
            for ln in list(range(0, max(0, n - off) + 2)) + [None]:
                lines = ["N", "B " + (bytes((7 * i + 3) & 0xFF for i in range(n)).hex() or "-"),
                         "D 0 %d %s" % (off, "_" if ln is None else str(ln))]
                bl = (n - off) if ln is None else ln
                if off > n or off + bl > n:
                    yield lines
                    continue
                for k in DVKINDS:
                    for idx in range(0, bl + 1):
                        if idx + ES[k] > bl + 1:
                            break
                        for le in "01":
                            lines.append("G 0 %s %d %s" % (k, idx, le))
                            val = "b%d" % (-(idx + 2) * 72340172838076673) if k in ("bi64", "bu64") else f64(-(idx + 1.0) * 258.0 - 0.5)
                            lines.append("S 0 %s %d %s %s" % (k, idx, val, le))
                yield lines


def codec_cases():
    """every boundary value through every kind (put + get + DataView both orders)."""
    for k in KINDS:
        big = k in ("bi64", "bu64")
        lines = ["N", "B " + bytes(16).hex(), "V %s 0 8 1" % k, "D 0 0 16"]
        vals = ["b%d" % v for v in BOUNDARY_B] if big else [f64(v) for v in BOUNDARY_F + HUGE_F]
        vals = ["x7ff8000000000001" if v in ("x7ff8000000000000",) else v for v in vals]
        for v in vals:
            lines.append("p 0 0 %s" % v)
            lines.append("g 0 0")
            if k != "u8c":
                lines.append("S 0 %s 0 %s 0" % (k, v))
                lines.append("G 0 %s 0 0" % k)
                lines.append("G 0 %s 8 1" % k)
        yield lines


GUARD = 32


def canary_byte(i):
    return (0xA5 ^ (i * 7)) & 0xFF


def decode_tok(kind, bs):
    """value token of the element stored in bytes `bs` (little-endian), or None for a NaN"""
    if kind in ("bi64", "bu64"):
        return "b%d" % int.from_bytes(bs, "little", signed=(kind == "bi64"))
    if kind == "f32":
        v = struct.unpack("<f", bs)[0]
    elif kind == "f64":
        v = struct.unpack("<d", bs)[0]
    else:
        v = float(int.from_bytes(bs, "little", signed=kind.startswith("i")))
    if v != v:
        return None
    return f64(v)


def search_cases():
    """Out-of-view READS made observable: for every kind, an inner view (neighbouring elements on both sides) and a
    view that covers the whole buffer (the canary bytes on both sides decode to the searched value); every search
    method with fromIndex / index from the boundary classes, searching the value stored just AFTER and just BEFORE
    the view and one value inside it; `at`, the visiting methods and join on the same views."""
    for k in KINDS:
        es = ES[k]
        n = 6 * es
        data = bytes((17 * i + 3) & 0xFF for i in range(n))
        lead = bytes(canary_byte(GUARD - es + j) for j in range(es))
        trail = bytes(canary_byte(j + 101) for j in range(es))
        views = [("V %s 0 %d 3" % (k, es), data[4 * es:5 * es], data[0:es], data[2 * es:3 * es], 3),     # inner view
                 ("V %s 0 0 _" % k, trail, lead, data[5 * es:6 * es], 6),                               # whole buffer
                 ("V %s 0 %d 2" % (k, 4 * es), trail, data[3 * es:4 * es], data[4 * es:5 * es], 2)]     # tail view
        for vline, after, before, inside, L in views:
            lines = ["N", "B " + data.hex(), vline]
            froms = ["_", str(L - 1), str(L), str(L + 1), "1000", str(2 ** 31), str(2 ** 53 - 1), "inf", "-inf", str(-L - 1), str(-L), "-1", "0", "nan",
                     str(L) + "!9", str(-1) + "!9"]
            for bs in (after, before, inside):
                tok = decode_tok(k, bs)
                if tok is None:
                    continue
                for mode in ("lastIndexOf", "indexOf", "includes"):
                    for fr in froms:
                        lines.append("Q %s 0 %s %s" % (mode, tok, fr))
            for idx in [str(L - 1), str(L), str(L + 1), str(-L), str(-L - 1), "-1", "0", "1000", "inf", "-inf", "nan"]:
                lines.append("k 0 %s" % idx)
            for m in VISIT:
                lines.append("e %s 0 _" % m)
            for m in ("join", "toString", "toLocaleString"):
                lines.append("J %s 0 _" % m)
            # a subarray and reads at its edges
            lines += ["u 0 1 -1 _", "g 1 -1", "g 1 %d" % max(L - 3, 0), "g 1 %d" % max(L - 2, 0), "Q lastIndexOf 1 %s %d" % (decode_tok(k, inside) or "x0000000000000000", max(L - 2, 0))]
            yield lines


def hex_cases():
    """toHex / setFromHex / fromHex on Uint8Array views (inner, tail, whole, empty) and on other kinds: string lengths
    2L-2 .. 2L+4, odd lengths, an invalid character at every position of a string of length 2L+2"""
    data = bytes((29 * i + 5) & 0xFF for i in range(8))
    for vline, L in (("V u8 0 2 4", 4), ("V u8 0 5 3", 3), ("V u8 0 0 _", 8), ("V u8 0 8 0", 0), ("V u8c 0 0 4", 4), ("V i8 0 0 4", 4), ("V u16 0 0 2", 2)):
        lines = ["N", "B " + data.hex(), vline, "h 0"]
        for n in sorted({max(0, 2 * L + d) for d in (-2, -1, 0, 1, 2, 3, 4)}):
            t = "".join("0123456789abcdef"[(7 * i + n) % 16] for i in range(n)) or "-"
            lines += ["H 0 %s" % t, "h 0"]
            if n:
                lines.append("H 0 %s" % t.upper())
        n = 2 * L + 2
        base = "".join("fedcba9876543210"[i % 16] for i in range(n))
        for i in range(n):
            lines += ["H 0 %s" % (base[:i] + "g" + base[i + 1:]), "h 0"]
        lines += ["x %s" % base, "x %s" % (base + "0"), "x %sZ%s" % (base[:3], base[4:]), "x -", "X 0", "h 0", "H 0 00"]
        yield lines


VISIT = ["every", "some", "find", "findIndex", "findLast", "findLastIndex", "forEach", "reduce", "reduceRight", "values", "entries"]

FLAG_RE = re.compile(r"\b(CANARY|POSTDETACH|ALIAS-VIEW|ALIAS|PROTOHIT)!(\d+)")


def classify(op_line, impl, model):
    """signature class of a mismatching line (impl = harness output, model = Lean driver output or None)."""
    op = op_line.split()
    opk = op[0] + (":" + op[1] if op[0] in ("m", "V", "O") else "") + (":" + op[2] if op[0] in ("G", "S") else "")
    if op[0] in ("Q", "e", "J"):
        opk += ":" + op[1]
    if op[0] == "O":
        opk += ":builtin-ctor" if op[2] in ES else ":user-ctor"
    if op[0] == "M":
        opk += ":default-species" if op[2] == "_" else ":user-species"
    m = FLAG_RE.search(impl or "")
    if m:
        return {"CANARY": "canary-hit", "POSTDETACH": "write-after-detach", "ALIAS": "alias-broken", "ALIAS-VIEW": "alias-broken", "PROTOHIT": "prototype-accessor-consulted"}[m.group(1)] + ":" + opk
    if impl is None:
        return "harness-died:" + opk
    if impl.startswith("PANIC"):
        msg = re.sub(r"\d+", "N", impl.split(" | ")[0][6:])[:80]
        return "go-panic:" + opk + ":" + msg
    if model is None:
        return None
    if "MODEL-TOUCH-OUT-OF-BOUNDS" in model:
        return "model-touch-out-of-bounds:" + opk
    if impl == model:
        return None
    ir, _, ib = impl.partition(" | ")
    mr, _, mb = model.partition(" | ")
    if ir != mr:
        return "result-mismatch:" + opk
    return "bytes-mismatch:" + opk


def split_cases(lines):
    cases, cur = [], None
    for l in lines:
        if l == "N":
            cur = ["N"]
            cases.append(cur)
        elif cur is not None:
            cur.append(l)
    return cases


class Runner:
    def __init__(self, ctx, harness, model):
        self.ctx, self.harness, self.model = ctx, harness, model

    def run(self, exe, lines, timeout=600):
        rc, out, err = self.ctx.run_lines([exe], lines, timeout=timeout)
        return rc, out, err

    def run_patient(self, exe, lines):
        """a timeout is not a verdict: retry once with a much longer limit, then give up as inconclusive"""
        rc, out, err = self.run(exe, lines, timeout=900)
        if rc == 124:
            rc, out, err = self.run(exe, lines, timeout=3600)
        return rc, out, err

    def both(self, lines):
        rc_h, out_h, err_h = self.run_patient(self.harness, lines)
        if rc_h == 124:
            # still no answer: inconclusive, never a violation (recorded in the evidence)
            self.ctx.stats["inconclusive_timeouts"] = self.ctx.stats.get("inconclusive_timeouts", 0) + 1
            ok_lines = ["ok |"] * len(lines)
            return list(ok_lines), (list(ok_lines) if self.model else None), False, err_h
        out_m = None
        if self.model:
            rc_m, out_m, err_m = self.run_patient(self.model, lines)
            if rc_m != 0 or len(out_m) != len(lines):
                out_m = (out_m + [None] * len(lines))[:len(lines)]
        died = rc_h != 0 or len(out_h) != len(lines)
        if died and out_h and len(out_h) < len(lines):
            out_h = out_h[:-1]          # the last line may be cut in the middle
        out_h = (out_h + [None] * len(lines))[:len(lines)]
        return out_h, out_m, died, err_h

    def first_bad(self, lines):
        """(index, class, impl, model) of the first mismatching line of a case, or None."""
        out_h, out_m, died, err_h = self.both(lines)
        self.last_out_h = out_h
        for i, l in enumerate(lines):
            if l == "N":
                continue
            c = classify(l, out_h[i], out_m[i] if out_m else None)
            if c:
                return i, c, out_h[i], (out_m[i] if out_m else None), err_h
        return None


def run_shards(ctx, runner, cases, nshards=16):
    """returns list of (case_lines, first_bad_index, class, impl, model) for failing cases; records stats."""
    shards = [[] for _ in range(nshards)]
    for i, c in enumerate(cases):
        shards[i % nshards].append(c)
    shards = [s for s in shards if s]
    failures = []
    stats = ctx.stats.setdefault("results", {})
    opmix = ctx.stats.setdefault("op_mix", {})

    def work(shard):
        lines = [l for c in shard for l in c]
        return shard, lines, runner.both(lines)

    with concurrent.futures.ThreadPoolExecutor(max_workers=len(shards)) as ex:
        for shard, lines, (out_h, out_m, died, err_h) in ex.map(work, shards):
            pos = 0
            for c in shard:
                bad = None
                for j, l in enumerate(c):
                    h = out_h[pos + j]
                    m = out_m[pos + j] if out_m else None
                    if l == "N":
                        continue
                    ctx.count(1)
                    key = l.split()[0]
                    opmix[key] = opmix.get(key, 0) + 1
                    rk = (h or "DIED").split(" | ")[0].split(":")[0].split(" ")[0]
                    stats[rk] = stats.get(rk, 0) + 1
                    if h and not h.startswith(("BAD-OP", "PARSE", "PANIC")):
                        ctx.nontriv(l + "#" + h)
                    if "!" in l or key == "m":
                        ctx.stats["adversarial_ops"] = ctx.stats.get("adversarial_ops", 0) + 1
                    cl = classify(l, h, m)
                    if cl and bad is None:
                        bad = (c, j, cl, h, m, err_h if h is None else "", out_h[pos:pos + len(c)])
                if bad:
                    failures.append(bad)
                pos += len(c)
    return failures


def shrink(ctx, runner, case, cls):
    body = case[1:]

    def fails(sub):
        fb = runner.first_bad(["N"] + sub)
        return fb is not None and fb[1] == cls

    if not fails(body):
        return case
    small = ctx.ddmin(body, fails)
    # drop adversary annotations one by one where they are irrelevant
    changed = True
    while changed:
        changed = False
        for i, l in enumerate(small):
            for tok in l.split():
                if "!" in tok:
                    cand = small[:i] + [l.replace(tok, tok.split("!")[0], 1)] + small[i + 1:]
                    if fails(cand):
                        small, changed = cand, True
                        break
    return ["N"] + small


def view_kinds(lines, outs):
    """element kind of every view id of a case, reconstructed from the implementation's own answers"""
    kinds = []
    for l, o in zip(lines, outs):
        w = l.split()
        if not o or not o.startswith("view "):
            continue
        if w[0] == "V":
            kinds.append(w[1])
        elif w[0] in ("R", "T", "w", "t"):
            try:
                kinds.append(kinds[int(w[4].split("!")[0])] if (w[0] == "t" and len(w) > 4 and w[4] != "_") else kinds[int(w[1])])
            except (IndexError, ValueError):
                kinds.append("?")
        elif w[0] == "x":
            kinds.append("u8")
        elif w[0] == "M":
            try:
                kinds.append(kinds[int(w[1])] if w[2] == "_" else kinds[int(w[2].split("!")[0])])
            except (IndexError, ValueError):
                kinds.append("?")
        elif w[0] == "O":
            try:
                kinds.append(w[2] if w[2] in ES else kinds[int(w[2].split("!")[0])])
            except (IndexError, ValueError):
                kinds.append("?")
        elif w[0] in ("l", "u"):
            try:
                src = kinds[int(w[1])]
                kinds.append(src if w[4] == "_" else kinds[int(w[4].split("!")[0])])
            except (IndexError, ValueError):
                kinds.append("?")
    return kinds


def value_class(tok):
    """coarse class of a value token, used to make codec signatures specific"""
    if not tok.startswith("x"):
        try:
            n = int(tok[1:].split("!")[0])
        except ValueError:
            return "bigint"
        return "bigint-wraps-negative" if (n % 2 ** 64) >= 2 ** 63 else "bigint-wraps-nonnegative"
    bits = int(tok[1:].split("!")[0], 16)
    f = struct.unpack("<d", struct.pack("<Q", bits))[0]
    if f != f:
        return "nan"
    a = abs(f)
    if a == float("inf"):
        return "inf"
    if a >= 2.0 ** 63:
        return "abs>=2^63"
    if a >= 2.0 ** 53:
        return "abs>=2^53"
    return "finite<2^53"


def signature(lines, i, cls, outs, mline=None):
    """canonical signature of a failing line: class + op (+ element kind and value class for codec mismatches)"""
    opw = lines[i].split()
    if cls.split(":")[0] == "result-mismatch" and outs and i < len(outs) and outs[i]:
        # which answer the implementation gave instead (error class / value / ok), without payload
        head = outs[i].split(" | ")[0]
        head = ":".join(head.split(":")[:2]) if head.startswith("E:") else head.split(":")[0].split(" ")[0]
        def hd(x):
            x = x.split(" | ")[0]
            return ":".join(x.split(":")[:2]) if x.startswith("E:") else x.split(":")[0].split(" ")[0]
        extra = ""
        if opw[0] == "Q":
            kinds = view_kinds(lines, outs)
            try:
                kind = kinds[int(opw[2])]
            except (IndexError, ValueError):
                kind = "?"
            vc = value_class(opw[3])
            if opw[3].startswith("x") and int(opw[3][1:], 16) % 2 ** 63 == 0:
                vc = "zero"
            if opw[3].startswith("b"):
                n = int(opw[3][1:])
                lo, hi = (-2 ** 63, 2 ** 63 - 1) if kind == "bi64" else (0, 2 ** 64 - 1)
                vc = "bigint-in-range" if lo <= n <= hi else "bigint-out-of-range"
            extra = ":%s:%s" % (kind, vc)
        return cls + extra + ":impl=" + head + (":spec=" + hd(mline) if mline else "")
    if cls.split(":")[0] == "bytes-mismatch" and opw[0] in ("p", "f", "S", "a"):
        if opw[0] == "S":
            kind, toks = opw[2], [opw[4]]
        else:
            toks = [opw[3]] if opw[0] == "p" else ([opw[2]] if opw[0] == "f" else opw[3:])
            kinds = view_kinds(lines, outs)
            try:
                kind = kinds[int(opw[1])]
            except (IndexError, ValueError):
                kind = "?"
        order = ["abs>=2^63", "bigint-wraps-negative", "bigint-wraps-nonnegative", "nan", "inf", "abs>=2^53", "finite<2^53"]
        vcs = sorted({value_class(t) for t in toks} or {"none"}, key=lambda c: order.index(c) if c in order else 99)
        vc = vcs[0]
        if vc.startswith("bigint"):
            return "codec-mismatch:%s:%s:%s" % (opw[0], kind, vc)
        return "codec-mismatch:%s:%s" % (kind, vc)
    return cls


def report(ctx, runner, failures, limit=8):
    """One representative per distinct signature.  A signature already listed as `known` is recorded without
    shrinking; anything else is shrunk (ddmin over op lines, then adversary annotations) and reported with a replay."""
    groups = {}
    for case, j, cls, h, m, err, outs in failures:
        sig0 = signature(case, j, cls, outs, m)
        groups.setdefault(sig0, (case, j, cls, h, m, err, outs))
    ctx.stats["failure_signatures"] = {k: sum(1 for f in failures if signature(f[0], f[1], f[2], f[6], f[4]) == k) for k in groups}
    unprocessed = 0
    shrunk = 0
    for sig0, (case, j, cls, h, m, err, outs) in sorted(groups.items()):
        trunc = case[:j + 1]
        if ctx.known_signature(sig0) is not None:
            ctx.violation(sig0, "%s at op `%s` (impl: %s ; spec model: %s)" % (cls, case[j], (h or "harness died")[:200], (m or "n/a")[:200]), {})
            continue
        if shrunk >= limit:      # only signatures that are NOT known count towards the shrinking budget
            unprocessed += 1
            continue
        shrunk += 1
        small = shrink(ctx, runner, trunc, cls)
        fb = runner.first_bad(small)
        if fb is None:
            small, fb = trunc, (j, cls, h, m, err)
            souts = outs
        else:
            souts = runner.last_out_h
        i, cls2, h2, m2, err2 = fb
        sig = signature(small, i, cls2, souts, m2)
        summary = "%s at op `%s` (impl: %s ; spec model: %s)" % (cls2, small[i], (h2 or "harness died: " + (err2 or "")[-300:])[:300], (m2 or "n/a")[:300])
        ctx.violation(sig, summary, {"kind": "history", "ops": small, "failing_line": i, "observed": h2, "expected": m2,
                                     "harness_stderr": (err2 or "")[-1500:], "original_case": case})
    return unprocessed


EXTRA_AUDIT = ["GojaModel.C17.Refine", "GojaModel.C17.Overlap", "GojaModel.C17.Sort", "GojaModel.C17.Float32", "GojaModel.C17.Bytes",
               "GojaModel.C17.HexProps", "GojaModel.C17.TieHex", "GojaModel.C17.SortPerm", "GojaModel.C17.SpeciesBytes", "GojaModel.C17.FilterBytes", "GojaModel.C17.FreshBytes", "GojaModel.C17.Witness"]
EXTRA_AUDIT_MIN = 180


def audit_extra(ctx):
    """axiom audit of the modules that hold the byte-level refinement theorems (one Lean process for all of them);
    same rule as ctx.audit: one obligation per theorem, axioms ⊆ {propext, Classical.choice, Quot.sound}"""
    d = os.path.join(BUILD, "audit")
    os.makedirs(d, exist_ok=True)
    f = os.path.join(d, "GojaModel_C17_extra.lean")
    with open(f, "w") as fh:
        fh.write("import GojaModel.Audit\n" + "".join("import %s\n" % m for m in EXTRA_AUDIT) + "".join("#audit_module %s\n" % m for m in EXTRA_AUDIT))
    ctx.checker_cmds.append("cd lean && lake env lean <audit:%s>" % ",".join(EXTRA_AUDIT))
    rc, out, err = sh(["lake", "env", "lean", f], cwd=LEAN, timeout=3600)
    n = 0
    for m in re.finditer(r"AUDIT (\S+) ::(.*)$", out, re.M):
        axs = set(m.group(2).split())
        bad = sorted(axs - ALLOWED_AXIOMS)
        n += 1
        ctx.obligation("thm:" + m.group(1), "theorem", not bad, ("axioms: " + " ".join(sorted(axs))) if not bad else ("forbidden axioms: " + " ".join(bad)))
    done = out.count("AUDIT-DONE")
    if rc != 0 or done != len(EXTRA_AUDIT):
        ctx.obligation("audit:C17-extra", "theorem", False, (out + err)[-1500:])
    elif n < EXTRA_AUDIT_MIN:
        ctx.obligation("audit:C17-extra", "theorem", False, "only %d theorems found, expected >= %d" % (n, EXTRA_AUDIT_MIN))


def main(ctx):
    quick = ctx.tier == "quick"
    import threading
    # the harness build does not depend on the Lean side: run it concurrently
    hres = {}
    th = threading.Thread(target=lambda: hres.setdefault("h", ctx.go_build()))
    th.start()
    regen_ok = ctx.regen()
    ok, errs = ctx.lake_build(["GojaModel.C17.Props", "GojaModel.C17.Tie", "GojaModel.C17.Bytes", "GojaModel.C17.HexProps", "GojaModel.C17.TieHex", "GojaModel.C17.SortPerm", "GojaModel.C17.Witness", "model_c17"])
    ctx.log("lake build done (ok=%s)" % ok)
    ta = []
    if ok:
        # the axiom audit (and leanchecker in the thorough tier) only reads the built .olean files: it runs
        # concurrently with the correspondence and is joined before the verdict
        ta = [threading.Thread(target=ctx.audit, args=("GojaModel.C17.Props",), kwargs={"expect_min": PROPS_MIN}),
              threading.Thread(target=ctx.audit, args=("GojaModel.C17.Tie",), kwargs={"expect_min": 18})]
        ta.append(threading.Thread(target=audit_extra, args=(ctx,)))
        if not quick:
            ta.append(threading.Thread(target=ctx.leanchecker, args=("GojaModel.C17.Props",)))
        for t in ta:
            t.start()
    model = ctx.model_exe() if os.path.exists(ctx.model_exe()) and ok else None
    if not ok:
        # the driver may still build even if a proof broke; try it alone so that the spec oracle stays available
        rc, o, e = sh(["lake", "build", "model_c17"], cwd=LEAN, timeout=1200)
        model = ctx.model_exe() if rc == 0 else None
    ctx.log("lean done (ok=%s)" % ok)
    th.join()
    harness = hres.get("h")
    if harness is None:
        for t in ta:
            t.join()
        return ctx.finish(level="proof", rule="harness did not build")
    runner = Runner(ctx, harness, model)
    ctx.log("harness built")

    # ---- cases: corpus first
    cases = []
    cdir = os.path.join(ROOT, "corpus", ctx.prop)
    ncorpus = 0
    if os.path.isdir(cdir):
        for fn in sorted(os.listdir(cdir)):
            if fn.endswith(".txt"):
                with open(os.path.join(cdir, fn)) as f:
                    ls = [l.strip() for l in f if l.strip() and not l.startswith("#")]
                cs = split_cases(ls)
                ncorpus += len(cs)
                cases += cs
    ctx.stats["corpus_cases"] = ncorpus
    # exhaustive grids
    sizes = [0, 1, 2, 3, 4, 7, 8, 9, 15, 16, 17, 24, 64] if quick else list(range(0, 65))
    dvsizes = [0, 1, 2, 7, 8, 9, 12] if quick else [0, 1, 2, 3, 4, 7, 8, 9, 12, 15, 16, 17, 20]
    g1 = list(grid_ctor_cases(sizes))
    g2 = list(grid_dv_cases(dvsizes))
    g3 = list(codec_cases())
    g4 = list(search_cases()) + list(hex_cases())
    ctx.stats["grid"] = {"ctor_cases": len(g1), "ctor_buffer_sizes": sizes, "dataview_cases": len(g2), "dataview_buffer_sizes": dvsizes,
                         "codec_cases": len(g3), "exhaustive": "constructors: every kind x every byteOffset 0..n+1 x every length 0..max+1 and absent; "
                         "DataView: every (byteOffset, byteLength) x 10 types x every index x both byte orders, for the listed buffer sizes"}
    ctx.stats["grid"]["search_cases"] = len(g4)
    cases += g1 + g2 + g3 + g4
    # random histories
    nrand = int(os.environ.get("C17_RANDOM", "0")) or (2500 if quick else 16000)
    for i in range(nrand):
        rng = random.Random((ctx.seed << 20) ^ i)
        cases.append(Gen(rng, max_ops=25, adversary=rng.choice([0.0, 0.1, 0.2, 0.35])).case())
    ctx.stats["random_cases"] = nrand
    ctx.stats["case_len_max_ops"] = 25

    ctx.log("generated %d cases" % len(cases))
    failures = run_shards(ctx, runner, cases)
    ctx.log("ran all cases: %d failing" % len(failures))
    for c in cases[ncorpus:ncorpus + 3] + cases[-3:]:
        ctx.sample(" ; ".join(c[:12]) + (" ; …" if len(c) > 12 else ""))

    if not quick:
        # same random histories under -d=checkptr (pointer arithmetic leaving the allocation is fatal there)
        hc = ctx.go_build(extra=["-gcflags=all=-d=checkptr"])
        if hc:
            hc2 = hc + "_checkptr"
            os.replace(hc, hc2)
            harness = ctx.go_build()      # restore the normal binary under its usual name
            r2 = Runner(ctx, hc2, model)
            sub = cases[:ncorpus] + cases[-4000:]
            f2 = run_shards(ctx, r2, sub)
            new2 = sorted({signature(f[0], f[1], f[2], f[6], f[4]) for f in f2 if ctx.known_signature(signature(f[0], f[1], f[2], f[6], f[4])) is None})
            ctx.obligation("corr:checkptr-run", "correspondence", not new2,
                           "%d cases under -gcflags=all=-d=checkptr, %d failing, not-known signatures: %s" % (len(sub), len(f2), new2))
            failures += f2
            runner = Runner(ctx, harness, model)

    for t in ta:
        t.join()
    ctx.log("audit joined")
    unprocessed = report(ctx, runner, failures) if failures else 0
    # the correspondence holds iff every disagreement is (after minimisation) one of the listed known findings
    agree = not ctx.violations and unprocessed == 0
    ctx.obligation("corr:typedmem-histories", "correspondence", agree and model is not None,
                   "%d cases, %d failing (%d distinct signatures: %s)%s" % (
                       len(cases), len(failures), len(ctx.stats.get("failure_signatures", {})),
                       ", ".join(sorted(ctx.stats.get("failure_signatures", {}))),
                       "" if model else " (model driver unavailable: harness-side checks only)"))
    ctx.log("reported")

    ctx.assumptions += [
        "little-endian platform (harness refuses to run otherwise); typed arrays use platform byte order",
        "NaN encoding: every NaN that passes through a goja Value is math.NaN() = 0x7ff8000000000001 (implementation-chosen per ECMA-262); f32 NaN = 0x7fc00000",
        "buffers are not resizable (goja has no resizable ArrayBuffer); a detached buffer never re-attaches",
        "index arguments are generated inside ±2^53 plus ±Infinity/NaN; ToInteger of other doubles is C05's concern",
    ]
    ctx.trusted_base += [
        "harness/cmd/c17: canary, post-detach snapshot and alias checks; mapping of exceptions to E:Type/E:Range",
        "hand transcription of ECMA-262 typed-array / DataView algorithms and NumericToRawBytes into lean/GojaModel/C17/Model.lean",
        "Go runtime, unsafe.Add, memmove (`copy`) — modelled, not verified; -d=checkptr instrumentation in the thorough tier",
    ]
    return ctx.finish(level="proof",
                      rule="one evaluation = one op line executed by harness and model; distinct non-trivial = distinct (op line, implementation "
                           "output incl. full buffer dump) pairs whose result is not BAD-OP/PARSE-ERROR/PANIC; cases = corpus + exhaustive grids + "
                           "seeded random histories (25 ops, 1-3 buffers of 0..64 bytes, adversarial valueOf/species/comparator detaches)")


def replay(ctx, path):
    with open(path) as f:
        rp = json.load(f)
    if rp.get("kind") == "broken-obligation":
        print(json.dumps(rp, indent=1))
        return 1
    lines = rp["ops"]
    harness = ctx.go_build()
    model = ctx.model_exe() if os.path.exists(ctx.model_exe()) else None
    runner = Runner(ctx, harness, model)
    out_h, out_m, died, err = runner.both(lines)
    bad = 0
    for i, l in enumerate(lines):
        h, m = out_h[i], (out_m[i] if out_m else None)
        c = classify(l, h, m) if l != "N" else None
        print("%-40s impl : %s" % (l, h))
        print("%-40s model: %s%s" % ("", m, ("   <== " + c) if c else ""))
        bad += 1 if c else 0
    if died:
        print("harness stderr:", err[-2000:])
    print("REPLAY %s: %d mismatching line(s)" % (ctx.prop, bad))
    return 1 if bad else 0
