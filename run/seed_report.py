#!/usr/bin/env python3
"""Run every seeded breaking change against its property's quick check (run/seedtest.py, scratch worktree)
and write seeded/RESULTS.md + seeded/results.json.  usage: run/seed_report.py [Cnn ...] | --merge
Rows are kept per property in seeded/results.d/Cnn.json so that lanes for different properties can run side by side;
--merge only rebuilds RESULTS.md / results.json from them."""
import json, os, subprocess, sys, glob, re, time
ROOT = os.path.dirname(os.path.dirname(os.path.abspath(__file__)))
merge_only = "--merge" in sys.argv[1:]
only = set(a.upper() for a in sys.argv[1:] if not a.startswith("--"))
rows = []
prev = {}
rj = os.path.join(ROOT, "seeded", "results.json")
rd = os.path.join(ROOT, "seeded", "results.d")
os.makedirs(rd, exist_ok=True)
if os.path.exists(rj):
    prev = {r["id"]: r for r in json.load(open(rj))}
for f in glob.glob(os.path.join(rd, "C*.json")):
    for r in json.load(open(f)):
        prev[r["id"]] = r
for d in sorted(glob.glob(os.path.join(ROOT, "seeded", "C*-m*"))):
    sid = os.path.basename(d); prop = sid.split("-")[0]
    if merge_only or (only and prop not in only):
        if sid in prev: rows.append(prev[sid])
        continue
    meta = json.load(open(os.path.join(d, "meta.json")))
    t0 = time.time()
    p = subprocess.run([sys.executable, os.path.join(ROOT, "run", "seedtest.py"), prop, d, "quick"], stdout=subprocess.PIPE, stderr=subprocess.STDOUT, text=True)
    m = re.search(r"^SEEDTEST (.*)$", p.stdout, re.M)
    res = json.loads(m.group(1)) if m else {"caught": False, "concrete_replay": False, "violation_lines": [], "exit": p.returncode}
    sigs = sorted(set(re.sub(r".*seed\d+_", "", l.split("replay=")[1].split()[0]).replace(".json", "") for l in res.get("violation_lines", []) if "replay=" in l))
    rows.append({"id": sid, "property": prop, "title": meta.get("title", ""), "caught": res["caught"], "concrete_replay": res["concrete_replay"],
                 "replay_signatures": sigs[:6], "wall_s": round(time.time() - t0, 1)})
    if not m:
        rows[-1]["setup_error"] = p.stdout.strip()[-300:]
        print(sid, "SETUP-ERROR", p.stdout.strip()[-300:].replace("\n", " | "), flush=True)
        continue
    print(sid, "caught" if res["caught"] else "MISSED", "concrete" if res["concrete_replay"] else "no-input", flush=True)
for prop in sorted(set(r["property"] for r in rows)):
    if merge_only or (only and prop not in only):
        continue
    json.dump([r for r in rows if r["property"] == prop], open(os.path.join(rd, prop + ".json"), "w"), indent=1)
rows.sort(key=lambda r: r["id"])
json.dump(rows, open(rj, "w"), indent=1)
with open(os.path.join(ROOT, "seeded", "RESULTS.md"), "w") as f:
    f.write("# Seeded breaking changes vs. checks\n\nEach change was produced by an independent engineer who saw only the property text, confirmed by\n`run/confirm_seed.py` (builds; repository suite passes; demonstration fails with / passes without the change) and run\nthrough `run/seedtest.py <Cnn> seeded/<id> quick` (scratch worktree of /repo HEAD + patch, `VERIF_REPO`).\n\n| seed | change | caught | concrete replay | replay signatures |\n|---|---|---|---|---|\n")
    for r in rows:
        f.write("| %s | %s | %s | %s | %s |\n" % (r["id"], r["title"].replace("|", "/")[:150], "yes" if r["caught"] else "**no**", "yes" if r["concrete_replay"] else "no", ", ".join(r["replay_signatures"])[:200]))
    n = len(rows); c = sum(1 for r in rows if r["caught"]); cc = sum(1 for r in rows if r["concrete_replay"])
    f.write("\n%d seeds, %d caught, %d with a concrete replay.\n" % (n, c, cc))
