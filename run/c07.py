#!/usr/bin/env python3
"""
C07 — arrays are spec arrays whatever the storage.   ./check C07 quick|thorough [--replay f]

Order: regenerate thresholds (extract/c07.go) -> lake build Props/Tie/driver -> audit -> go build
harness -> corpus -> op-sequence correspondence (model vs implementation, original + twins forced
through dense->sparse and sparse->dense switches) -> white-box Inv check -> Go-export fast path
-> sort sweep -> Array.prototype method sweep (metamorphic against a slow array-like).
"""
import json, os, random, subprocess, sys, time
from concurrent.futures import ThreadPoolExecutor
from vlib import *

IDX_SMALL = list(range(0, 21))
IDX_FAR = [4095, 4096, 4097, 65535, 65536, 2**31 - 1, 2**32 - 2]
LENS = [0, 1, 2, 3, 5, 8, 13, 20, 21, 4096, 4097, 65536, 2**31, 2**32 - 2, 2**32 - 1]
CMP_FIELDS = ("r", "len", "lw", "ext", "keys")
NEGZERO_SIG = "sort-comparator-negzero-treated-as-less"
MQUICK = 1400


# ----------------------------------------------------------------------------- generators
def gen_idx(rng):
    return rng.choice(IDX_SMALL) if rng.random() < 0.8 else rng.choice(IDX_FAR)


def gen_desc(rng):
    def fl(pt=0.33, pf=0.33):
        x = rng.random()
        return "T" if x < pt else ("F" if x < pt + pf else "-")
    if rng.random() < 0.22:
        g = rng.choice(["-", "u", "1", "2"])
        s = rng.choice(["-", "u", "1", "2"])
        if g == "-" and s == "-":
            g = "1"
        return "- - %s %s %s %s" % (fl(), fl(), g, s)
    v = str(rng.randint(0, 9)) if rng.random() < 0.6 else "-"
    return "%s %s %s %s - -" % (v, fl(), fl(), fl())


def gen_seq(rng, maxops=30, allow_fill=True):
    protos = {}
    ops = []
    if rng.random() < 0.35:
        for _ in range(rng.randint(1, 3)):
            i = rng.choice(IDX_SMALL)
            k = rng.choice(["dw", "dr", "as", "ag"])
            if i not in protos:
                protos[i] = k
                ops.append("PROTO %d %s" % (i, k))
    n = rng.randint(1, maxops)
    pa_of = {"dw": "n", "dr": "f", "as": "t", "ag": "f"}
    for _ in range(n):
        x = rng.random()
        if x < 0.30:
            i = gen_idx(rng)
            ops.append("S %d %d %s" % (i, rng.randint(1, 9), pa_of.get(protos.get(i), "n")))
        elif x < 0.55:
            ops.append("D %d %s" % (gen_idx(rng), gen_desc(rng)))
        elif x < 0.68:
            l = rng.choice(LENS) if rng.random() < 0.7 else gen_idx(rng) + rng.choice([0, 1])
            ops.append("L %d" % l)
        elif x < 0.80:
            ops.append("X %d" % gen_idx(rng))
        elif x < 0.90:
            v = "-" if rng.random() < 0.3 else str(rng.choice(LENS) if rng.random() < 0.5 else gen_idx(rng) + rng.choice([0, 1]))
            w = rng.choice(["-", "-", "T", "F"])
            e = rng.choice(["-", "-", "-", "F", "T"]) if rng.random() < 0.3 else "-"
            c = rng.choice(["-", "-", "-", "F", "T"]) if rng.random() < 0.3 else "-"
            acc = "1" if (rng.random() < 0.05 and v == "-" and w == "-") else "0"
            ops.append("DL %s %s %s %s %s" % (v, w, e, c, acc))
        elif x < 0.915:
            ops.append("POP")
        elif x < 0.93:
            ops.append("F")
        elif x < 0.96:
            ops.append("P")
        elif allow_fill and x < 0.975:
            ops.append("FILL 21 %d %d" % (rng.choice([5, 40, 1260]), rng.randint(1, 9)))
        else:
            i = rng.choice([4096, 4097, 65536])
            ops.append("S %d %d n" % (i, rng.randint(1, 9)))
    return ops


def safe_detour_positions(ops):
    """positions where the array is certainly still extensible with a writable length, so that a
    detour (far write, delete, restore length) is observationally neutral."""
    pos = []
    for k, op in enumerate(ops):
        w = op.split()
        if w[0] in ("F", "P") or (w[0] == "DL" and w[2] == "F"):
            break
        if w[0] != "PROTO":
            pos.append(k + 1)
    first = 0
    while first < len(ops) and ops[first].startswith("PROTO"):
        first += 1
    return [first] + pos


def twins(rng, ops):
    pos = safe_detour_positions(ops)
    first = pos[0]
    out = {"orig": list(ops)}
    out["ds0"] = ops[:first] + ["DS"] + ops[first:]
    k = rng.choice(pos)
    out["dsK"] = ops[:k] + ["DS"] + ops[k:]
    k2 = rng.choice(pos)
    if not any(o.startswith("FILL") for o in ops):      # the DD detour fills/deletes 100..1399: keep it disjoint from FILL
        out["dsdd0"] = ops[:first] + ["DS", "DD"] + ops[first:]
        out["ddK"] = ops[:k2] + ["DD"] + ops[k2:]
    return out


# ----------------------------------------------------------------------------- running
def fields(line):
    d = {}
    for part in line.split("|"):
        if "=" in part:
            k, v = part.split("=", 1)
            d[k] = v
    return d


INCONCLUSIVE = []


def run_sharded(ctx, exe, lines, shards=12, timeout=1500):
    """Feed lines to `shards` processes. A shard that dies or times out is retried line by line with
    a generous per-line timeout; a line that still times out is INCONCLUSIVE (recorded, not judged)."""
    if not lines:
        return []
    shards = max(1, min(shards, len(lines) // 20 + 1))
    chunks = [lines[i::shards] for i in range(shards)]

    def one(ch):
        rc, out, err = ctx.run_lines([exe], ch, timeout=timeout)
        if len(out) == len(ch):
            return out
        # keep what was answered, redo the rest one by one
        res = list(out)
        for l in ch[len(out):]:
            rc1, o1, e1 = ctx.run_lines([exe], [l], timeout=300)
            if o1:
                res.append(o1[0])
            elif rc1 == 124:
                INCONCLUSIVE.append(l[:300])
                res.append("TIMEOUT")
            else:
                res.append("ERR harness died rc=%s %s" % (rc1, e1[-300:].replace("\n", " ")))
        return res
    with ThreadPoolExecutor(max_workers=shards) as ex:
        outs = list(ex.map(one, chunks))
    res = [None] * len(lines)
    for s, o in enumerate(outs):
        for j, l in enumerate(o):
            # the harness' own per-case interrupt ("timeout") is a slow machine, not a verdict
            if l and l.startswith("ERR") and "timeout" in l:
                INCONCLUSIVE.append(lines[s + j * shards][:300])
                l = "TIMEOUT"
            res[s + j * shards] = l
    return res


def strip_detour(r):
    return r


def seq_line(ops):
    return "seq " + ";".join(ops)


class Env:
    pass


def check_seqs(ctx, env, named_seqs, label):
    """named_seqs: list of (name, {variant: ops}).  Returns list of problems (dicts)."""
    lines, index = [], []
    for name, variants in named_seqs:
        for vn, ops in variants.items():
            lines.append(seq_line(ops))
            index.append((name, vn))
    impl = run_sharded(ctx, env.harness, lines)
    model = run_sharded(ctx, env.model, lines, shards=12) if env.model else [None] * len(lines)
    inv_lines, inv_idx = [], []
    problems = []
    by_name = {}
    for k, (name, vn) in enumerate(index):
        fi = fields(impl[k]) if impl[k] else {}
        fm = fields(model[k]) if model[k] else None
        by_name.setdefault(name, {})[vn] = (fi, fm, lines[k], impl[k], model[k])
        ctx.count(1)
        if impl[k] == "TIMEOUT" or model[k] == "TIMEOUT":
            continue
        if not impl[k] or impl[k].startswith(("ERR", "PANIC", "BADOP")):
            problems.append({"kind": "impl-error", "name": name, "variant": vn, "line": lines[k], "impl": impl[k], "model": model[k]})
            continue
        env.stats["tags_final"][fi.get("tag", "?")] = env.stats["tags_final"].get(fi.get("tag", "?"), 0) + 1
        tg = fi.get("tags", "")
        if "ds" in tg:
            env.stats["transitions"]["dense->sparse"] += 1
        if "sd" in tg or "sD" in tg:
            env.stats["transitions"]["sparse->dense"] += 1
        if fi.get("std", "").startswith("true"):
            env.stats["std_fastpath_final"] += 1
        if fi.get("ts", "0") != "0":
            env.ts_hits.setdefault("delete-nonconfigurable-element-stringifies-array", lines[k])
        if fi.get("exp", "ok") not in ("ok", "skip"):
            problems.append({"kind": "export", "name": name, "variant": vn, "line": lines[k], "impl": impl[k], "model": model[k]})
        if "info" in fi:
            inv_lines.append("inv " + fi["info"])
            inv_idx.append(k)
        if fm is not None:
            if model[k].startswith("BADOP"):
                problems.append({"kind": "model-badop", "name": name, "variant": vn, "line": lines[k], "impl": impl[k], "model": model[k]})
                continue
            if any(fi.get(f) != fm.get(f) for f in CMP_FIELDS):
                problems.append({"kind": "corr", "name": name, "variant": vn, "line": lines[k], "impl": impl[k], "model": model[k]})
            elif fi.get("tag") != fm.get("tag") or fi.get("tags") != fm.get("tags"):
                env.tag_mismatch.append({"line": lines[k], "impl": fi.get("tags"), "model": fm.get("tags")})
            if fm.get("q", "-") != "-":
                env.quirks.setdefault(fm["q"], lines[k])
            ctx.nontriv("%s|%s|%s" % (fi.get("keys", "")[:200], fi.get("len"), fi.get("tags")))
    # white-box invariant on the implementation's counters, evaluated by the Lean model's `invSummaryOk`
    if inv_lines:
        if env.model:
            res = run_sharded(ctx, env.model, inv_lines, shards=4)
        else:
            res = [py_inv(l) for l in inv_lines]
        for j, r in enumerate(res):
            if r != "ok":
                k = inv_idx[j]
                problems.append({"kind": "inv", "name": index[k][0], "variant": index[k][1], "line": lines[k], "impl": impl[k], "model": r})
    # twin identity: every variant observationally identical to the original
    for name, vs in by_name.items():
        if "orig" not in vs:
            continue
        fo = vs["orig"][0]
        for vn, (fi, fm, line, il, ml) in vs.items():
            if vn == "orig" or not fi or not fo:
                continue
            if any(fi.get(f) != fo.get(f) for f in CMP_FIELDS):
                problems.append({"kind": "twin", "name": name, "variant": vn, "line": line, "impl": il, "model": vs["orig"][3], "orig_line": vs["orig"][2]})
    return problems


def py_inv(line):
    w = line.split()
    tag = w[1]
    length, n, oc, pvc, present, props = map(int, w[2:8])
    srt, mx, nil = w[8] == "T", int(w[9]), int(w[10])
    if tag == "dense":
        return "ok" if (n <= length and oc == present and props <= pvc) else "BAD"
    return "ok" if (srt and mx <= length and props <= pvc and nil == 0 and present == n) else "BAD"


# ----------------------------------------------------------------------------- failure handling
def run_one(ctx, exe, line):
    rc, out, err = ctx.run_lines([exe], [line], timeout=120)
    return out[0] if out else "ERR died"


def seq_fails(ctx, env, kind):
    def fails(ops):
        line = seq_line(ops)
        i = run_one(ctx, env.harness, line)
        if kind == "impl-error":
            return i.startswith(("ERR", "PANIC"))
        fi = fields(i)
        if kind == "export":
            return fi.get("exp", "ok") not in ("ok", "skip")
        if kind == "inv":
            return "info" in fi and (run_one(ctx, env.model, "inv " + fi["info"]) if env.model else py_inv("inv " + fi["info"])) != "ok"
        if kind == "corr" and env.model:
            fm = fields(run_one(ctx, env.model, line))
            return any(fi.get(f) != fm.get(f) for f in CMP_FIELDS)
        if kind == "twin":
            base = [o for o in ops if o not in ("DS", "DD")]
            if base == ops:
                return False
            fo = fields(run_one(ctx, env.harness, seq_line(base)))
            return any(fi.get(f) != fo.get(f) for f in CMP_FIELDS)
        return False
    return fails


def op_shape(ops):
    out = []
    for o in ops:
        w = o.split()
        if w[0] in ("S", "X", "L", "D"):
            try:
                v = int(w[1])
                cls = "far" if v > 20 else "near"
            except ValueError:
                cls = ""
            out.append(w[0] + cls)
        else:
            out.append(w[0])
    return ",".join(out)


def report_seq_problem(ctx, env, p):
    ops = [o for o in p["line"][4:].split(";") if o.strip()]
    kind = p["kind"]
    fails = seq_fails(ctx, env, kind)
    small = ops
    try:
        if fails(ops):
            small = ctx.ddmin(ops, fails)
    except Exception as e:  # shrinking is best-effort
        ctx.log("shrink failed:", e)
    line = seq_line(small)
    impl = run_one(ctx, env.harness, line)
    model = run_one(ctx, env.model, line) if env.model else None
    sig = "%s:%s" % (kind, op_shape(small))
    if kind in ("inv", "export") and "POP" in small:
        without = [o for o in small if o != "POP"]
        if not fails(without):
            sig = "pop-fastpath-objCount-not-decremented"
    what = {"corr": "implementation differs from the (spec-refining) model", "twin": "storage switch is observable: twin differs from original",
            "export": "Go export differs from the generic element read", "inv": "bookkeeping invariant broken (fast paths unsound)",
            "impl-error": "harness error / panic"}.get(kind, kind)
    rep = {"kind": "history", "ops": small, "line": line, "observed": impl, "expected": model, "what": what, "original_line": p["line"]}
    if kind == "twin":
        base = [o for o in small if o not in ("DS", "DD")]
        rep["expected"] = run_one(ctx, env.harness, seq_line(base))
        rep["expected_from"] = "same sequence without the storage detour: " + seq_line(base)
    if kind == "inv":
        # property-level consequence of a broken counter invariant: append the continuation that
        # the lemma predicts (truncate to 0 / export / indexOf through a hole)
        rep["note"] = "Inv violated: propValueCount < #descriptor elements makes `length=0` delete non-configurable elements; objCount != #present enables no-holes fast paths on arrays with holes"
    ctx.violation(sig, "%s: %s" % (what, line[:300]), rep)


# ----------------------------------------------------------------------------- sort sweep
def estr(e):
    return "%d.%d" % (e[0], e[1]) if isinstance(e, list) else e


def sort_collect(c):
    """SortIndexedProperties (ECMA-262 23.1.3.30.1): for sort() holes are skipped by HasProperty — which
    looks through the prototype chain; toSorted reads every index with Get. Returns the collected values in
    index order and the number of indices that contribute nothing (true holes)."""
    inherited = {}
    where = c.get("pwhere", "")
    if where and c["recv"] != "goslice" and not (where == "array" and c["recv"] == "arraylike"):
        for idx, e in c.get("pitems", []):
            inherited[idx] = e
    collected, holes = [], 0
    for i, e in enumerate(c["elems"]):
        if e != "n":
            collected.append(e)
        elif i in inherited:
            collected.append(inherited[i])
        else:
            holes += 1
    return collected, holes


def sort_oracle(c):
    """expected OWN-key layout after sort() / of the toSorted() result: stable sort of the collected values,
    undefined last, then (sort) the remaining indices deleted = not own, (toSorted) undefined."""
    collected, holes = sort_collect(c)
    cmp, method = c["cmp"], c["method"]
    vals = [e for e in collected if e != "u"]
    und = sum(1 for e in collected if e == "u")
    if cmp in ("asc", "str"):
        s = sorted(vals, key=lambda e: e[0])
    elif cmp == "desc-negate":
        s = sorted(vals, key=lambda e: -e[0])
    else:
        s = list(vals)          # undef: all objects stringify alike; negzero/nan/poszero: all equal
    out = [estr(e) for e in s]
    if method == "toSorted":
        return out + ["u"] * (und + holes)
    return out + ["u"] * und + ["n"] * holes


def gen_sort_cases(rng, n):
    cases = []
    for _ in range(n):
        recv = rng.choice(["dense", "dense", "sparse", "arraylike", "goslice"])
        method = rng.choice(["sort", "sort", "toSorted"])
        cmp = rng.choice(["asc", "asc", "desc-negate", "negzero", "nan", "poszero", "random", "str", "undef"])
        ln = rng.choice([0, 1, 2, 3, 5, 8, 12, 20, 21, 33, 60])
        keys = rng.choice([2, 3, 10])
        elems = []
        for t in range(ln):
            x = rng.random()
            if recv != "goslice" and x < 0.08:
                elems.append("n")
            elif x < 0.16:
                elems.append("u")
            else:
                elems.append([rng.randrange(keys), t])
        mut = ""
        if recv in ("dense", "sparse") and method == "sort" and cmp != "undef" and rng.random() < 0.2:
            mut = rng.choice(["shrink", "grow", "sparse", "throw"])
        case = {"recv": recv, "method": method, "cmp": cmp, "elems": elems, "mutate": mut, "seed": rng.randrange(1000)}
        # inherited indexed properties: Array.prototype / Object.prototype / a custom object on the chain
        if recv != "goslice" and not mut and ln > 0 and rng.random() < 0.4:
            for t in range(ln):                     # make sure there are holes for them to shine through
                if rng.random() < 0.25:
                    elems[t] = "n"
            holes = [t for t in range(ln) if elems[t] == "n"]
            idxs = set(rng.sample(holes, min(len(holes), rng.randint(1, 3)))) if holes else set()
            idxs.add(rng.randrange(ln + 2))         # also a non-hole / out-of-range index: must not matter
            case["pwhere"] = rng.choice(["array", "object", "custom"])
            case["pitems"] = [[i, ("u" if rng.random() < 0.15 else [rng.randrange(keys), 100 + i])] for i in sorted(idxs)]
        cases.append(case)
    return cases


def check_sort(ctx, env, cases):
    lines = ["sortx " + json.dumps(c, separators=(",", ":")) for c in cases]
    outs = run_sharded(ctx, env.harness, lines)
    agree = True
    for c, line, o in zip(cases, lines, outs):
        ctx.count(1)
        skey = c["cmp"] + ("+" + c["mutate"] if c["mutate"] else "") + ("+proto:" + c["pwhere"] if c.get("pwhere") else "")
        env.stats["sort_cases"][skey] = env.stats["sort_cases"].get(skey, 0) + 1
        rep = {"kind": "input", "case": c, "line": line, "observed": o}
        if o == "TIMEOUT":
            continue
        if o is None or o.startswith(("ERR", "PANIC", "BADOP")):
            ctx.violation("sort-crash:%s:%s:%s" % (c["recv"], c["cmp"], c["mutate"]), "sort crashed / escaped: %s" % (o or "")[:200], rep)
            agree = False
            continue
        err, same, res, after, calls, tag = (o.split("|") + [""] * 6)[:6]
        collected, nholes = sort_collect(c)
        inp = sorted([estr(e) for e in collected] + ["n"] * nholes)
        subject = res if c["method"] == "toSorted" else after
        got = subject.split(",") if subject else []
        if c["mutate"] == "throw":
            if err not in ("RangeError", "") :
                ctx.violation("sort-throw-wrong-error", "comparator exception not propagated as is: " + o[:200], rep)
            got_multiset = sorted(after.split(",")) if after else []
            if got_multiset != inp:
                ctx.violation("sort-throw-loses-elements", "array not a permutation of the input after a throwing comparator", rep)
            continue
        if err:
            ctx.violation("sort-unexpected-error:" + err, "sort threw " + err, rep)
            continue
        if c["mutate"]:
            continue                                   # arbitrary effects; only "no crash" is judged
        # no loss, no duplication — for ANY comparator (holes become undefined for toSorted)
        norm = lambda xs: sorted(("u" if (x == "n" and c["method"] == "toSorted") else x) for x in xs)
        if norm(got) != norm(inp):
            rep["expected_multiset"] = norm(inp)
            ctx.violation("sort-not-a-permutation:%s%s" % (c["cmp"], (":proto-" + c["pwhere"]) if c.get("pwhere") else ""),
                          "sort lost or duplicated elements (values reachable through HasProperty, inherited ones included): got %s" % ",".join(got)[:160], rep)
            continue
        if c["cmp"] == "random":
            continue
        want = sort_oracle(c)
        ctx.nontriv("sort|%s|%s|%s|%d|%s|%d" % (c["recv"], c["method"], c["cmp"], len(c["elems"]), c.get("pwhere", ""), len(c.get("pitems", []))))
        if got != want:
            rep["expected"] = ",".join(want)
            # is the deviation explained exactly by the mechanism model's reading of −0 as "less"?
            explained = False
            if c["cmp"] in ("desc-negate", "negzero") and env.model and len(c["elems"]) <= 12:
                enc = ",".join(estr(e) for e in collected)
                m = run_one(ctx, env.model, "sort mech %s %s" % (c["cmp"], enc)) if enc else ""
                mm = (m.split(",") if m else [])
                holes = nholes
                mm = mm + (["u"] * holes if c["method"] == "toSorted" else ["n"] * holes)
                explained = (mm == got)
            elif c["cmp"] in ("desc-negate", "negzero") and (not env.model or len(c["elems"]) > 12):
                # beyond the insertion-sort block (symMerge) the model does not predict the exact order:
                # accept only outputs that are sorted under the "−0 is less" reading
                explained = True
                if c["cmp"] == "desc-negate":
                    ks = [int(x.split(".")[0]) for x in got if x not in ("u", "n")]
                    explained = all(ks[i] >= ks[i + 1] for i in range(len(ks) - 1))
            if explained:
                ctx.violation(NEGZERO_SIG, "sort with a comparator returning -0 is not stable: %s -> %s (stable answer %s)" % (
                    json.dumps(c["elems"])[:120], ",".join(got)[:120], ",".join(want)[:120]), rep)
            else:
                agree = False
                sig = "sort-unstable-or-wrong-order:%s:%s" % (c["recv"], c["cmp"])
                if c.get("pwhere") and sorted(got) != sorted(want):
                    sig = "sort-inherited-indexed-property-lost-or-misplaced:%s:%s" % (c["recv"], c["pwhere"])
                ctx.violation(sig, "sort result (own-key layout %s) differs from SortIndexedProperties (HasProperty+Get, stable): want %s" % (",".join(got)[:120], ",".join(want)[:120]), rep)
    return agree and not any(v["signature"].startswith("sort-") for v in ctx.violations)


# ----------------------------------------------------------------------------- method sweep
METHODS = [
    ("indexOf", "99"), ("indexOf", "2"), ("indexOf", "undefined"), ("lastIndexOf", "99"), ("lastIndexOf", "2,-2"), ("includes", "99"), ("includes", "undefined"),
    ("includes", "NaN"), ("join", "'-'"), ("toString", ""), ("at", "-1"), ("at", "2"),
    ("slice", "1,4"), ("slice", "-3"), ("slice", ""), ("concat", "[7,8],9"), ("concat", "self"),
    ("every", "function(v,i){log.push(i);return v!==99}"), ("some", "function(v,i){log.push(i);return v===99}"),
    ("forEach", "function(v,i){log.push(i+':'+v)}"), ("map", "function(v,i){log.push(i);return v}"),
    ("filter", "function(v,i){log.push(i);return i%2==0}"), ("reduce", "function(a,v,i){log.push(i);return a+'/'+v},'s'"),
    ("reduceRight", "function(a,v,i){log.push(i);return a+'/'+v},'s'"), ("reduce", "function(a,v){return a}"),
    ("find", "function(v,i){log.push(i);return v===99}"), ("findIndex", "function(v,i){return v===undefined}"),
    ("findLast", "function(v,i){log.push(i);return v===99}"), ("findLastIndex", "function(v,i){return v===undefined}"),
    ("keys", ""), ("values", ""), ("entries", ""), ("flat", ""), ("flatMap", "function(v){return [v,v]}"),
    ("with", "1,77"), ("toReversed", ""), ("toSorted", ""), ("toSpliced", "1,1,55,56"), ("toSpliced", "0,0"),
    ("push", "5,6"), ("pop", ""), ("shift", ""), ("unshift", "5,6"), ("unshift", ""), ("reverse", ""),
    ("splice", "1,2"), ("splice", "1,0,8,9"), ("splice", "0"), ("splice", "-2,1,7"), ("fill", "7,1,3"), ("fill", "7"),
    ("copyWithin", "0,2"), ("copyWithin", "2,0,2"), ("copyWithin", "1,-2"), ("sort", ""), ("sort", "function(a,b){return (a>b)-(a<b)}"),
    ("map", "function(v,i){if(i==0){setLen(self,2)}return v}"), ("forEach", "function(v,i){if(i==0){put(self,3,123)}log.push(i+':'+v)}"),
    ("indexOf", "3,{valueOf:function(){setLen(self,1);return 0}}"), ("includes", "undefined,{valueOf:function(){setLen(self,1);return 0}}"),
    ("fill", "7,{valueOf:function(){setLen(self,1);return 0}},3"), ("lastIndexOf", "2,{valueOf:function(){setLen(self,1);return 3}}"),
    ("slice", "{valueOf:function(){setLen(self,1);return 0}}"), ("copyWithin", "0,{valueOf:function(){setLen(self,2);return 1}}"),
    ("indexOf", "3,{valueOf:function(){setLen(self,0);return 3}}"), ("includes", "3,{valueOf:function(){setLen(self,0);return 3}}"),
    ("lastIndexOf", "1,{valueOf:function(){setLen(self,0);return -1}}"), ("fill", "7,0,{valueOf:function(){setLen(self,0);return 4}}"),
    ("with", "{valueOf:function(){setLen(self,1);return 2}},5"), ("at", "{valueOf:function(){setLen(self,1);return 2}}"),
    ("splice", "{valueOf:function(){setLen(self,1);return 0}},1"), ("toSpliced", "{valueOf:function(){setLen(self,1);return 1}},1,9"),
    ("slice", "{valueOf:function(){setLen(self,1);return 3}}"), ("slice", "0,{valueOf:function(){setLen(self,1);return 4}}"),
    ("toSpliced", "{valueOf:function(){setLen(self,1);return 3}},1"), ("toSpliced", "0,{valueOf:function(){setLen(self,0);return 2}}"),
    ("splice", "{valueOf:function(){setLen(self,1);return 3}},1"), ("splice", "0,{valueOf:function(){setLen(self,0);return 2}},7"),
    ("copyWithin", "0,1,{valueOf:function(){setLen(self,1);return 4}}"), ("fill", "7,{valueOf:function(){setLen(self,0);return 2}}"),
    ("lastIndexOf", "1,{valueOf:function(){setLen(self,2);return 4}}"), ("includes", "1,{valueOf:function(){put(self,7,1);return 0}}"),
    ("indexOf", "1,{valueOf:function(){put(self,7,1);return 6}}"),
]
SPECS = [
    [], [1], [1, 2, 3, 4, 5], [1, 2, "_", 4], ["_", "_", 3], [1, "u", 3, "u"], [1, 2, 3, "_", "_"], [3, 1, 2, 2, 1],
    [1, ["acc", 5], 3], [["nc", 1], 2, 3], [1, 2, ["nc", 3]], [["t", 1], ["t", 2], "_", ["t", 3]], ["_", 2, "_", 4, "_", 6, "_"],
]
PROTOS = [[], [[2, 99]], [[0, 99], [3, 99], [4, 98]], [[2, ["acc", 77]], [3, 99], [5, ["acc", 76]]]]
KINDS = ["dense", "sparse", "frozen", "nonext", "arraylike", "goslice"]
GOSLICE_OK = {"indexOf", "lastIndexOf", "includes", "join", "toString", "at", "slice", "concat", "every", "some", "forEach", "map", "filter",
              "reduce", "reduceRight", "find", "findIndex", "findLast", "findLastIndex", "keys", "values", "entries", "flat", "flatMap",
              "with", "toReversed", "toSorted", "toSpliced", "reverse", "fill", "copyWithin", "sort"}


def strip_flags(s):
    return s.replace("!c", "").replace("!w", "").replace("!e", "")


def gen_method_cases(rng, budget):
    cases = []
    for kind in KINDS:
        for spec in SPECS:
            plain = all(not isinstance(e, list) and e not in ("_", "u") for e in spec)
            for proto in PROTOS:
                for meth, args in METHODS:
                    if kind == "goslice" and (not plain or meth not in GOSLICE_OK or "setLen(" in args or "put(" in args):
                        continue
                    cases.append({"kind": kind, "spec": spec, "proto": proto, "meth": meth, "args": args})
    if len(cases) > budget:
        rng.shuffle(cases)
        cases = cases[:budget]
        exhaustive = False
    else:
        exhaustive = True
    return cases, exhaustive


def check_methods(ctx, env, cases):
    env.method_bad = 0
    lines = ["meth " + json.dumps(c, separators=(",", ":")) for c in cases]
    outs = run_sharded(ctx, env.harness, lines)
    for c, line, o in zip(cases, lines, outs):
        ctx.count(1)
        env.stats["method_cases"][c["kind"]] = env.stats["method_cases"].get(c["kind"], 0) + 1
        rep = {"kind": "input", "case": c, "line": line, "observed": o}
        if o == "TIMEOUT":
            continue
        if o is None or o.startswith(("ERR", "PANIC", "BADOP")) or " @@ " not in o:
            sig = "method-crash:%s:%s" % (c["kind"], c["meth"])
            if "valueOf" in c["args"] and "setLen(" in c["args"] and c["kind"] in ("dense", "nonext") and c["meth"] in ("lastIndexOf", "fill", "copyWithin", "includes", "indexOf", "toSpliced", "splice", "slice"):
                sig = "fastpath-stale-length-after-valueOf:" + c["meth"]
            if ctx.violation(sig, "method call crashed the host: %s(%s) on %s: %s" % (c["meth"], c["args"][:60], json.dumps(c["spec"]), (o or "")[:160]), rep) != "known":
                env.method_bad += 1
            continue
        subj, ref, twin = (o.split(" @@ ") + ["-", "-"])[:3]
        # white-box: the receiver and an Array result must satisfy Inv after every method call
        for part in o.split(" @@ ")[3:]:
            if part.startswith("INV:"):
                for ent in part[4:].split(";"):
                    if "=" in ent:
                        who, summ = ent.split("=", 1)
                        if py_inv("inv " + summ) != "ok":
                            sig = "method-breaks-bookkeeping:%s:%s" % (c["meth"], who.strip("_"))
                            if c["meth"] == "map" and who == "__out":
                                sig = "map-fastpath-objCount-counts-holes"
                            rep2 = dict(rep); rep2["inv_summary"] = summ
                            if ctx.violation(sig, "%s leaves %s with broken bookkeeping (objCount/propValueCount vs actual): %s on %s" % (
                                    c["meth"], who, summ, json.dumps(c["spec"])), rep2) != "known":
                                env.method_bad += 1
        if c["kind"] == "goslice":
            subj, ref = strip_flags(subj), strip_flags(ref)
        ctx.nontriv("meth|%s|%s|%s|%s|%s" % (c["kind"], json.dumps(c["spec"]), json.dumps(c["proto"]), c["meth"], c["args"]))
        mutating_args = "setLen(" in c["args"] or "put(" in c["args"]
        bad = None
        if twin != "-" and subj != twin:
            # a dense (fast-path capable) array and the same array in sparse storage are both Arrays:
            # every method must behave identically on them
            bad = ("storage-visible", twin)
        elif not mutating_args and subj != ref:
            bad = ("fastpath-vs-generic", ref)
        elif mutating_args and c["meth"] in ("indexOf", "includes", "lastIndexOf", "slice", "map", "forEach") and \
                not any(isinstance(e, list) and e[0] == "nc" for e in c["spec"]) and fields(subj).get("res") != fields(ref).get("res"):
            # arrays and array-likes legitimately differ in how `length` follows writes; only the return
            # value of non-writing methods is comparable when the callback/valueOf resizes the receiver
            bad = ("fastpath-vs-generic-result", ref)
        if bad:
            rep["expected"] = bad[1]
            sig = "method-mismatch:%s:%s(%s)" % (c["kind"], c["meth"], c["args"][:30])
            if mutating_args and "valueOf" in c["args"] and c["kind"] in ("dense", "nonext") and c["meth"] in ("lastIndexOf", "fill", "copyWithin", "includes", "indexOf", "toSpliced", "splice", "slice"):
                sig = "fastpath-stale-length-after-valueOf:" + c["meth"]
            elif c["meth"] == "splice" and c["kind"] == "dense" and any(isinstance(pr[1], list) for pr in c["proto"]):
                sig = "splice-fastpath-growth-ignores-inherited-indexed-properties"
            elif c["kind"] in ("frozen", "nonext") and c["meth"] == "splice":
                sig = "splice-fastpath-adds-elements-to-nonextensible-array"
            if ctx.violation(sig, "%s receiver, %s(%s) [%s]: %s  expected  %s" % (c["kind"], c["meth"], c["args"][:60], bad[0], subj[:160], bad[1][:160]), rep) != "known":
                env.method_bad += 1
    return len(cases)


# ----------------------------------------------------------------------------- Go slice wrapper, spare capacity
def gen_gs_cases(rng, n):
    """Go []interface{} / *[]interface{} wrappers over a backing array whose spare capacity holds stale non-nil
    sentinels; script growth within capacity (write at len+k, length assignment, push), Go-side truncation in
    between (leaves real stale values behind), growth beyond capacity, shrinking."""
    cases = []
    vals = ["a", "b", "c", 1, 2, 3, "z", 0, ""]
    for _ in range(n):
        cap = cap0 = rng.randint(1, 12)      # cap0: capacity of the backing array; cap tracks growth
        ln = rng.randint(0, cap)
        ptr = rng.random() < 0.6
        init = [rng.choice(vals) for _ in range(ln)]
        cur = ln
        ops = []
        for _ in range(rng.randint(1, 8)):
            x = rng.random()
            if x < 0.35:
                # indexed write: mostly at len+k within capacity, sometimes in place or beyond capacity
                y = rng.random()
                if y < 0.6 and cur < cap:
                    i = rng.randint(cur, cap - 1)
                elif y < 0.8 and cur > 0:
                    i = rng.randrange(cur)
                else:
                    i = cap + rng.randint(0, 3)
                ops.append(["set", i, rng.choice(vals)])
                cur = max(cur, i + 1)
            elif x < 0.6:
                m = rng.randint(0, cap) if rng.random() < 0.8 else cap + rng.randint(1, 4)
                ops.append(["len", m])
                cur = m
            elif x < 0.75 and ptr and cur > 0:
                m = rng.randrange(cur)
                ops.append(["gotrunc", m])
                cur = m
            elif x < 0.9:
                ops.append(["push", rng.choice(vals)])
                cur += 1
            else:
                ops.append(["pop"])
                cur = max(0, cur - 1)
            cap = max(cap, cur)
        cases.append({"cap": cap0, "init": init, "ptr": ptr, "ops": ops})
    return cases


def check_gs(ctx, env, cases):
    lines = ["gs " + json.dumps(c, separators=(",", ":")) for c in cases]
    outs = run_sharded(ctx, env.harness, lines, shards=8)
    bad = 0
    for c, line, o in zip(cases, lines, outs):
        ctx.count(1)
        if o == "TIMEOUT":
            continue
        rep = {"kind": "input", "case": c, "line": line, "observed": o}
        kinds = ",".join(sorted(set(op[0] for op in c["ops"])))
        if o is None or o.startswith(("ERR", "PANIC", "BADOP")) or o.count(" @@ ") != 2:
            bad += 1
            ctx.violation("goslice-crash:%s" % kinds, "Go slice wrapper case crashed: %s" % (o or "")[:200], rep)
            continue
        st, tt, gofinal = o.split(" @@ ")
        ctx.nontriv("gs|%d|%d|%s|%s" % (c["cap"], len(c["init"]), c["ptr"], json.dumps(c["ops"])))
        env.stats["goslice_cases"][kinds] = env.stats["goslice_cases"].get(kinds, 0) + 1
        if st != tt:
            sl, tl = st.split(";"), tt.split(";")
            k = next((i for i in range(min(len(sl), len(tl))) if sl[i] != tl[i]), 0)
            rep["expected"] = tt
            rep["first_difference"] = {"after_op": (c["ops"][k - 1] if k > 0 else "initial"), "wrapper": sl[k], "array_twin": tl[k]}
            bad += 1
            ctx.violation("goslice-differs-from-array-twin:%s" % (c["ops"][k - 1][0] if k > 0 else "initial"),
                          "Go slice wrapper (cap %d, spare capacity holds stale values) after %s reads %s, the Array twin %s" % (
                              c["cap"], json.dumps(c["ops"][k - 1] if k > 0 else "init"), sl[k][:120], tl[k][:120]), rep)
            continue
        last = tt.split(";")[-1]
        want_go = last[:last.index("]") + 1]
        if gofinal != want_go:
            rep["expected"] = want_go
            bad += 1
            ctx.violation("goslice-go-value-differs-from-script-view:%s" % kinds,
                          "Go-side value %s differs from what the script (and the Array twin) sees: %s" % (gofinal[:120], want_go[:120]), rep)
    return bad


# ----------------------------------------------------------------------------- corpus
def load_corpus():
    d = os.path.join(ROOT, "corpus", "C07")
    out = []
    if os.path.isdir(d):
        for fn in sorted(os.listdir(d)):
            if fn.endswith(".json"):
                with open(os.path.join(d, fn)) as f:
                    out.append((fn, json.load(f)))
    return out


def run_direct(ctx, env, entry, fn):
    """corpus entries with a hard expected observation (judged without the model)."""
    line = entry["line"]
    o = run_one(ctx, env.harness, line)
    ctx.count(1)
    if o.startswith("ERR") and "timeout" in o:
        INCONCLUSIVE.append(line[:300])
        return True
    ok = all(s in o for s in entry.get("expect_contains", [])) and not any(s in o for s in entry.get("expect_absent", []))
    if not ok:
        ctx.violation(entry["signature"], entry["summary"] + " :: observed " + o[:300],
                      {"kind": "history", "line": line, "observed": o, "expected": entry.get("expect_contains"), "corpus": fn})
    return ok


# ----------------------------------------------------------------------------- audit (single lean process)
AUDIT_MODULES = [("GojaModel.C07.Props", 22), ("GojaModel.C07.PropsElem", 13), ("GojaModel.C07.PropsHist", 4),
                 ("GojaModel.C07.PropsMethods", 14), ("GojaModel.C07.PropsSearch", 8), ("GojaModel.C07.PropsBounds", 5),
                 ("GojaModel.C07.PropsMerge", 4), ("GojaModel.C07.PropsGoSlice", 5), ("GojaModel.C07.PropsMethods2", 9), ("GojaModel.C07.PropsHist2", 5), ("GojaModel.C07.Tie", 4),
                 ("GojaModel.C07.Tie2", 2)]


def audit_all(ctx, modules, timeout=1800):
    """Same obligations as vlib.Ctx.audit (one per theorem: axioms within the allowed set; per module: expected
    minimum number of theorems; once: no forbidden constructs), but with a single `lean` run for all modules."""
    import re
    d = os.path.join(BUILD, "audit")
    os.makedirs(d, exist_ok=True)
    f = os.path.join(d, "GojaModel_C07_all.lean")
    with open(f, "w") as fh:
        fh.write("import GojaModel.Audit\n" + "".join("import %s\n" % m for m, _ in modules) +
                 "".join("#audit_module %s\n" % m for m, _ in modules))
    ctx.checker_cmds.append("cd lean && lake env lean <audit:%s>" % ",".join(m for m, _ in modules))
    rc, out, err = sh(["lake", "env", "lean", f], cwd=LEAN, timeout=timeout)
    # attribute theorems to modules by the AUDIT-DONE markers (output is in order)
    counts, cur = {}, 0
    for line in out.splitlines():
        m = re.search(r"AUDIT-DONE (\S+) theorems=(\d+)", line)
        if m:
            counts[m.group(1)] = int(m.group(2))
            continue
        m = re.search(r"AUDIT (\S+) ::(.*)$", line)
        if m:
            axs = set(m.group(2).split())
            bad = sorted(axs - ALLOWED_AXIOMS)
            ctx.obligation("thm:" + m.group(1), "theorem", not bad,
                           ("axioms: " + " ".join(sorted(axs))) if not bad else ("forbidden axioms: " + " ".join(bad)))
    for mod, n in modules:
        if mod not in counts:
            ctx.obligation("audit:" + mod, "theorem", False, "module not audited: " + (out + err)[-800:])
        elif counts[mod] < n:
            ctx.obligation("audit:" + mod, "theorem", False, "only %d theorems found, expected >= %d" % (counts[mod], n))
    if rc != 0:
        ctx.obligation("audit:lean-run", "theorem", False, (out + err)[-1500:])
    hits = []
    for dd in [os.path.join(LEAN, "GojaModel", ctx.prop), os.path.join(LEAN, "GojaModel", "Base")]:
        for dp, _, fns in os.walk(dd):
            for fn in fns:
                if fn.endswith(".lean"):
                    hits += ctx._grep_forbidden(os.path.join(dp, fn))
    ctx.obligation("audit:no-sorry-axiom-native:" + ctx.prop, "theorem", not hits, "; ".join(hits[:10]))
    return counts


# ----------------------------------------------------------------------------- main
def main(ctx):
    env = Env()
    env.stats = {"tags_final": {}, "transitions": {"dense->sparse": 0, "sparse->dense": 0}, "std_fastpath_final": 0,
                 "sort_cases": {}, "method_cases": {}, "goslice_cases": {}}
    env.tag_mismatch = []
    env.quirks = {}
    env.ts_hits = {}
    ctx.stats.update(env.stats)
    thorough = ctx.tier == "thorough"

    # the extractor package is shared: another property's file may be mid-edit — wait and retry
    for attempt in range(6):
        nob, nbr = len(ctx.obligations), len(ctx.broken)
        if ctx.regen():
            break
        detail = ctx.obligations[-1]["detail"] if len(ctx.obligations) > nob else ""
        if "c07.go" in detail or attempt == 5:
            break
        ctx.log("extractor does not build because of another property's file; retrying in 30 s")
        del ctx.obligations[nob:]
        del ctx.broken[nbr:]
        time.sleep(30)
    ok, errs = ctx.lake_build(["GojaModel.C07.Props", "GojaModel.C07.PropsElem", "GojaModel.C07.PropsHist", "GojaModel.C07.PropsMethods",
                                "GojaModel.C07.PropsSearch", "GojaModel.C07.PropsBounds", "GojaModel.C07.PropsMerge", "GojaModel.C07.PropsGoSlice", "GojaModel.C07.PropsMethods2", "GojaModel.C07.PropsHist2", "GojaModel.C07.Tie", "GojaModel.C07.Tie2", "model_c07"])
    # ONE lean process audits all theorem modules (one file, several #audit_module lines); the harness build
    # runs beside it
    with ThreadPoolExecutor(max_workers=2) as ex:
        fa = ex.submit(audit_all, ctx, AUDIT_MODULES) if ok else None
        hf = ex.submit(ctx.go_build)
        if fa:
            fa.result()
        env.harness = hf.result()
    if ok and thorough:
        ctx.leanchecker("GojaModel.C07.PropsHist")
    env.model = ctx.model_exe() if ok and os.path.exists(ctx.model_exe()) else None
    if env.harness is None:
        return ctx.finish(level="proof", rule="harness did not build")

    rng = ctx.rng
    # 1. corpus
    corpus = load_corpus()
    seqs = []
    corpus_meth = []
    corpus_gs = []
    for fn, e in corpus:
        if e.get("type") == "direct":
            run_direct(ctx, env, e, fn)
        elif e.get("type") == "seq":
            seqs.append((fn, twins(random.Random(1), e["ops"]) if e.get("twins", True) else {"orig": e["ops"]}))
        elif e.get("type") == "sort":
            check_sort(ctx, env, [e["case"]])
        elif e.get("type") == "meth":
            corpus_meth.append(e["case"])
        elif e.get("type") == "gs":
            corpus_gs.append(e["case"])
    nseq = 2500 if thorough else 160
    for k in range(nseq):
        ops = gen_seq(rng, allow_fill=(k % 4 == 0))
        seqs.append(("g%d" % k, twins(rng, ops)))
    ctx.log("lean+go built; running %d sequences (x up to 5 variants)" % len(seqs))
    problems = check_seqs(ctx, env, seqs, "seq")
    ctx.log("sequences done")
    # problems fully explained by the known pop finding (objCount not decremented): gone without the POPs
    POPSIG = "pop-fastpath-objCount-not-decremented"
    if ctx.known_signature(POPSIG):
        rest = []
        for p in problems:
            ops_p = [o for o in p["line"][4:].split(";") if o.strip()]
            if p["kind"] in ("inv", "export") and "POP" in ops_p and \
                    not seq_fails(ctx, env, p["kind"])([o for o in ops_p if o != "POP"]):
                ctx.violation(POPSIG, "objCount over-counts after pop (%s): %s" % (p["kind"], p["line"][:200]),
                              {"kind": "history", "line": p["line"], "observed": p["impl"]})
            else:
                rest.append(p)
        problems = rest
    kinds = {}
    for p in problems:
        kinds[p["kind"]] = kinds.get(p["kind"], 0) + 1
    ctx.obligation("corr:op-sequences(model=implementation)", "correspondence", kinds.get("corr", 0) == 0 and kinds.get("model-badop", 0) == 0 and kinds.get("impl-error", 0) == 0,
                   json.dumps(kinds))
    ctx.obligation("corr:twin-identity(dense<->sparse switch invisible)", "correspondence", kinds.get("twin", 0) == 0, json.dumps(kinds))
    ctx.obligation("inv:whitebox-counters-satisfy-Inv", "correspondence", kinds.get("inv", 0) == 0, json.dumps(kinds))
    ctx.obligation("corr:go-export-fast-path=generic", "correspondence", kinds.get("export", 0) == 0, json.dumps(kinds))
    ctx.obligation("tie:storage-tags-predicted-by-model", "tie", len(env.tag_mismatch) == 0, json.dumps(env.tag_mismatch[:3]))
    ctx.obligation("coverage:both-strategies-and-both-transitions-ran", "correspondence",
                   env.stats["transitions"]["dense->sparse"] > 0 and env.stats["transitions"]["sparse->dense"] > 0 and
                   env.stats["tags_final"].get("dense", 0) > 0 and env.stats["tags_final"].get("sparse", 0) > 0, json.dumps(env.stats["transitions"]))
    seen = set()
    for p in problems:
        key = (p["kind"], p["name"])
        if key in seen or len(seen) >= 6:
            continue
        seen.add(key)
        report_seq_problem(ctx, env, p)
    ctx.obligation("spec:[[Delete]]-calls-no-user-code", "correspondence", not env.ts_hits, json.dumps(list(env.ts_hits.values())[:1])[:300])
    for sig, line in env.ts_hits.items():
        ctx.violation(sig, "a failed delete of a non-configurable element called the user-visible Array.prototype.toString: " + line[:200],
                      {"kind": "history", "line": line, "expected": "ts=0 ([[Delete]] calls no user code)"})
    ctx.obligation("spec:element-define=ValidateAndApplyPropertyDescriptor", "correspondence", not env.quirks, json.dumps(list(env.quirks.keys())))
    for q, line in env.quirks.items():
        ctx.violation("define-quirk-" + q, "element defineProperty deviates from ValidateAndApplyPropertyDescriptor (%s): %s" % (q, line[:200]),
                      {"kind": "history", "line": line, "note": "implementation = mechanism model, both differ from the spec (object.go _defineOwnProperty)"})
    for s in seqs[len(corpus):len(corpus) + 4]:
        ctx.sample(seq_line(s[1]["orig"])[:300])

    # 2. sort
    sort_cases = gen_sort_cases(rng, 4000 if thorough else 500)
    sort_cases.insert(0, {"recv": "dense", "method": "sort", "cmp": "desc-negate", "elems": [[1, 0], [1, 1], [1, 2], [0, 3]], "mutate": "", "seed": 0})
    sagree = check_sort(ctx, env, sort_cases)
    ctx.log("sort sweep done")
    ctx.obligation("oracle:sort-stable-permutation", "correspondence", sagree, "")

    # 3. methods
    mcases, exhaustive = gen_method_cases(rng, 100000 if thorough else MQUICK)
    nm = check_methods(ctx, env, corpus_meth + mcases)
    ctx.stats["method_sweep"] = {"cases": nm, "exhaustive_over_listed_domain": exhaustive}
    ctx.obligation("oracle:methods-fastpath=generic(metamorphic)", "correspondence", env.method_bad == 0, "%d cases differ" % env.method_bad)

    ctx.stats["std_fastpath_final"] = env.stats["std_fastpath_final"]
    # 4. Go slice wrappers with spare capacity
    gbad = check_gs(ctx, env, corpus_gs + gen_gs_cases(rng, 4000 if thorough else 400))
    ctx.obligation("oracle:goslice-wrapper=array-twin(spare-capacity,script+go-view)", "correspondence", gbad == 0, "%d cases differ" % gbad)

    ctx.stats["inconclusive_timeouts"] = {"count": len(INCONCLUSIVE), "lines": INCONCLUSIVE[:5]}
    if INCONCLUSIVE:
        ctx.log("inconclusive (timeout, retried once):", len(INCONCLUSIVE))
    ctx.assumptions += [
        "values are opaque identities to the array mechanism (parametricity); numbers/strings are C05/C06's concern",
        "the backing array beyond len(values) holds nil (array.go re-slices within cap)",
        "sort.Stable is modelled by its insertion phase (blocks <= 20) and a stable merge; symMerge's exact compare sequence is not modelled",
        "_defineOwnProperty is a parameter of the array theorems (C04's subject); a transcription instantiates it in the driver",
    ]
    ctx.trusted_base += ["harness JS prelude (descriptor serialisation), Reflect.* used as the observation interface",
                         "python sort oracle (stable sort by key) and the array-like reference construction for the method sweep"]
    return ctx.finish(level="proof",
                      rule="op sequences: random (seeded) <=30 ops over indices {0..20} U {4095,4096,4097,65535,65536,2^31-1,2^32-2}, each run as original + 4 twins "
                           "(detour through sparse / through dense at the start or at a random safe position); distinct = distinct (final keys, length, per-op storage tags); "
                           "sort: distinct (receiver, method, comparator, n); methods: distinct (receiver kind, content, proto content, method, args)")


def replay(ctx, path):
    with open(path) as f:
        r = json.load(f)
    h = ctx.go_build()
    m = ctx.model_exe()
    line = r.get("line")
    if not line:
        print(json.dumps(r, indent=1))
        return 0
    print("input   :", line)
    if h:
        print("observed:", run_one(ctx, h, line))
    if os.path.exists(m) and line.startswith("seq "):
        print("model   :", run_one(ctx, m, line))
    if r.get("expected"):
        print("expected:", r["expected"])
    return 0
