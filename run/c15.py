"""
C15 — interrupt from any goroutine stops the script promptly and cleanly.

Order (BUILDERS.md): regen facts -> lake build (Props, Tie, driver) -> audit -> go build ->
  (1) deterministic probe-point correspondence: for generated abstract programs and EVERY k up to a cap, the k-th
      probe() calls Interrupt(v); harness (real goja) and Lean model answer the same `case` lines; canonical diff;
      an independent spec judge (python, needs no Lean) checks the property itself on the implementation's answers;
  (2) asynchronous soak: a 2nd goroutine interrupts at random delays (thorough: -race build, 16 shards).
"""
import glob, json, os, re, subprocess
from vlib import *

CLEAN_TAIL = "st=0/0/0/0/0 after=ok log2=999 st2=0/0/0/0/0"
NKINDS = 21
APIS = ("run", "call", "try", "errstr")
KIND_NAMES = ["getter", "forEach", "sortcmp", "generator", "nestedRun", "callable", "nestedRun-swallow",
              "callable-swallow", "toString", "proxytrap", "ctor", "Reflect.apply", "toJSON",
              "callable-wrap%w", "callable-wrapJoin", "nestedRun-wrap%w", "nestedRun-wrapJoin", "reflect-returns-wrapped",
              "callable-wrapNested", "exception.Error()-toString", "exception.String()-toString"]


# ------------------------------------------------------------------ program generator (tree = list of tuples)
class Gen:
    def __init__(self, rng):
        self.rng = rng
        self.next_id = 1
        self.sites = {}

    def lid(self):
        self.next_id += 1
        return self.next_id

    def block(self, depth, site, size=None):
        r = self.rng
        n = size if size is not None else r.choice([1, 1, 2, 2, 3, 4])
        out = []
        for _ in range(n):
            if r.random() < 0.45:
                out.append(("P",))
                self.sites[site] = self.sites.get(site, 0) + 1
            out.append(self.stmt(depth, site))
        if r.random() < 0.35:
            out.append(("P",))
            self.sites[site] = self.sites.get(site, 0) + 1
        return out

    def stmt(self, depth, site):
        r = self.rng
        if depth >= 3:
            return ("L", self.lid()) if r.random() < 0.9 else ("T",)
        x = r.random()
        if x < 0.25:
            return ("L", self.lid())
        if x < 0.30:
            return ("T",)
        if x < 0.40:
            return ("W", r.randint(1, 3), self.block(depth + 1, "loop"))
        if x < 0.58:
            c, f = r.choice([(1, 1), (1, 0), (0, 1), (1, 1)])
            body = self.block(depth + 1, "try")
            if r.random() < 0.4:
                body.insert(r.randint(0, len(body)), ("T",))
            cat = [("L", self.lid())] + self.block(depth + 1, "catch", 1) if c else []
            fin = [("L", self.lid())] + self.block(depth + 1, "finally", 1) if f else []
            return ("Y", c, f, body, cat, fin)
        if x < 0.80:
            kind = r.randrange(13, NKINDS) if r.random() < 0.4 else r.randrange(NKINDS)
            reps = r.randint(1, 3) if kind == 1 else 1
            return ("N", kind, reps, self.block(depth + 1, KIND_NAMES[kind]))
        if x < 0.85:
            return ("Q", self.block(depth + 1, "job"))
        if x < 0.87:
            return ("H", self.block(depth + 1, "thenable-job"))
        if x < 0.905:
            return ("A", self.block(depth + 1, "async-pre"), self.block(depth + 1, "async-post"))
        if x < 0.93:
            return ("B", self.block(depth + 1, "chain-inner-pre", 1), self.block(depth + 1, "chain-inner-post"),
                    self.block(depth + 1, "chain-outer-post", 1))
        return ("F", r.randint(0, 2), r.randint(0, 1), self.block(depth + 1, "iter-next", 1),
                self.block(depth + 1, "forof-body"), [("L", self.lid())] + self.block(depth + 1, "iter-return", 1))


def render(block):
    out = ["("]
    for s in block:
        op = s[0]
        if op == "L":
            out += ["L", str(s[1])]
        elif op in ("P", "T"):
            out.append(op)
        elif op == "W":
            out += ["W", str(s[1]), render(s[2])]
        elif op == "Y":
            out += ["Y", str(s[1]), str(s[2]), render(s[3]), render(s[4]), render(s[5])]
        elif op == "N":
            out += ["N", str(s[1]), str(s[2]), render(s[3])]
        elif op in ("Q", "H"):
            out += [op, render(s[1])]
        elif op == "A":
            out += ["A", render(s[1]), render(s[2])]
        elif op == "B":
            out += ["B", render(s[1]), render(s[2]), render(s[3])]
        elif op == "F":
            out += ["F", str(s[1]), str(s[2]), render(s[3]), render(s[4]), render(s[5])]
    out.append(")")
    return " ".join(out)


def sub_blocks(s):
    return [x for x in s[1:] if isinstance(x, list)]


def shrink_candidates(block):
    """Smaller variants of a program: drop one statement, or replace a statement by one of its sub-blocks."""
    for i, s in enumerate(block):
        yield block[:i] + block[i + 1:]
        for sb in sub_blocks(s):
            yield block[:i] + sb + block[i + 1:]
        for j, x in enumerate(s):
            if isinstance(x, list):
                for cand in shrink_candidates(x):
                    yield block[:i] + [s[:j] + (cand,) + s[j + 1:]] + block[i + 1:]


def may_leak(prog_text):
    t = prog_text.split()
    return "A" in t or "B" in t or any(t[i] == "N" and int(t[i + 1]) % NKINDS == 3 for i in range(len(t) - 1))


# ------------------------------------------------------------------ parsing answers
ANS = re.compile(r"^res=(\S*) log=(\S*) st=(\S+) after=(\S+) log2=(\S*) st2=(\S+)(?: post=(\S+))?$")


def parse_ans(line):
    m = ANS.match(line.strip())
    if not m:
        return None
    return {"res": m.group(1), "log": m.group(2), "st": m.group(3), "after": m.group(4), "log2": m.group(5),
            "st2": m.group(6), "post": m.group(7)}


def tail(a):
    return "st=%s after=%s log2=%s st2=%s" % (a["st"], a["after"], a["log2"], a["st2"])


def canon_depth(st):
    f, j, c, t = st.split("/")
    return "%s/%s/%d/%d" % (f, j, min(int(c), 1), min(int(t), 1))


def cut_log(full, k):
    ev = [e for e in full.split(",") if e != ""]
    n = 0
    for i, e in enumerate(ev):
        if e == "P":
            n += 1
            if n == k:
                return ",".join(ev[:i + 1])
    return None


def spec_judge(case, ans, base):
    """The property itself, judged on the implementation's answer. `base` = answer of the same program/entry point with
    k=0, pre=none (the uninterrupted run).  Returns None or a symptom string."""
    if ans is None:
        return "harness-error"
    if ans.get("post") not in (None, "ok"):
        # reusability: stack traces identical to a fresh runtime's, VM not pointing at an async runner
        return ans["post"].split(":")[0]
    api, k, v, pre, w = case["api"], case["k"], case["v"], case["pre"], case["w"]
    hit = cut_log(base["log"], k) if (pre != "intr" and k > 0 and base is not None) else None
    if pre == "intr":
        exp_res, exp_log, exp_intr = "intr:%d" % w, "", True
    elif hit is not None:
        # entry point `errstr`: the interrupt hits the toString() run by err.Error() at depth 0 and is swallowed there
        exp_res, exp_log, exp_intr = ("errstr:placeholder" if api == "errstr" else "intr:%d" % v), hit, True
    elif base is not None:
        exp_res, exp_log, exp_intr = base["res"], base["log"], False
    else:
        exp_res, exp_log, exp_intr = None, None, False
        if ans["res"].startswith("intr"):
            return "spurious-interrupt"
    if exp_res is not None:
        if ans["res"] != exp_res:
            if exp_intr and not (ans["res"].startswith("intr") or ans["res"] == "errstr:placeholder"):
                return "interrupt-lost"
            return "wrong-value" if exp_intr else "wrong-result"
        if ans["log"] != exp_log:
            if exp_intr and ans["log"].startswith(exp_log):
                return "script-code-ran-after-interrupt"
            return "wrong-log"
    f, j, cdepth, tdepth, arun = ans["st"].split("/")
    if f != "0":
        return "flag-not-cleared"
    if arun != "0":
        return "stale-async-runner"
    if api in ("try", "errstr") and not exp_intr:
        # Runtime.Try / Exception.Error() return without draining the job queue; the jobs run in the follow-up call
        if cdepth != "0" or tdepth != "0" or ans["st2"] != "0/0/0/0/0":
            return "vm-stacks-not-unwound"
        if ans["after"] != "ok" or not (ans["log2"] == "999" or ans["log2"].startswith("999,")):
            return "runtime-not-reusable"
        return None
    if j != "0":
        return "job-queue-not-dropped"
    if ans["after"] != "ok" or ans["log2"] != "999":
        return "runtime-not-reusable"
    if ans["st"] != "0/0/0/0/0" or ans["st2"] != "0/0/0/0/0":
        return "vm-stacks-not-unwound"
    return None


def case_line(c):
    return "case %s %d %d %s %s %d | %s" % (c["api"], c["k"], c["v"], c["mode"], c["pre"], c["w"], c["prog"])


def run_harness(ctx, h, lines, timeout=900):
    """A timeout (rc 124: slow machine) is retried once with three times the budget; it is never a verdict."""
    rc, out, err = ctx.run_lines([h], lines, timeout=timeout)
    if rc == 124:
        ctx.log("harness timed out after %ds on %d lines: retrying" % (timeout, len(lines)))
        rc, out, err = ctx.run_lines([h], lines, timeout=3 * timeout)
    return rc, out, err


def regen_c15(ctx, timeout=600):
    """Same contract as vlib's ctx.regen() (stale Generated/C15_* deleted first, facts rewritten from VERIF_REPO, a failure
    is a broken tie obligation), but the extractor is compiled from main.go + c15.go only, so that a file of another
    property that is being edited concurrently in extract/ cannot break this property's tie."""
    gen = os.path.join(LEAN, "GojaModel", "Generated")
    os.makedirs(gen, exist_ok=True)
    for fn in os.listdir(gen):
        if fn.startswith("C15_") or fn == "C15.lean":
            os.remove(os.path.join(gen, fn))
    exe = os.path.join(BUILD, "extract_c15")
    rc, out, err = sh(["go", "build", "-o", exe, "main.go", "c15.go"], cwd=os.path.join(ROOT, "extract"), env=GOENV, timeout=timeout)
    if rc == 124:
        rc, out, err = sh(["go", "build", "-o", exe, "main.go", "c15.go"], cwd=os.path.join(ROOT, "extract"), env=GOENV, timeout=3 * timeout)
    if rc != 0:
        ctx.obligation("tie.extract.build", "tie", False, err)
        return False
    rc, out, err = sh([exe, "-repo", REPO, "-out", gen, "-only", "C15"], timeout=timeout)
    if rc != 0:
        ctx.obligation("tie.extract.run", "tie", False, out + err)
        return False
    ctx.stats["extract"] = out.strip().splitlines()[-5:]
    return True


# ------------------------------------------------------------------ main
def main(ctx):
    quick = ctx.tier == "quick"
    ctx.assumptions += [
        "the promptness bound is counted in VM instructions: a native built-in that runs long WITHOUT re-entering the VM is outside the model (documented by goja: Interrupt 'does not interrupt native Go functions')",
        "data-race freedom is proved of the regenerated ACCESS TABLE of vm.interrupted/vm.interruptVal under a happens-before model (lock release->acquire, atomics); it is not a proof about the Go binary — the -race soak only exhibits races on schedules that were run",
        "ClearInterrupt concurrently with Interrupt is excluded (runtime.go:1523 makes synchronisation the user's duty)",
        "deterministic correspondence: Interrupt is called from inside probe() (runner goroutine, or a 2nd goroutine the probe waits for), i.e. at instruction boundaries of the innermost run loop; asynchronous positions are covered by the soak only",
    ]
    ctx.trusted_base += [
        "renderer abstract program -> JavaScript in harness/cmd/c15 and the kind->frame-attribute table (Model.kindAttrs)",
        "Go memory model as summarised by the HB rules of GojaModel.C15.Drf (po, unlock->lock, atomics never race)",
        "extract/c15.go classification of accesses (atomic.* argument / between interruptLock.Lock..Unlock / plain)",
    ]
    # 1. facts + Lean
    lean_ok = True
    if not regen_c15(ctx):
        lean_ok = False
    # the model driver does not depend on the regenerated facts: build it first so that it stays available for the
    # correspondence when only a Tie theorem stops checking
    ok_model, _ = ctx.lake_build(["model_c15"])
    ok, errs = ctx.lake_build(["GojaModel.C15.Props", "GojaModel.C15.Tie"])
    lean_ok = lean_ok and ok and ok_model
    ctx.log("lake build done")
    # the two axiom audits (each a separate `lean` process, ~10-25 s) run concurrently with the Go builds
    import threading
    threads = []
    if ok:
        def audit_props():
            ctx.stats["theorems_props"] = ctx.audit("GojaModel.C15.Props", expect_min=41)
        def audit_tie():
            ctx.stats["theorems_tie"] = ctx.audit("GojaModel.C15.Tie", expect_min=18)
        threads = [threading.Thread(target=audit_props), threading.Thread(target=audit_tie)]
        if not quick:
            threads.append(threading.Thread(target=lambda: ctx.leanchecker("GojaModel.C15.Props")))
        for t in threads:
            t.start()
    model = ctx.model_exe() if ok_model and os.path.exists(ctx.model_exe()) else None
    if model is None:
        ctx.log("model driver unavailable: running implementation-side spec judge only")

    # 2. harness
    h = ctx.go_build()
    hs_race = ctx.go_build(race=True) if not quick else None
    if h is None:
        for t in threads:
            t.join()
        return ctx.finish(level="proof", rule="harness did not build")

    # 3. deterministic cases
    progs = []     # (prog_text, tree or None)
    corpus_dir = os.path.join(ROOT, "corpus", "C15")
    corpus_cases = []
    for fn in sorted(glob.glob(os.path.join(corpus_dir, "*.txt"))):
        for l in open(fn):
            l = l.strip()
            if l.startswith("case "):
                hdr, prog = l[5:].split("|", 1)
                f = hdr.split()
                corpus_cases.append({"api": f[0], "k": int(f[1]), "v": int(f[2]), "mode": f[3], "pre": f[4],
                                     "w": int(f[5]), "prog": prog.strip(), "corpus": True})
    nprog = 30 if quick else 400
    kcap = 10 if quick else 40
    g = Gen(ctx.rng)
    trees = {}
    for _ in range(nprog):
        t = g.block(0, "top")
        txt = render(t)
        trees[txt] = t
        progs.append(txt)
    ctx.stats["probe_sites_static"] = dict(sorted(g.sites.items()))

    # pass 1: uninterrupted runs on the implementation (both apis) give the probe counts and the base logs
    base_cases = []
    for p in progs:
        for api in APIS:
            base_cases.append({"api": api, "k": 0, "v": 0, "mode": "self", "pre": "none", "w": 0, "prog": p})
    for c in corpus_cases:
        base_cases.append({"api": c["api"], "k": 0, "v": 0, "mode": "self", "pre": "none", "w": 0, "prog": c["prog"]})
    rc, out, err = run_harness(ctx, h, [case_line(c) for c in base_cases])
    if rc != 0 or len(out) != len(base_cases):
        ctx.obligation("corr:harness-run", "correspondence", False, "rc=%d %s" % (rc, err[-500:]))
        return ctx.finish(level="proof", rule="harness failed")
    base = {}
    for c, o in zip(base_cases, out):
        base[(c["api"], c["prog"])] = parse_ans(o)

    cases = list(corpus_cases)
    for p in progs:
        for api in APIS:
            b = base[(api, p)]
            if b is None:
                continue
            np_ = b["log"].split(",").count("P")
            ks = list(range(1, min(np_, kcap) + 1))
            if np_ > kcap:
                ks += sorted(ctx.rng.sample(range(kcap + 1, np_ + 1), min(4, np_ - kcap)))
            ks.append(np_ + 1)                  # beyond the last probe: never fires
            if api != "run":
                ks = ks[::2] or ks              # Callable / Runtime.Try share everything below the outermost frame
            for k in ks:
                v = ctx.rng.randint(1, 900)
                mode = ctx.rng.choice(["self", "other", "self2"])
                cases.append({"api": api, "k": k, "v": v, "mode": mode, "pre": "none", "w": 0, "prog": p})
            # idle variants
            w = ctx.rng.randint(901, 999)
            cases.append({"api": api, "k": 0, "v": 0, "mode": "self", "pre": "intr", "w": w, "prog": p})
            kk = ctx.rng.randint(0, max(np_, 1))
            cases.append({"api": api, "k": kk, "v": ctx.rng.randint(1, 900), "mode": "other", "pre": "intrclear", "w": w, "prog": p})
    all_cases = base_cases + cases
    lines = [case_line(c) for c in all_cases]
    rc, impl_out, err = run_harness(ctx, h, lines)
    if rc != 0 or len(impl_out) != len(lines):
        ctx.obligation("corr:harness-run", "correspondence", False, "rc=%d %s" % (rc, err[-500:]))
        return ctx.finish(level="proof", rule="harness failed")
    model_out = None
    if model:
        rc, model_out, err = ctx.run_lines([model], lines)
        if rc != 0 or len(model_out) != len(lines):
            ctx.obligation("corr:model-run", "correspondence", False, "rc=%d %s" % (rc, err[-500:]))
            model_out = None

    disagree, leaks, interrupted, stats = [], [], 0, {"res": {}, "mode": {}, "pre": {}, "api": {}, "gen_async_cases": 0,
                                                     "log_len": {}, "k": {}}
    failing = []     # (case, symptom, impl answer)
    for i, c in enumerate(all_cases):
        a = parse_ans(impl_out[i])
        m = parse_ans(model_out[i]) if model_out else None
        ctx.count()
        b = base.get((c["api"], c["prog"]))
        if a is not None:
            rk = a["res"].split(":")[0]
            stats["res"][rk] = stats["res"].get(rk, 0) + 1
            stats["mode"][c["mode"]] = stats["mode"].get(c["mode"], 0) + 1
            stats["pre"][c["pre"]] = stats["pre"].get(c["pre"], 0) + 1
            stats["api"][c["api"]] = stats["api"].get(c["api"], 0) + 1
            ll = min(len([e for e in a["log"].split(",") if e]), 30) // 5 * 5
            stats["log_len"][ll] = stats["log_len"].get(ll, 0) + 1
            if rk == "intr" or (c["api"] == "errstr" and c["k"] > 0 and a["res"] == "errstr:placeholder"):
                interrupted += 1
                # distinct non-trivial = an interrupted run, keyed by program, api, cut position and pre-state
                ctx.nontriv((c["prog"], c["api"], a["log"], c["pre"]))
        if may_leak(c["prog"]):
            stats["gen_async_cases"] += 1
        # (a) correspondence model vs implementation: result, event log and post-state, exactly
        if model_out is not None:
            if a is None or m is None:
                disagree.append((i, "unparsable"))
            elif a["res"] != m["res"] or a["log"] != m["log"]:
                disagree.append((i, "res/log"))
            elif tail(a) != tail(m):
                disagree.append((i, "state"))
        # (b) the property itself
        sym = spec_judge(c, a, b)
        if sym is not None:
            failing.append((i, c, sym, a))
        if len(ctx.samples) < 6 and a is not None and a["res"].startswith("intr") and i % 37 == 0:
            ctx.sample({"case": lines[i], "impl": impl_out[i]})
    stats["interrupted_runs"] = interrupted
    ctx.stats["deterministic"] = stats
    ctx.stats["programs"] = len(progs)
    ctx.stats["cases"] = len(all_cases)
    # shrink the first disagreement (model vs implementation) to a minimal program
    shrunk_dis = ""
    if disagree and model:
        i0, why0 = disagree[0]
        c0 = all_cases[i0]
        tree = trees.get(c0["prog"])

        def differs(t):
            l = case_line(dict(c0, prog=render(t)))
            rc1, o1, _ = run_harness(ctx, h, [l], timeout=60)
            rc2, o2, _ = ctx.run_lines([model], [l], timeout=60)
            if rc1 != 0 or rc2 != 0 or len(o1) != 1 or len(o2) != 1:
                return False
            a1, m1 = parse_ans(o1[0]), parse_ans(o2[0])
            if a1 is None or m1 is None:
                return False
            return a1["res"] != m1["res"] or a1["log"] != m1["log"] or tail(a1) != tail(m1)
        if tree is not None and differs(tree):
            steps, progress = 0, True
            while progress and steps < 1500:
                progress = False
                for cand in shrink_candidates(tree):
                    steps += 1
                    if steps > 1500:
                        break
                    if differs(cand):
                        tree, progress = cand, True
                        break
            l = case_line(dict(c0, prog=render(tree)))
            _, o1, _ = run_harness(ctx, h, [l])
            _, o2, _ = ctx.run_lines([model], [l])
            shrunk_dis = "SHRUNK: %s -> impl[%s] model[%s]; " % (l, o1[0] if o1 else "?", o2[0] if o2 else "?")
    ctx.obligation("corr:probe-point-interrupts", "correspondence", not disagree, shrunk_dis +
                   "; ".join("%s -> impl[%s] model[%s] (%s)" % (lines[i], impl_out[i], model_out[i] if model_out else "-", why)
                             for i, why in disagree[:3]))

    # violations (shrunk)
    def fails_with(prog_tree, c, sym):
        txt = render(prog_tree)
        b = dict(c, k=0, v=0, mode="self", pre="none", w=0, prog=txt)
        t = dict(c, prog=txt)
        rc, o, _ = run_harness(ctx, h, [case_line(b), case_line(t)], timeout=60)
        if rc != 0 or len(o) != 2:
            return False
        return spec_judge(t, parse_ans(o[1]), parse_ans(o[0])) == sym

    reported = set()
    for i, c, sym, a in failing:
        known = False
        sig = "%s:%s" % (sym, c["pre"] if c["pre"] != "none" else "probe")
        if sig in reported:
            continue
        reported.add(sig)
        cc = dict(c)
        tree = trees.get(c["prog"])
        if tree is not None and not known:
            steps = 0
            progress = True
            while progress and steps < 60:
                progress = False
                for cand in shrink_candidates(tree):
                    steps += 1
                    if steps > 400:
                        break
                    if fails_with(cand, cc, sym):
                        tree = cand
                        progress = True
                        break
            cc["prog"] = render(tree)
        b = base.get((c["api"], c["prog"]))
        ctx.violation(sig, "%s: %s -> %s" % (sym, case_line(cc), impl_out[i] if cc["prog"] == c["prog"] else "(shrunk)"),
                      {"kind": "schedule", "lines": [case_line(dict(cc, k=0, v=0, mode="self", pre="none", w=0)), case_line(cc)],
                       "symptom": sym, "expected": "InterruptedError(v) at the k-th probe, log cut there, then " + CLEAN_TAIL,
                       "observed": impl_out[i], "uninterrupted": b})
    ctx.stats["spec_judge_failures"] = len(failing)
    ctx.stats["spec_judge_failures_by_symptom"] = {}
    for _, _, sym, _ in failing:
        key = sym
        ctx.stats["spec_judge_failures_by_symptom"][key] = ctx.stats["spec_judge_failures_by_symptom"].get(key, 0) + 1

    # 3b. deterministic interrupts at the n-th native call of fixed scripts (the soak scripts), judged against the spec
    TICK_SCRIPTS = ["loop", "tryfinally", "nestedfinally", "foreach", "getter", "generator", "iterator", "iterator-native-return", "sort", "job",
                    "jobchain", "nested", "callgo", "async", "asyncchain", "asyncchain3", "catchloop"]
    nmax = 8 if quick else 40
    tlines = []
    for sc in TICK_SCRIPTS:
        for n in range(1, nmax + 1):
            tlines.append("tickcase %s %d %d" % (sc, n, ctx.rng.randint(1, 900)))
    rc, tout, err = run_harness(ctx, h, tlines, timeout=300)
    tick_fail = {}
    if rc != 0 or len(tout) != len(tlines):
        ctx.obligation("corr:tickcases-ran", "correspondence", False, "rc=%d %s" % (rc, err[-400:]))
    else:
        for l, o in zip(tlines, tout):
            ctx.count()
            _, sc, n, v = l.split()
            m = re.match(r"res=(\S+) ticks=(\d+) bad=(\d+) st=(\S+) after=(\S+) ticks2=(\d+) post=(\S+)$", o)
            sym = None
            if not m:
                sym = "harness-error"
            elif m.group(1) != "intr:" + v:
                sym = "wrong-result"
            elif m.group(2) != n:
                sym = "script-code-ran-after-interrupt"
            elif m.group(3) != "0":
                sym = "catch-or-finally-ran"
            elif m.group(4) != "0/0/0/0/0" or m.group(5) != "ok" or m.group(6) != "1":
                sym = "unclean-after"
            elif m.group(7) != "ok":
                sym = m.group(7).split(":")[0]
            else:
                ctx.nontriv(("tick", sc, n))
            if sym:
                tick_fail.setdefault((sc, sym), []).append((l, o))
        for (sc, sym), lst in sorted(tick_fail.items()):
            l, o = lst[0]
            if True:
                ctx.violation("tickcase:%s:%s" % (sc, sym), "%s: %s -> %s (%d cases)" % (sym, l, o, len(lst)),
                              {"kind": "schedule", "lines": [l], "symptom": sym, "observed": o,
                               "expected": "res=intr:%s ticks=%s bad=0 st=0/0/0/0/0 after=ok ticks2=1 post=ok" % (l.split()[3], l.split()[2])})
    ctx.stats["tickcases"] = {"cases": len(tlines), "failing": {"%s/%s" % k: len(v) for k, v in tick_fail.items()}}

    # 3c. the second run loop: the same kind of cases with the profiler enabled, so that vm.run() delegates to
    #     vm.runWithProfiler() (executed, not only shape-tied).  Model and spec judge are the same.
    pidx = [i for i, c in enumerate(all_cases) if c.get("corpus")] + list(range(len(base_cases), len(all_cases), 5 if quick else 3))
    pidx = sorted(set(pidx))
    plines = ["profile on"] + [lines[i] for i in pidx] + [l for l in tlines if int(l.split()[2]) <= (3 if quick else 12)] + ["profile off"]
    rc, pout, err = run_harness(ctx, h, plines, timeout=600)
    prof_bad = []
    if rc != 0 or len(pout) != len(plines) or pout[0] != "profile on" or pout[-1] != "profile off":
        ctx.obligation("corr:profiler-run", "correspondence", False, "rc=%d %s %s" % (rc, pout[:1], err[-300:]))
    else:
        pm = None
        if model:
            rc2, pm, _ = ctx.run_lines([model], plines)
            if rc2 != 0 or len(pm) != len(plines):
                pm = None
        for j, i in enumerate(pidx, start=1):
            ctx.count()
            c = all_cases[i]
            a = parse_ans(pout[j])
            m = parse_ans(pm[j]) if pm else None
            sym = spec_judge(c, a, base.get((c["api"], c["prog"])))
            if sym is not None:
                prof_bad.append((plines[j], pout[j], "spec:" + sym))
            elif m is not None and (a["res"] != m["res"] or a["log"] != m["log"] or tail(a) != tail(m)):
                prof_bad.append((plines[j], pout[j], "model:" + pm[j]))
        for j in range(1 + len(pidx), len(plines) - 1):
            ctx.count()
            _, sc, n, v = plines[j].split()
            exp = "res=intr:%s ticks=%s bad=0 st=0/0/0/0/0 after=ok ticks2=1 post=ok" % (v, n)
            if pout[j] != exp:
                prof_bad.append((plines[j], pout[j], "spec:tickcase expected " + exp))
        ctx.obligation("corr:profiler-run", "correspondence", True, "")
        for l, o, why in prof_bad[:1]:
            ctx.violation("profiler-loop:" + why.split(":")[1].split()[0], "with the profiler enabled (vm.runWithProfiler): %s -> %s (%s; %d cases)" % (l, o, why, len(prof_bad)),
                          {"kind": "schedule", "lines": ["profile on", l, "profile off"], "observed": o, "why": why})
    ctx.stats["profiler_loop"] = {"cases": len(plines) - 2, "failing": len(prof_bad)}
    ctx.log("deterministic part done: %d cases, %d disagreements, %d spec failures" % (len(all_cases), len(disagree), len(failing)))
    # 4. asynchronous soak
    race = not quick
    hs = hs_race if race else h
    if hs is None:
        for t in threads:
            t.join()
        return ctx.finish(level="proof", rule="race harness did not build")
    shards = 4 if quick else 16
    rounds = 150 if quick else 2500
    procs = []
    env = dict(os.environ)
    env["GORACE"] = "halt_on_error=0"
    for s in range(shards):
        line = "soak %d %d %d\n" % (ctx.seed * 1000 + s, rounds, 400)
        penv = dict(env)
        if s == shards - 1:
            penv["C15_PROFILE"] = "1"      # the last shard runs under the profiler: vm.runWithProfiler is the run loop
        p = subprocess.Popen([hs], stdin=subprocess.PIPE, stdout=subprocess.PIPE, stderr=subprocess.PIPE, text=True, env=penv)
        p.stdin.write(line)
        p.stdin.close()
        p.stdin = None            # so that communicate() below does not touch the closed pipe
        procs.append((line.strip(), p))
    soak = {"rounds": 0, "bad": 0, "maxextra": 0, "extra0": 0, "extra1": 0, "fails": {}, "kinds": {}, "race_build": race}
    races = []
    soak_err = []
    for line, p in procs:
        try:
            out, errt = p.communicate(timeout=900 if quick else 3000)
        except subprocess.TimeoutExpired:
            # slow machine: inconclusive, never a verdict (a call that does not return after an interrupt is detected
            # inside the harness, per round, and reported as the symptom `hang`)
            p.kill()
            p.communicate()
            soak.setdefault("inconclusive_shards", []).append(line)
            continue
        except Exception as e:
            soak_err.append("%s: %s" % (line, e))
            continue
        if "DATA RACE" in errt:
            races.append((line, errt[:3000]))
        m = re.search(r"soak bad=(\d+) rounds=(\d+) maxextra=(\d+) extra0=(\d+) extra1=(\d+) kinds=(\S*) fails=(\S*)(?: first=(.*))?", out)
        if not m:
            soak_err.append("%s: rc=%s out=%s err=%s" % (line, p.returncode, out[-300:], errt[-300:]))
            continue
        soak["bad"] += int(m.group(1)); soak["rounds"] += int(m.group(2))
        soak["maxextra"] = max(soak["maxextra"], int(m.group(3)))
        soak["extra0"] += int(m.group(4)); soak["extra1"] += int(m.group(5))
        for kv in m.group(6).split(","):
            if kv:
                k_, n_ = kv.rsplit(":", 1)
                soak["kinds"][k_] = soak["kinds"].get(k_, 0) + int(n_)
        for kv in m.group(7).split(","):
            if kv:
                k_, n_ = kv.rsplit(":", 1)
                soak["fails"][k_] = soak["fails"].get(k_, 0) + int(n_)
                soak.setdefault("first", {}).setdefault(k_, (line, m.group(8)))
        ctx.count(int(m.group(2)))
    ctx.stats["soak"] = soak
    if soak.get("inconclusive_shards"):
        ctx.assumptions.append("soak shards that did not finish within the time budget (inconclusive, not counted): %s" % soak["inconclusive_shards"])
    ctx.obligation("soak:ran", "correspondence", not soak_err and soak["rounds"] > 0, "; ".join(soak_err)[:1500] or "no soak shard finished")
    for key, n in sorted(soak["fails"].items()):
        kind, sym = key.split("/")
        line, first = soak["first"][key]
        if True:
            ctx.violation("soak:%s" % key, "asynchronous interrupt: %s (%d rounds) e.g. %s" % (key, n, first),
                          {"kind": "schedule", "lines": [line], "symptom": sym, "observed": first,
                           "note": "re-run the soak line; scheduling dependent"})
    for line, txt in races[:1]:
        ctx.violation("data-race", "race detector report during the interrupt soak",
                      {"kind": "schedule", "lines": [line], "race_report": txt})
    if race:
        ctx.stats["race_reports"] = len(races)

    for t in threads:
        t.join()
    return ctx.finish(
        level="proof",
        rule="deterministic: %d generated programs (seeded) x three entry points (RunString, Callable, Runtime.Try) x every probe index k up to %d (+ sampled larger k, + one k beyond the last probe) "
             "x interrupter in {runner goroutine, runner twice (last value wins), 2nd goroutine}, plus idle Interrupt with/without ClearInterrupt; a case counts as distinct "
             "non-trivial iff the call was actually interrupted, keyed by (program, entry point, event-log cut, pre-state). soak: random delays, %d shards x %d rounds%s"
             % (len(progs), kcap, shards, rounds, " under -race" if race else ""),
        explanation="theorems are about the model Intr (interleaving semantics + sequential VM-control mechanism); `prompt` counts VM instructions; `intr_drf` is about the regenerated access table")


def replay(ctx, path):
    with open(path) as f:
        r = json.load(f)
    lines = r.get("lines", [])
    if not lines:
        print(json.dumps(r, indent=1))
        return 0
    h = ctx.go_build()
    ctx.lake_build(["model_c15"])
    rc, io, err = ctx.run_lines([h], lines)
    mo = []
    if os.path.exists(ctx.model_exe()):
        _, mo, _ = ctx.run_lines([ctx.model_exe()], lines)
    for i, l in enumerate(lines):
        print("line  :", l)
        print("impl  :", io[i] if i < len(io) else "?")
        print("model :", mo[i] if i < len(mo) else "?")
    print("expected:", r.get("expected"))
    return 0
