#!/usr/bin/env python3
"""
c02gen — type- and scope-directed generator of MiniJS programs for the C02 check, the JS printer
(for goja), the S-expression printer (for the Lean model driver, format of
lean/GojaModel/C02/Driver.lean) and the metamorphic rewrites (variants) of the catalogue.

AST = nested tuples with the tags of the S-expression format, except that function literals are
nested:  ('func', FD)  /  ('fdecl', name, FD)  with FD = dict(kind, params=[(name, default|None)],
rest=name|None, body=[stmt], exprbody=bool).  ('raw', js) / ('eraw', js) are statements/expressions
outside MiniJS (printed verbatim for goja, `opaque` for the model).
"""
import json, random, copy

# ------------------------------------------------------------------------------------------ printing

BINOPS = {'add': '+', 'sub': '-', 'mul': '*', 'mod': '%', 'lt': '<', 'le': '<=', 'gt': '>', 'ge': '>=',
          'seq': '===', 'sne': '!=='}
LOGOPS = {'and': '&&', 'or': '||', 'nullish': '??'}
UNOPS = {'neg': '-', 'plus': '+', 'not': '!', 'typeof': 'typeof ', 'void': 'void '}


def js_fd(fd, name=None):
    ps = []
    for (x, d) in fd['params']:
        ps.append(x if d is None else '%s = %s' % (x, js_e(d)))
    if fd['rest']:
        ps.append('...' + fd['rest'])
    if fd['kind'] == 'arrow':
        if fd.get('exprbody'):
            b = js_e(fd['body'][0][1])
            if b.startswith('{'):
                b = '(' + b + ')'
            return '((%s) => %s)' % (', '.join(ps), b)
        return '((%s) => { %s })' % (', '.join(ps), js_ss(fd['body']))
    if fd.get('method'):
        return '(%s) { %s }' % (', '.join(ps), js_ss(fd['body']))
    if name is not None:
        return 'function %s(%s) { %s }' % (name, ', '.join(ps), js_ss(fd['body']))
    return '(function (%s) { %s })' % (', '.join(ps), js_ss(fd['body']))


def js_e(e):
    t = e[0]
    if t == 'undef': return 'undefined'
    if t == 'null': return 'null'
    if t == 'bool': return 'true' if e[1] else 'false'
    if t == 'num': return str(e[1]) if e[1] >= 0 else '(%d)' % e[1]
    if t == 'str': return json.dumps(e[1])
    if t == 'var': return e[1]
    if t == 'evalvar': return 'eval(%s)' % json.dumps(e[1])      # direct eval of an identifier = the identifier
    if t == 'this': return 'this'
    if t == 'func': return js_fd(e[1])
    if t == 'log': return 'log(%s)' % js_e(e[1])
    if t == 'un': return '(%s%s)' % (UNOPS[e[1]], js_e(e[2]))
    if t == 'bin': return '(%s %s %s)' % (js_e(e[2]), BINOPS[e[1]], js_e(e[3]))
    if t == 'logic':
        a, b = js_e(e[2]), js_e(e[3])
        return '(%s %s %s)' % (a, LOGOPS[e[1]], b)
    if t == 'cond': return '(%s ? %s : %s)' % (js_e(e[1]), js_e(e[2]), js_e(e[3]))
    if t == 'comma': return '(%s, %s)' % (js_e(e[1]), js_e(e[2]))
    if t == 'assign': return '(%s = %s)' % (e[1], js_e(e[2]))
    if t == 'assignop': return '(%s %s= %s)' % (e[2], BINOPS[e[1]], js_e(e[3]))
    if t == 'update':
        op = '++' if e[1] else '--'
        return '(%s%s)' % (op, e[3]) if e[2] else '(%s%s)' % (e[3], op)
    if t == 'call': return '%s(%s)' % (js_callee(e[1]), ', '.join(js_e(a) for a in e[2]))
    if t == 'mcall': return '%s.%s(%s)' % (js_e(e[1]), e[2], ', '.join(js_e(a) for a in e[3]))
    if t == 'obj':
        ps = []
        for (k, name, v) in e[1]:
            if k == 'data':
                ps.append('%s: %s' % (name, js_e(v)))
            else:
                fd = dict(v[1]); fd['method'] = True
                ps.append('%s %s%s' % ('get' if k == 'getter' else 'set', name, js_fd(fd)))
        return '({%s})' % ', '.join(ps)
    if t == 'arr': return '[%s]' % ', '.join(js_e(a) for a in e[1])
    if t == 'get': return '%s.%s' % (js_e(e[1]), e[2])
    if t == 'idx': return '%s[%s]' % (js_e(e[1]), js_e(e[2]))
    if t == 'set': return '(%s.%s = %s)' % (js_e(e[1]), e[2], js_e(e[3]))
    if t == 'setidx': return '(%s[%s] = %s)' % (js_e(e[1]), js_e(e[2]), js_e(e[3]))
    if t == 'eraw': return e[1]
    raise ValueError('js_e ' + repr(e))


def js_callee(f):
    # a member expression in callee position would turn the call into a method call (this = base);
    # the model's `call` passes this = undefined, so break the reference with the comma operator
    if f[0] in ('get', 'idx'):
        return '(0, %s)' % js_e(f)
    return js_e(f)


def js_declrs(ds):
    return ', '.join(d[1] if len(d) == 2 else '%s = %s' % (d[1], js_e(d[2])) for d in ds)


def js_s(s):
    t = s[0]
    if t == 'expr':
        x = js_e(s[1])
        if x.startswith('function') or x.startswith('{') or x.startswith('let'):
            x = '(' + x + ')'
        return x + ';'
    if t == 'decl': return '%s %s;' % (s[1], js_declrs(s[2]))
    if t == 'fdecl': return js_fd(s[2], s[1])
    if t == 'empty': return ';'
    if t == 'block': return '{ %s }' % js_ss(s[1])
    if t == 'if':
        if s[3][0] == 'empty':
            return 'if (%s) %s' % (js_e(s[1]), js_s(s[2]))
        return 'if (%s) %s else %s' % (js_e(s[1]), js_s(s[2]), js_s(s[3]))
    if t == 'while': return 'while (%s) %s' % (js_e(s[1]), js_s(s[2]))
    if t == 'do': return 'do %s while (%s);' % (js_s(s[1]), js_e(s[2]))
    if t == 'for':
        i = s[1]
        ini = '' if i[0] == 'none' else (js_e(i[1]) if i[0] == 'expr' else '%s %s' % (i[1], js_declrs(i[2])))
        return 'for (%s; %s; %s) %s' % (ini, '' if s[2] is None else js_e(s[2]),
                                        '' if s[3] is None else js_e(s[3]), js_s(s[4]))
    if t == 'forof': return 'for (%s %s of %s) %s' % (s[1], s[2], js_e(s[3]), js_s(s[4]))
    if t == 'break': return 'break%s;' % ('' if s[1] is None else ' ' + s[1])
    if t == 'continue': return 'continue%s;' % ('' if s[1] is None else ' ' + s[1])
    if t == 'return': return 'return;' if s[1] is None else 'return %s;' % js_e(s[1])
    if t == 'throw': return 'throw %s;' % js_e(s[1])
    if t == 'try':
        r = 'try { %s }' % js_ss(s[1])
        if s[2]:
            r += (' catch { %s }' if s[3] is None else ' catch (' + s[3] + ') { %s }') % js_ss(s[4])
        if s[5]:
            r += ' finally { %s }' % js_ss(s[6])
        return r
    if t == 'label': return '%s: %s' % (s[1], js_s(s[2]))
    if t == 'switch':
        cs = []
        for (test, body) in s[2]:
            cs.append(('default:' if test is None else 'case %s:' % js_e(test)) + ' ' + js_ss(body))
        return 'switch (%s) { %s }' % (js_e(s[1]), ' '.join(cs))
    if t == 'raw': return s[1]
    raise ValueError('js_s ' + repr(s))


def js_ss(ss):
    return ' '.join(js_s(s) for s in ss)


def to_js(prog):
    return js_ss(prog['body'])


class SX:
    """S-expression printer with function-table flattening."""

    def __init__(self):
        self.funs = []

    def fd(self, fd):
        idx = len(self.funs)
        self.funs.append(None)
        ps = ' '.join('(p %s)' % x if d is None else '(p %s %s)' % (x, self.e(d)) for (x, d) in fd['params'])
        body = self.ss(fd['body'])
        self.funs[idx] = '(fn %s (%s) %s (%s))' % (fd['kind'], ps, fd['rest'] or '_', body)
        return idx

    def e(self, e):
        t = e[0]
        if t in ('undef', 'null', 'this'): return '(%s)' % t
        if t == 'bool': return '(bool %d)' % (1 if e[1] else 0)
        if t == 'num': return '(num %d)' % e[1]
        if t == 'str': return '(str %s)' % json.dumps(e[1])
        if t in ('var', 'evalvar'): return '(var %s)' % e[1]
        if t == 'func': return '(func %d)' % self.fd(e[1])
        if t == 'log': return '(log %s)' % self.e(e[1])
        if t == 'un' and e[1] == 'typeof' and e[2][0] == 'evalvar':
            return '(un typeof (comma (undef) (var %s)))' % e[2][1]      # an ordinary read (throws if unresolvable)
        if t == 'un': return '(un %s %s)' % (e[1], self.e(e[2]))
        if t in ('bin', 'logic'): return '(%s %s %s %s)' % (t, e[1], self.e(e[2]), self.e(e[3]))
        if t == 'cond': return '(cond %s %s %s)' % (self.e(e[1]), self.e(e[2]), self.e(e[3]))
        if t == 'comma': return '(comma %s %s)' % (self.e(e[1]), self.e(e[2]))
        if t == 'assign': return '(assign %s %s)' % (e[1], self.e(e[2]))
        if t == 'assignop': return '(assignop %s %s %s)' % (e[1], e[2], self.e(e[3]))
        if t == 'update': return '(update %d %d %s)' % (1 if e[1] else 0, 1 if e[2] else 0, e[3])
        if t == 'call': return '(call %s (%s))' % (self.e(e[1]), ' '.join(self.e(a) for a in e[2]))
        if t == 'mcall': return '(mcall %s %s (%s))' % (self.e(e[1]), e[2], ' '.join(self.e(a) for a in e[3]))
        if t == 'obj': return '(obj (%s))' % ' '.join('(%s %s %s)' % (k, n, self.e(v)) for (k, n, v) in e[1])
        if t == 'arr': return '(arr (%s))' % ' '.join(self.e(a) for a in e[1])
        if t == 'get': return '(get %s %s)' % (self.e(e[1]), e[2])
        if t == 'idx': return '(idx %s %s)' % (self.e(e[1]), self.e(e[2]))
        if t == 'set': return '(set %s %s %s)' % (self.e(e[1]), e[2], self.e(e[3]))
        if t == 'setidx': return '(setidx %s %s %s)' % (self.e(e[1]), self.e(e[2]), self.e(e[3]))
        if t == 'eraw': return '(opaque "raw")'
        raise ValueError('sx_e ' + repr(e))

    def oe(self, e):
        return '_' if e is None else self.e(e)

    def declrs(self, ds):
        return ' '.join('(d %s)' % d[1] if len(d) == 2 else '(d %s %s)' % (d[1], self.e(d[2])) for d in ds)

    def s(self, s):
        t = s[0]
        if t == 'expr': return '(expr %s)' % self.e(s[1])
        if t == 'decl': return '(decl %s (%s))' % (s[1], self.declrs(s[2]))
        if t == 'fdecl': return '(fdecl %s %d)' % (s[1], self.fd(s[2]))
        if t == 'empty': return '(empty)'
        if t == 'block': return '(block (%s))' % self.ss(s[1])
        if t == 'if': return '(if %s %s %s)' % (self.e(s[1]), self.s(s[2]), self.s(s[3]))
        if t == 'while': return '(while %s %s)' % (self.e(s[1]), self.s(s[2]))
        if t == 'do': return '(do %s %s)' % (self.s(s[1]), self.e(s[2]))
        if t == 'for':
            i = s[1]
            ini = '(none)' if i[0] == 'none' else ('(expr %s)' % self.e(i[1]) if i[0] == 'expr'
                                                    else '(decl %s (%s))' % (i[1], self.declrs(i[2])))
            return '(for %s %s %s %s)' % (ini, self.oe(s[2]), self.oe(s[3]), self.s(s[4]))
        if t == 'forof': return '(forof %s %s %s %s)' % (s[1], s[2], self.e(s[3]), self.s(s[4]))
        if t in ('break', 'continue'): return '(%s %s)' % (t, s[1] or '_')
        if t == 'return': return '(return %s)' % self.oe(s[1])
        if t == 'throw': return '(throw %s)' % self.e(s[1])
        if t == 'try':
            return '(try (%s) %d %s (%s) %d (%s))' % (self.ss(s[1]), 1 if s[2] else 0, s[3] or '_',
                                                     self.ss(s[4]), 1 if s[5] else 0, self.ss(s[6]))
        if t == 'label': return '(label %s %s)' % (s[1], self.s(s[2]))
        if t == 'switch':
            return '(switch %s (%s))' % (self.e(s[1]), ' '.join('(case %s (%s))' % (self.oe(c[0]), self.ss(c[1])) for c in s[2]))
        if t == 'raw': return '(sopaque "raw")'
        raise ValueError('sx_s ' + repr(s))

    def ss(self, ss):
        return ' '.join(self.s(x) for x in ss)


def to_sexp(prog, strict):
    sx = SX()
    body = sx.ss(prog['body'])
    return '(prog %d (%s) (%s))' % (1 if strict else 0, ' '.join(sx.funs), body)


# ------------------------------------------------------------------------------------------ generator

FIELDS = ['a', 'b', 'c', 'p', 'q']
SHADOW_POOL = ['x', 'y', 'z', 'w']
STRS = ['', 'a', 'b', 'ab', 'k', 'zz', 'hi']


class Var:
    def __init__(self, name, kind, ty, assignable=True):
        self.name, self.kind, self.ty, self.assignable = name, kind, ty, assignable


class Scope:
    """One lexical scope: declared names -> Var (only those already usable), plus pending lexicals."""

    def __init__(self, parent, is_fun=False):
        self.parent, self.is_fun = parent, is_fun
        self.vars = {}
        self.lex_names = set()      # names lexically declared in this scope (to avoid redeclaration)
        self.pending = []           # let/const names declared later in this scope (TDZ material)

    def lookup_all(self):
        out, s, seen = [], self, set()
        while s is not None:
            for n, v in s.vars.items():
                if n not in seen:
                    seen.add(n)
                    out.append(v)
            s = s.parent
        return out

    def visible_names(self):
        return [v.name for v in self.lookup_all()]


class Gen:
    def __init__(self, rng, size=1.0):
        self.r = rng
        self.ctr = 0
        self.size = size
        self.budget = 0
        self.nfun = 0

    # -- names
    def fresh(self, prefix='v'):
        self.ctr += 1
        return '%s%d' % (prefix, self.ctr)

    def lex_name(self, scope):
        """Name for a let/const/param: sometimes shadow an outer let/const/param name."""
        if self.r.random() < 0.25:
            n = self.r.choice(SHADOW_POOL)
            if n not in scope.lex_names:
                return n
        return self.fresh()

    def chance(self, p):
        return self.r.random() < p

    # -- expressions
    def vars_of(self, scope, pred):
        return [v for v in scope.lookup_all() if pred(v)]

    def lit(self, ty):
        r = self.r
        if ty == 'num': return ('num', r.choice([0, 1, 2, 3, 5, 7, 10, -1, -4, 12]))
        if ty == 'str': return ('str', r.choice(STRS))
        if ty == 'bool': return ('bool', r.random() < 0.5)
        return r.choice([('undef',), ('null',), ('num', 4), ('str', 'u'), ('bool', True)])

    def expr(self, scope, ty, d=0):
        """Expression of static type ty in {'num','str','bool','any'}."""
        r = self.r
        self.budget -= 1
        if ty == 'any':
            c = r.random()
            if c < 0.75:
                return self.expr(scope, r.choice(['num', 'num', 'str', 'bool']), d)
            if c < 0.85:
                return self.lit('any')
            vs = self.vars_of(scope, lambda v: v.ty not in ('loopctr',))
            if vs and c < 0.97:
                return ('var', r.choice(vs).name)
            return ('un', 'void', self.expr(scope, 'num', d + 1))
        deep = d >= 3 or self.budget <= 0
        vs = self.vars_of(scope, lambda v: v.ty == ty or (ty == 'num' and v.ty == 'loopctr'))
        if deep or r.random() < 0.3:
            if vs and r.random() < 0.7:
                if r.random() < 0.06:
                    return ('evalvar', r.choice(vs).name)    # live direct eval: the scope becomes dynamic
                return ('var', r.choice(vs).name)
            return self.lit(ty)
        c = r.random()
        if ty == 'num':
            if c < 0.30:
                op = r.choice(['add', 'add', 'sub', 'mul', 'mod'])
                if op == 'mod':
                    return ('bin', 'mod', self.expr(scope, 'num', d + 1), ('num', r.choice([2, 3, 5])))
                if op == 'mul':
                    return ('bin', 'mul', self.expr(scope, 'num', d + 2), ('num', r.choice([2, 3, -1])))
                return ('bin', op, self.expr(scope, 'num', d + 1), self.expr(scope, 'num', d + 1))
            if c < 0.38:
                return ('cond', self.expr(scope, 'bool', d + 1), self.expr(scope, 'num', d + 1), self.expr(scope, 'num', d + 1))
            if c < 0.50:
                ws = [v for v in vs if v.assignable and v.kind != 'const' and v.ty == 'num']
                if ws:
                    v = r.choice(ws)
                    k = r.random()
                    if k < 0.4: return ('update', r.random() < 0.7, r.random() < 0.5, v.name)
                    if k < 0.7: return ('assign', v.name, self.expr(scope, 'num', d + 1))
                    return ('assignop', r.choice(['add', 'sub']), v.name, self.expr(scope, 'num', d + 1))
            if c < 0.64:
                fs = self.vars_of(scope, lambda v: isinstance(v.ty, tuple) and v.ty[0] == 'fun')
                if fs:
                    f = r.choice(fs)
                    n = f.ty[1] + r.choice([0, 0, 0, 0, 0, 0, 0, 0, -1, 1, 1])
                    mask = f.ty[2] if len(f.ty) > 2 else ()
                    args = []
                    for i in range(max(0, n)):
                        if i < len(mask) and mask[i] and r.random() < 0.45:
                            args.append(('undef',))          # triggers the parameter initialiser
                        else:
                            args.append(self.expr(scope, 'num', d + 1))
                    while args and len(args) <= len(mask) and mask[len(args) - 1] and r.random() < 0.3:
                        args.pop()                            # omit trailing defaulted arguments
                    return ('call', ('var', f.name), args)
            if c < 0.76:
                os_ = self.vars_of(scope, lambda v: isinstance(v.ty, tuple) and v.ty[0] == 'obj')
                if os_:
                    o = r.choice(os_)
                    numf = [k for k, t in o.ty[1].items() if t == 'num']
                    meth = [k for k, t in o.ty[1].items() if t == 'meth']
                    if meth and r.random() < 0.35:
                        return ('mcall', ('var', o.name), r.choice(meth), [self.expr(scope, 'num', d + 1)])
                    if numf:
                        k = r.choice(numf)
                        if r.random() < 0.25:
                            return ('set', ('var', o.name), k, self.expr(scope, 'num', d + 1))
                        if r.random() < 0.2:
                            return ('idx', ('var', o.name), ('str', k))
                        return ('get', ('var', o.name), k)
            if c < 0.84:
                as_ = self.vars_of(scope, lambda v: v.ty == ('arr',))
                if as_:
                    a = r.choice(as_)
                    k = r.random()
                    if k < 0.3: return ('get', ('var', a.name), 'length')
                    if k < 0.5: return ('setidx', ('var', a.name), ('get', ('var', a.name), 'length'), self.expr(scope, 'num', d + 1))
                    return ('logic', 'nullish', ('idx', ('var', a.name), ('num', r.choice([0, 1, 2]))), ('num', -7))
            if c < 0.90:
                return ('un', 'neg', self.expr(scope, 'num', d + 1))
            if c < 0.95:
                return ('comma', self.expr(scope, 'any', d + 1), self.expr(scope, 'num', d + 1))
            return ('logic', r.choice(['and', 'or']), self.expr(scope, 'num', d + 1), self.expr(scope, 'num', d + 1))
        if ty == 'str':
            if c < 0.45:
                if r.random() < 0.5:
                    return ('bin', 'add', self.expr(scope, 'str', d + 1), self.expr(scope, r.choice(['num', 'str', 'bool']), d + 1))
                return ('bin', 'add', self.expr(scope, r.choice(['num', 'bool', 'str']), d + 1), self.expr(scope, 'str', d + 1))
            if c < 0.65:
                if r.random() < 0.5:
                    names = scope.visible_names()
                    if names and r.random() < 0.8:
                        return ('un', 'typeof', ('var', r.choice(names)))
                    return ('un', 'typeof', ('var', 'nope' + str(r.randrange(3))))
                return ('un', 'typeof', self.expr(scope, 'any', d + 1))
            if c < 0.8:
                return ('cond', self.expr(scope, 'bool', d + 1), self.expr(scope, 'str', d + 1), self.expr(scope, 'str', d + 1))
            ws = [v for v in vs if v.assignable and v.kind != 'const']
            if ws:
                v = r.choice(ws)
                if r.random() < 0.5:
                    return ('assignop', 'add', v.name, self.expr(scope, r.choice(['str', 'num']), d + 1))
                return ('assign', v.name, self.expr(scope, 'str', d + 1))
            return self.lit('str')
        if ty == 'bool':
            if c < 0.5:
                t = r.choice(['num', 'num', 'str'])
                return ('bin', r.choice(['lt', 'le', 'gt', 'ge']), self.expr(scope, t, d + 1), self.expr(scope, t, d + 1))
            if c < 0.7:
                t = r.choice(['num', 'str', 'bool', 'any'])
                return ('bin', r.choice(['seq', 'sne']), self.expr(scope, t, d + 1), self.expr(scope, 'any' if r.random() < 0.2 else t, d + 1))
            if c < 0.85:
                return ('un', 'not', self.expr(scope, 'any', d + 1))
            return ('logic', r.choice(['and', 'or']), self.expr(scope, 'bool', d + 1), self.expr(scope, 'bool', d + 1))
        raise ValueError(ty)

    def faulty_expr(self, scope):
        """An expression that (probably) throws a native error."""
        r = self.r
        c = r.random()
        if c < 0.3:
            return ('var', 'undecl' + str(r.randrange(3)))                      # ReferenceError
        if c < 0.5 and scope.pending:
            return ('var', r.choice(scope.pending))                             # TDZ
        if c < 0.7:
            cs = self.vars_of(scope, lambda v: v.kind == 'const' and v.ty == 'num')
            if cs:
                return ('assign', r.choice(cs).name, ('num', 1))                # TypeError (const)
        if c < 0.85:
            ns = self.vars_of(scope, lambda v: v.ty == 'num')
            if ns:
                return ('call', ('var', r.choice(ns).name), [])                 # not a function
        return ('get', r.choice([('undef',), ('null',)]), 'a')                   # property of undefined

    # -- functions
    def fundef(self, scope, kind=None, nparams=None, want_this=False):
        r = self.r
        self.nfun += 1
        kind = kind or r.choice(['normal', 'arrow', 'arrow'])
        fs = Scope(scope, is_fun=True)
        n = r.choice([0, 1, 1, 2, 2, 2, 3, 3]) if nparams is None else nparams
        params = []
        for i in range(n):
            x = self.lex_name(fs)
            fs.lex_names.add(x)
            d = None
            if r.random() < 0.35:
                d = self.expr(fs, 'num', 2)        # may refer to earlier parameters / outer variables
                k = r.random()
                nums = [v.name for v in fs.lookup_all() if v.ty in ('num', 'loopctr')]
                if k < 0.30 and nums:
                    d = ('evalvar', r.choice(nums))                       # direct eval in a parameter initialiser
                elif k < 0.40 and nums:
                    d = ('bin', 'add', ('evalvar', r.choice(nums)), d)
                elif k < 0.58:
                    d = ('evalvar', '__later__')                          # patched below: a LATER parameter (TDZ)
                elif k < 0.66:
                    d = ('var', '__later__')
            params.append((x, d))
            fs.vars[x] = Var(x, 'param', 'num' if d is not None or r.random() < 0.85 else 'any')
        for i, (x, d) in enumerate(params):
            if d is not None and d[0] in ('evalvar', 'var') and d[1] == '__later__':
                later = [y for (y, _) in params[i + 1:]]
                params[i] = (x, (d[0], r.choice(later)) if later else ('num', 3))
        rest = None
        if r.random() < 0.15:
            rest = self.lex_name(fs)
            fs.lex_names.add(rest)
            fs.vars[rest] = Var(rest, 'param', ('arr',))
        if want_this:
            fs.vars['this'] = Var('this', 'this', want_this, assignable=False)
        if kind == 'arrow' and r.random() < 0.4:
            body = [('return', self.expr(fs, 'num', 1))]
            return dict(kind=kind, params=params, rest=rest, body=body, exprbody=True), n
        body = self.stmts(fs, r.choice([1, 2, 3, 4]), dict(fun=True, loop=0, labels=[], looplabels=[], sw=0), top=True)
        if r.random() < 0.85:
            body.append(('return', self.expr(fs, 'num', 1)))
        return dict(kind=kind, params=params, rest=rest, body=body, exprbody=False), n

    def objlit(self, scope):
        r = self.r
        fields, props = {}, []
        for k in r.sample(FIELDS, r.choice([1, 2, 3])):
            c = r.random()
            if c < 0.6:
                props.append(('data', k, self.expr(scope, 'num', 2)))
                fields[k] = 'num'
            elif c < 0.75:
                props.append(('data', k, self.expr(scope, 'str', 2)))
                fields[k] = 'str'
            elif c < 0.9:
                fd = dict(kind='normal', params=[], rest=None, exprbody=False,
                          body=[('expr', ('log', ('str', 'get ' + k))), ('return', self.expr(scope, 'num', 2))])
                props.append(('getter', k, ('func', fd)))
                if r.random() < 0.5:
                    x = self.fresh()
                    fd2 = dict(kind='normal', params=[(x, None)], rest=None, exprbody=False,
                               body=[('expr', ('log', ('bin', 'add', ('str', 'set ' + k + ' '), ('var', x))))])
                    props.append(('setter', k, ('func', fd2)))
                fields[k] = 'num'
            else:
                # method using `this`
                numf = [f for f, t in fields.items() if t == 'num']
                x = self.fresh()
                ret = ('bin', 'add', ('var', x), ('get', ('this',), r.choice(numf))) if numf else ('var', x)
                fd = dict(kind='normal', params=[(x, None)], rest=None, exprbody=False, body=[('return', ret)])
                props.append(('data', k, ('func', fd)))
                fields[k] = 'meth'
        return ('obj', props), ('obj', fields)

    # -- statements
    def stmts(self, scope, n, ctx, top=False):
        out = []
        r = self.r
        # pre-decide some lexical names of this list, so that earlier statements can hit the TDZ
        for _ in range(n):
            if self.budget <= 0 and out:
                break
            s = self.stmt(scope, ctx, top)
            if s is None:
                continue
            if isinstance(s, list):
                out.extend(s)
            else:
                out.append(s)
        return out

    def declare(self, scope, kind, ty, init):
        r = self.r
        if kind == 'var':
            x = self.fresh()
            # a var is function-scoped: register it in the nearest function scope so later code sees it
            s = scope
            while s.parent is not None and not s.is_fun:
                s = s.parent
            s.vars[x] = Var(x, 'var', ty)
            scope.vars[x] = s.vars[x]
        else:
            x = self.lex_name(scope)
            scope.lex_names.add(x)
            scope.vars[x] = Var(x, kind, ty)
        return ('decl', kind, [('d', x, init)])

    def stmt(self, scope, ctx, top=False):
        r = self.r
        self.budget -= 1
        c = r.random()
        small = self.budget <= 0
        if c < 0.22 or small:
            k = r.random()
            if k < 0.55:
                return ('expr', ('log', self.expr(scope, 'any')))
            if k < 0.8:
                return ('expr', self.expr(scope, r.choice(['num', 'str', 'any'])))
            ws = self.vars_of(scope, lambda v: v.assignable and v.kind != 'const' and v.ty in ('num', 'str'))
            if ws:
                v = r.choice(ws)
                return ('expr', ('assign', v.name, self.expr(scope, v.ty)))
            return ('expr', ('log', self.expr(scope, 'str')))
        if c < 0.40:
            kind = r.choice(['var', 'let', 'let', 'const'])
            k = r.random()
            if k < 0.5:
                e = self.expr(scope, 'num')
                return self.declare(scope, kind, 'num', e)
            if k < 0.62:
                e = self.expr(scope, 'str')
                return self.declare(scope, kind, 'str', e)
            if k < 0.72:
                e = self.expr(scope, 'bool')
                return self.declare(scope, kind, 'bool', e)
            if k < 0.84:
                e, ty = self.objlit(scope)
                return self.declare(scope, kind, ty, e)
            if k < 0.92:
                e = ('arr', [self.expr(scope, 'num', 2) for _ in range(r.choice([0, 1, 2, 3]))])
                return self.declare(scope, kind, ('arr',), e)
            fd, n = self.fundef(scope)
            return self.declare(scope, kind, ('fun', n, tuple(d is not None for (_, d) in fd['params'])), ('func', fd))
        if c < 0.46 and top:
            fd, n = self.fundef(scope, kind='normal')
            x = self.fresh('f')
            scope.vars[x] = Var(x, 'function', ('fun', n, tuple(d is not None for (_, d) in fd['params'])), assignable=False)
            scope.lex_names.add(x)
            return ('fdecl', x, fd)
        if c < 0.54:
            t = self.block(scope, ctx, r.choice([1, 2]))
            e = self.block(scope, ctx, r.choice([1, 2])) if r.random() < 0.5 else ('empty',)
            if r.random() < 0.25:
                t = self.simple_stmt(scope, ctx)
            return ('if', self.expr(scope, r.choice(['bool', 'bool', 'any'])), t, e)
        if c < 0.66:
            return self.loop(scope, ctx)
        if c < 0.72:
            return self.switch(scope, ctx)
        if c < 0.80:
            return self.try_(scope, ctx)
        if c < 0.84:
            l = self.fresh('L')
            ctx2 = dict(ctx, labels=ctx['labels'] + [l])
            return ('label', l, self.block(scope, ctx2, r.choice([1, 2, 3])))
        if c < 0.88:
            return self.block(scope, ctx, r.choice([1, 2, 3]))
        if c < 0.93:
            return self.jump(scope, ctx) or ('expr', ('log', self.expr(scope, 'any')))
        if c < 0.955:
            return ('expr', self.faulty_expr(scope))
        if c < 0.975:
            # temporal dead zone, directly or through a closure
            n = self.fresh()
            if r.random() < 0.5:
                return ('block', [('expr', ('log', ('var', n))), ('decl', r.choice(['let', 'const']), [('d', n, ('num', 1))])])
            f = self.fresh()
            fd = dict(kind='arrow', params=[], rest=None, exprbody=True, body=[('return', ('var', n))])
            mid = [('expr', ('log', ('call', ('var', f), [])))] if r.random() < 0.5 else []
            return ('block', [('decl', 'const', [('d', f, ('func', fd))])] + mid +
                    [('decl', 'let', [('d', n, ('num', 2))]), ('expr', ('log', ('call', ('var', f), [])))])
        return ('throw', self.throwable(scope))

    def throwable(self, scope):
        r = self.r
        c = r.random()
        if c < 0.4: return self.expr(scope, 'num', 2)
        if c < 0.7: return self.expr(scope, 'str', 2)
        if c < 0.9: return ('obj', [('data', 'code', self.expr(scope, 'num', 2))])
        return self.lit('any')

    def simple_stmt(self, scope, ctx):
        j = self.jump(scope, ctx) if self.chance(0.5) else None
        return j or ('expr', ('log', self.expr(scope, 'any')))

    def jump(self, scope, ctx):
        r = self.r
        opts = []
        if ctx['loop'] or ctx['sw']: opts.append('break')
        if ctx['loop']: opts.append('continue')
        if ctx['labels']: opts.append('breakl')
        if ctx['looplabels']: opts.append('continuel')
        if ctx['fun']: opts.append('return')
        if not opts:
            return None
        o = r.choice(opts)
        if o == 'break': return ('break', None)
        if o == 'continue': return ('continue', None)
        if o == 'breakl': return ('break', r.choice(ctx['labels']))
        if o == 'continuel': return ('continue', r.choice(ctx['looplabels']))
        return ('return', self.expr(scope, 'num', 2) if r.random() < 0.8 else None)

    def block(self, scope, ctx, n):
        bs = Scope(scope)
        return ('block', self.stmts(bs, n, ctx))

    def loop(self, scope, ctx):
        r = self.r
        out = []
        lbl = None
        if r.random() < 0.3:
            lbl = self.fresh('L')
        ctx2 = dict(ctx, loop=ctx['loop'] + 1, sw=0,
                    labels=ctx['labels'] + ([lbl] if lbl else []),
                    looplabels=ctx['looplabels'] + ([lbl] if lbl else []))
        bound = r.choice([1, 2, 3]) if ctx['loop'] == 0 else r.choice([1, 2])
        c = r.random()
        if c < 0.18:
            # for-of over a fresh array literal (cannot be mutated by the body): per-iteration let/const binding or var
            kind = r.choice(['let', 'const', 'const', 'var'])
            elems = [self.expr(scope, 'num', 2) for _ in range(r.choice([0, 1, 2, 3] if ctx['loop'] == 0 else [1, 2]))]
            ls = Scope(scope)
            if kind == 'var':
                i = self.fresh()
                s = scope
                while s.parent is not None and not s.is_fun:
                    s = s.parent
                s.vars[i] = Var(i, 'var', 'loopctr', assignable=False)
                ls.vars[i] = s.vars[i]
            else:
                i = self.lex_name(ls)
                ls.lex_names.add(i)
                ls.vars[i] = Var(i, kind, 'loopctr', assignable=False)
            body_scope = Scope(ls)
            body = self.stmts(body_scope, r.choice([1, 2, 3]), ctx2)
            items = self.closure_jump_items(scope, i, lbl, kind != 'var')
            pos = r.randrange(len(body) + 1)
            body[pos:pos] = items
            src = ('arr', elems)
            if r.random() < 0.08:
                src = r.choice([('undef',), ('null',)])            # not iterable: TypeError
            st = ('forof', kind, i, src, ('block', body))
        elif c < 0.60:
            # for with let (per-iteration binding) / var / const-less counter
            kind = r.choice(['let', 'let', 'let', 'var'])
            ls = Scope(scope)
            if kind == 'var':
                i = self.fresh()
                s = scope
                while s.parent is not None and not s.is_fun:
                    s = s.parent
                s.vars[i] = Var(i, 'var', 'loopctr', assignable=False)
                ls.vars[i] = s.vars[i]
            else:
                i = self.lex_name(ls)
                ls.lex_names.add(i)
                ls.vars[i] = Var(i, 'let', 'loopctr', assignable=False)
            body_scope = Scope(ls)
            body = self.stmts(body_scope, r.choice([1, 2, 3]), ctx2)
            # closures capturing the loop variable (or a let of the body), followed by a (labelled) continue
            items = self.closure_jump_items(scope, i, lbl, kind == 'let')
            pos = r.randrange(len(body) + 1)
            body[pos:pos] = items
            upd = ('update', True, r.random() < 0.5, i)
            st = ('for', ('decl', kind, [('d', i, ('num', 0))]), ('bin', 'lt', ('var', i), ('num', bound)), upd, ('block', body))
        elif c < 0.82:
            k = self.fresh()
            s = scope
            while s.parent is not None and not s.is_fun:
                s = s.parent
            s.vars[k] = Var(k, 'var', 'loopctr', assignable=False)
            scope.vars[k] = s.vars[k]
            out.append(('decl', 'var', [('d', k, ('num', 0))]))
            body = self.block(scope, ctx2, r.choice([1, 2, 3]))
            items = self.closure_jump_items(scope, k, lbl, False)
            pos = r.randrange(len(body[1]) + 1)
            body[1][pos:pos] = items
            st = ('while', ('bin', 'lt', ('update', True, False, k), ('num', bound)), body)
        else:
            k = self.fresh()
            scope.lex_names.add(k)
            scope.vars[k] = Var(k, 'let', 'loopctr', assignable=False)
            out.append(('decl', 'let', [('d', k, ('num', 0))]))
            body = self.block(scope, ctx2, r.choice([1, 2, 3]))
            items = self.closure_jump_items(scope, k, lbl, False)
            pos = r.randrange(len(body[1]) + 1)
            body[1][pos:pos] = items
            st = ('do', body, ('bin', 'lt', ('update', True, True, k), ('num', bound)))
        if lbl:
            st = ('label', lbl, st)
        out.append(st)
        return out

    def closure_jump_items(self, scope, ctr, lbl, ctr_is_let):
        """[let q = f(ctr);] funarr[funarr.length] = () => (ctr | q); [if (cond) continue [label];]  -- a closure created
        in an iteration that may end with continue, called after the loop (per-iteration bindings, block stashes)."""
        r = self.r
        arrs = self.vars_of(scope, lambda v: v.ty == ('funarr',))
        if not arrs or r.random() > 0.75:
            return []
        a = r.choice(arrs)
        items, v = [], ctr
        if not ctr_is_let or r.random() < 0.3:
            q = self.fresh()
            items.append(('decl', r.choice(['let', 'const']), [('d', q, ('bin', 'add', ('var', ctr), ('num', r.choice([0, 10]))))]))
            v = q
        ret = ('var', v) if r.random() < 0.7 else ('bin', 'add', ('var', v), ('var', ctr))
        fd = dict(kind='arrow', params=[], rest=None, exprbody=True, body=[('return', ret)])
        items.append(('expr', ('setidx', ('var', a.name), ('get', ('var', a.name), 'length'), ('func', fd))))
        if r.random() < 0.7:
            j = ('continue', lbl if (lbl and r.random() < 0.5) else None)
            if r.random() < 0.3:
                j = ('block', [j])
            cond = r.choice([('bin', 'seq', ('var', ctr), ('num', r.choice([0, 1, 2]))), ('bin', 'lt', ('var', ctr), ('num', r.choice([1, 2]))),
                             ('bin', 'gt', ('var', ctr), ('num', 0)), ('bool', True)])
            items.append(('if', cond, j, ('empty',)))
        return items

    def switch(self, scope, ctx):
        r = self.r
        ctx2 = dict(ctx, sw=1)
        ss = Scope(scope)
        n = r.choice([1, 2, 3])
        vals = r.sample([0, 1, 2, 3, 5], n)
        cases = []
        for v in vals:
            body = self.stmts(ss, r.choice([0, 1, 2]), ctx2)
            if r.random() < 0.6:
                body.append(('break', None))
            cases.append((('num', v), body))
        if r.random() < 0.7:
            body = self.stmts(ss, r.choice([1, 2]), ctx2)
            if r.random() < 0.5:
                body.append(('break', None))
            cases.insert(r.randrange(len(cases) + 1), (None, body))
        disc = self.expr(scope, 'num', 2) if r.random() < 0.7 else ('num', r.choice(vals))
        return ('switch', disc, cases)

    def try_(self, scope, ctx):
        r = self.r
        bs = Scope(scope)
        body = self.stmts(bs, r.choice([1, 2]), ctx)
        if r.random() < 0.6:
            k = r.random()
            th = ('throw', self.throwable(bs)) if k < 0.6 else ('expr', self.faulty_expr(bs))
            body.insert(r.randrange(len(body) + 1), th)
        has_c = r.random() < 0.8
        has_f = (not has_c) or r.random() < 0.45
        param, cb = None, []
        if has_c:
            cs = Scope(scope)
            if r.random() < 0.85:
                param = self.lex_name(cs)
                cs.lex_names.add(param)
                cs.vars[param] = Var(param, 'let', 'any')
            cb = self.stmts(cs, r.choice([1, 2]), ctx)
            if param and r.random() < 0.6:
                cb.insert(0, ('expr', ('log', ('var', param))))
        fb = self.stmts(Scope(scope), r.choice([1, 2]), ctx) if has_f else []
        return ('try', body, has_c, param, cb, has_f, fb)

    # -- completion-value gadgets: the script ends with a compound statement whose value is decided by
    #    UpdateEmpty across iterations / fall-through / continue / constant and non-constant `if`s
    def cv_items(self, scope, ctr, depth, in_loop, in_switch):
        r = self.r
        out = []
        for _ in range(r.choice([1, 2, 2, 3])):
            c = r.random()
            if c < 0.30:
                out.append(('expr', r.choice([('num', r.choice([1, 7, 9])), ('str', r.choice(['a', 'zz'])), ('var', ctr)])))
            elif c < 0.60:
                test = r.choice([('bool', False), ('bool', True), ('bin', 'lt', ('num', 2), ('num', 1)), ('num', 0),
                                 ('bin', 'lt', ('var', ctr), ('num', 1)), ('bin', 'seq', ('var', ctr), ('num', 1)),
                                 ('bin', 'gt', ('var', ctr), ('num', 0))])
                t = r.choice([('empty',), ('block', []), ('expr', ('num', 5)), ('block', [('expr', ('str', 'k'))])])
                if depth < 2 and r.random() < 0.3:
                    t = ('block', self.cv_items(scope, ctr, depth + 1, in_loop, in_switch))
                e = ('empty',)
                if r.random() < 0.35:
                    e = r.choice([('block', []), ('expr', ('num', 6)), ('block', [('expr', ('str', 'e'))])])
                out.append(('if', test, t, e))
            elif c < 0.72 and in_loop:
                j = r.choice([('continue', None), ('break', None)])
                if r.random() < 0.7:
                    j = ('if', r.choice([('bin', 'lt', ('var', ctr), ('num', 1)), ('bin', 'seq', ('var', ctr), ('num', 1)), ('bool', True)]), j, ('empty',))
                out.append(j)
            elif c < 0.80 and in_switch:
                out.append(('break', None))
            elif c < 0.90 and depth < 2:
                out.append(self.cv_gadget(scope, depth + 1, ctr))
            else:
                out.append(r.choice([('empty',), ('block', []), ('decl', 'var', [('d', self.fresh(), ('num', 1))])]))
        if r.random() < 0.4:
            # the list ends in an `if` with a CONSTANT test whose live branch has an empty completion: the `if` is the
            # last value-producing statement of the list and must reset the value (to undefined) whatever reached it
            # (switch fall-through, an earlier iteration, a value before a labelled break, ...)
            ctrue = r.choice([('bool', True), ('num', 1), ('str', 'k'), ('bin', 'seq', ('bin', 'add', ('num', 1), ('num', 1)), ('num', 2)),
                              ('un', 'not', ('num', 0)), ('bin', 'seq', ('un', 'typeof', ('num', 1)), ('str', 'number')),
                              ('logic', 'or', ('bool', False), ('num', 3))])
            cfalse = r.choice([('bool', False), ('num', 0), ('str', ''), ('bin', 'lt', ('num', 2), ('num', 1)), ('un', 'not', ('num', 1)),
                               ('logic', 'and', ('bool', True), ('num', 0)), ('null',)])
            def empty():
                return r.choice([('block', []), ('empty',), ('block', [('decl', 'var', [('d', self.fresh(), ('num', 1))])]),
                                 ('block', [('decl', 'let', [('d', self.fresh(), ('num', 1))])]), ('block', [('empty',)])])
            k = r.random()
            if k < 0.45:
                out.append(('if', ctrue, empty(), ('empty',)))
            elif k < 0.75:
                out.append(('if', cfalse, ('expr', ('num', 7)), empty()))
            elif k < 0.9:
                out.append(('if', cfalse, ('expr', ('num', 7)), ('empty',)))
            else:
                out.append(('if', ctrue, empty(), ('expr', ('num', 6))))
        return out

    def cv_gadget(self, scope, depth=0, outer_ctr=None):
        r = self.r
        k = self.fresh()
        c = r.random()
        pre = ('decl', 'var', [('d', k, ('num', 0))])
        if c < 0.30:
            body = self.cv_items(scope, k, depth, True, False)
            g = ('do', ('block', body), ('bin', 'lt', ('update', True, True, k), ('num', r.choice([2, 3]))))
        elif c < 0.50:
            body = self.cv_items(scope, k, depth, True, False)
            g = ('while', ('bin', 'lt', ('update', True, False, k), ('num', r.choice([2, 3]))), ('block', body))
        elif c < 0.65:
            body = self.cv_items(scope, k, depth, True, False)
            g = ('for', ('none',), ('bin', 'lt', ('var', k), ('num', r.choice([2, 3]))), ('update', True, False, k), ('block', body))
        elif c < 0.90:
            disc = ('var', outer_ctr) if outer_ctr and r.random() < 0.7 else ('num', r.choice([0, 1, 2]))
            cases = []
            for v in r.sample([0, 1, 2, 3], r.choice([2, 3])):
                items = self.cv_items(scope, outer_ctr or k, depth, False, True)
                if r.random() < 0.4:
                    items = [it for it in items if it[0] != 'break'] + [('expr', ('num', r.choice([5, 8])))] if r.random() < 0.5 else items
                cases.append((('num', v), items))
            if r.random() < 0.7:
                cases.insert(r.randrange(len(cases) + 1), (None, self.cv_items(scope, outer_ctr or k, depth, False, True)))
            g = ('switch', disc, cases)
        else:
            g = ('try', self.cv_items(scope, outer_ctr or k, depth, False, False), True, None,
                 [('expr', ('num', 8))], r.random() < 0.5, [('expr', ('num', 4))])
        return ('block', [pre, g]) if depth > 0 else [pre, g]

    # -- program
    def program(self):
        r = self.r
        self.budget = int(r.choice([25, 40, 60, 90]) * self.size)
        g = Scope(None, is_fun=True)
        ctx = dict(fun=False, loop=0, labels=[], looplabels=[], sw=0)
        body = []
        if r.random() < 0.7:
            a = self.fresh()
            g.vars[a] = Var(a, 'var', ('funarr',), assignable=False)
            body.append(('decl', 'var', [('d', a, ('arr', []))]))
        body += self.stmts(g, r.choice([3, 4, 5, 6, 8]), ctx, top=True)
        # use what was built: call the collected closures, log some variables
        for v in g.lookup_all():
            if v.ty == ('funarr',):
                for i in range(4):
                    body.append(('expr', ('log', ('logic', 'and', ('idx', ('var', v.name), ('num', i)),
                                                  ('call', ('idx', ('var', v.name), ('num', i)), [])))))
            elif r.random() < 0.6 and (v.kind in ('var', 'function') or (isinstance(v.ty, tuple) and v.ty[0] == 'fun')):
                if isinstance(v.ty, tuple) and v.ty[0] == 'fun':
                    body.append(('expr', ('log', ('call', ('var', v.name), [('num', 2)] * max(0, v.ty[1])))))
                    mask = v.ty[2] if len(v.ty) > 2 else ()
                    if any(mask) and r.random() < 0.8:
                        # run the parameter initialisers (possibly hitting the TDZ of a later parameter)
                        args = [('undef',) if (i < len(mask) and mask[i]) else ('num', 1) for i in range(v.ty[1])]
                        if r.random() < 0.5:
                            while args and args[-1] == ('undef',):
                                args.pop()
                        e = self.fresh()
                        body.append(('try', [('expr', ('log', ('call', ('var', v.name), args)))], True, e,
                                     [('expr', ('log', ('var', e)))], False, []))
                else:
                    body.append(('expr', ('log', ('var', v.name))))
        c = r.random()
        if c < 0.5:
            body += self.cv_gadget(g)          # the completion value of the script comes from a compound statement
        elif c < 0.8:
            body.append(('expr', self.expr(g, 'any')))
        return dict(body=body)


def gen_program(rng, size=1.0):
    return Gen(rng, size).program()


# ------------------------------------------------------------------------------------------ rewrites
# Each rewrite returns a NEW program (deep copy) or None if not applicable.

def is_valued(s):
    return s[0] in ('expr', 'throw') or (s[0] == 'return' and s[1] is not None)


def is_decl_stmt(s):
    return s[0] in ('decl', 'fdecl') and not (s[0] == 'decl' and s[1] == 'var')


class Site:
    def __init__(self, lst, names, in_fun, fbody, lexsw=False):
        self.lst, self.names, self.in_fun, self.fbody, self.lexsw = lst, names, in_fun, fbody, lexsw


def collect_sites(prog):
    """All statement lists (outside switch cases) with the names visible there, whether they are inside
    a function, and the innermost function/script body list."""
    sites = []
    lexsw = [0]          # > 0 while inside a switch whose case block declares let/const/function

    def decl_names(ss):
        out = []
        for s in ss:
            if s[0] == 'decl':
                out += [d[1] for d in s[2]]
            elif s[0] == 'fdecl':
                out.append(s[1])
        return out

    def walk_fd(fd, names, ):
        ns = names + [p[0] for p in fd['params']] + ([fd['rest']] if fd['rest'] else [])
        for (_, d) in fd['params']:
            if d is not None:
                walk_e(d, ns, True, None)
        walk_list(fd['body'], ns, True, fd['body'], isbody=not fd.get('exprbody'))

    def walk_e(e, names, in_fun, fbody):
        if not isinstance(e, tuple):
            return
        if e[0] == 'func':
            walk_fd(e[1], names)
            return
        if e[0] == 'obj':
            for (_, _, v) in e[1]:
                walk_e(v, names, in_fun, fbody)
            return
        for x in e[1:]:
            if isinstance(x, tuple):
                walk_e(x, names, in_fun, fbody)
            elif isinstance(x, list):
                for y in x:
                    walk_e(y, names, in_fun, fbody)

    def walk_list(ss, names, in_fun, fbody, isbody=True):
        ns = names + decl_names(ss)
        if isbody:
            sites.append(Site(ss, ns, in_fun, fbody, lexsw[0] > 0))
        for s in ss:
            walk_s(s, ns, in_fun, fbody)

    def walk_s(s, names, in_fun, fbody):
        t = s[0]
        if t == 'expr': walk_e(s[1], names, in_fun, fbody)
        elif t == 'decl':
            for d in s[2]:
                if len(d) == 3: walk_e(d[2], names, in_fun, fbody)
        elif t == 'fdecl': walk_fd(s[2], names)
        elif t == 'block': walk_list(s[1], names, in_fun, fbody)
        elif t == 'if':
            walk_e(s[1], names, in_fun, fbody); walk_s(s[2], names, in_fun, fbody); walk_s(s[3], names, in_fun, fbody)
        elif t == 'while': walk_e(s[1], names, in_fun, fbody); walk_s(s[2], names, in_fun, fbody)
        elif t == 'do': walk_s(s[1], names, in_fun, fbody); walk_e(s[2], names, in_fun, fbody)
        elif t == 'for':
            ns = names
            if s[1][0] == 'decl':
                ns = names + [d[1] for d in s[1][2]]
                for d in s[1][2]:
                    if len(d) == 3: walk_e(d[2], ns, in_fun, fbody)
            elif s[1][0] == 'expr':
                walk_e(s[1][1], ns, in_fun, fbody)
            if s[2]: walk_e(s[2], ns, in_fun, fbody)
            if s[3]: walk_e(s[3], ns, in_fun, fbody)
            walk_s(s[4], ns, in_fun, fbody)
        elif t == 'forof':
            walk_e(s[3], names, in_fun, fbody)
            walk_s(s[4], names + [s[2]], in_fun, fbody)
        elif t in ('return', 'throw'):
            if s[1] is not None: walk_e(s[1], names, in_fun, fbody)
        elif t == 'try':
            walk_list(s[1], names, in_fun, fbody)
            walk_list(s[4], names + ([s[3]] if s[3] else []), in_fun, fbody)
            walk_list(s[6], names, in_fun, fbody)
        elif t == 'label': walk_s(s[2], names, in_fun, fbody)
        elif t == 'switch':
            walk_e(s[1], names, in_fun, fbody)
            lex = any(is_decl_stmt(st) for (_, body) in s[2] for st in body)
            lexsw[0] += 1 if lex else 0
            for (test, body) in s[2]:
                if test is not None: walk_e(test, names, in_fun, fbody)
                ns = names
                for st in body:
                    walk_s(st, ns, in_fun, fbody)
            lexsw[0] -= 1 if lex else 0

    walk_list(prog['body'], [], False, prog['body'])
    return sites


def dead_stmts(rng, names, strict, allow_opaque=True):
    """Dead statements without declarations; may contain syntax outside MiniJS."""
    out = []
    for _ in range(rng.choice([1, 1, 2])):
        c = rng.random()
        if c < 0.3:
            out.append(('expr', ('log', ('str', 'dead'))))
        elif c < 0.5 and names:
            out.append(('expr', ('assign', rng.choice(names), ('num', 99))))
        elif c < 0.8 and allow_opaque:
            out.append(('expr', ('eraw', 'eval(%s)' % json.dumps(rng.choice(names) if names and rng.random() < 0.5 else ''))))
        elif allow_opaque and not strict:
            out.append(('raw', 'with ({}) { %s }' % (rng.choice(names) if names else '')))
        else:
            out.append(('expr', ('un', 'typeof', ('var', rng.choice(names) if names else 'q'))))
    return out


def rw_dead_code_after_abrupt(rng, prog, strict):
    p = copy.deepcopy(prog)
    cands = []
    for site in collect_sites(p):
        for i, s in enumerate(site.lst):
            if s[0] in ('return', 'throw', 'break', 'continue'):
                cands.append((site, i))
    if not cands:
        return None
    site, i = rng.choice(cands)
    site.lst[i + 1:i + 1] = dead_stmts(rng, site.names, strict)
    return p


def rw_if_false_dead_branch(rng, prog, strict):
    p = copy.deepcopy(prog)
    cands = [(site, s) for site in collect_sites(p) for s in site.lst if is_valued(s)]
    if not cands:
        return None
    for site, s in rng.sample(cands, min(len(cands), rng.choice([1, 1, 2, 3]))):
        i = [k for k, x in enumerate(site.lst) if x is s][0]
        site.lst.insert(i, ('if', ('bool', False), ('block', dead_stmts(rng, site.names, strict)), ('empty',)))
    return p


def rw_noop_closure_capture(rng, prog, strict):
    p = copy.deepcopy(prog)
    cands = [(site, i) for site in collect_sites(p) for i, s in enumerate(site.lst) if is_valued(s) and site.names]
    if not cands:
        return None
    site, i = rng.choice(cands)
    x = rng.choice(site.names)
    fd = dict(kind='arrow', params=[], rest=None, exprbody=True, body=[('return', ('var', x))])
    site.lst.insert(i, ('expr', ('func', fd)))
    return p


def rw_block_wrap(rng, prog, strict):
    p = copy.deepcopy(prog)
    cands = [(site, i) for site in collect_sites(p) for i, s in enumerate(site.lst) if not is_decl_stmt(s) and s[0] != 'fdecl']
    if not cands:
        return None
    site, i = rng.choice(cands)
    site.lst[i] = ('block', [site.lst[i]])
    return p


def has_escape(s):
    """var declarations, return, or break/continue that could leave the statement (conservative)."""
    found = [False]

    def ws(s, loops, labels):
        t = s[0]
        if t == 'decl' and s[1] == 'var': found[0] = True
        elif t == 'return': found[0] = True
        elif t == 'break':
            if (s[1] is None and loops == 0) or (s[1] is not None and s[1] not in labels): found[0] = True
        elif t == 'continue':
            if (s[1] is None and loops == 0) or (s[1] is not None and s[1] not in labels): found[0] = True
        elif t == 'block':
            for x in s[1]: ws(x, loops, labels)
        elif t == 'if': ws(s[2], loops, labels); ws(s[3], loops, labels)
        elif t in ('while',): ws(s[2], loops + 1, labels)
        elif t == 'do': ws(s[1], loops + 1, labels)
        elif t == 'for':
            if s[1][0] == 'decl' and s[1][1] == 'var': found[0] = True
            ws(s[4], loops + 1, labels)
        elif t == 'forof':
            if s[1] == 'var': found[0] = True
            ws(s[4], loops + 1, labels)
        elif t == 'try':
            for x in s[1] + s[4] + s[6]: ws(x, loops, labels)
        elif t == 'label': ws(s[2], loops, labels + [s[1]])
        elif t == 'switch':
            for (_, body) in s[2]:
                for x in body: ws(x, loops + 1, labels)     # break inside switch stays inside
                # NB: `continue` inside a switch would target an outer loop: treat conservatively
                for x in body:
                    if contains_continue(x): found[0] = True
        elif t == 'raw': found[0] = True
    ws(s, 0, [])
    return found[0]


def contains_continue(s):
    t = s[0]
    if t == 'continue': return True
    if t == 'block': return any(contains_continue(x) for x in s[1])
    if t == 'if': return contains_continue(s[2]) or contains_continue(s[3])
    if t == 'try': return any(contains_continue(x) for x in s[1] + s[4] + s[6])
    if t == 'label': return contains_continue(s[2])
    if t == 'switch': return any(contains_continue(x) for (_, b) in s[2] for x in b)
    return False


def rw_iife_wrap(rng, prog, strict):
    p = copy.deepcopy(prog)
    cands = [(site, i) for site in collect_sites(p) if site.in_fun for i, s in enumerate(site.lst)
             if s[0] not in ('decl', 'fdecl', 'return', 'break', 'continue') and not has_escape(s)]
    if not cands:
        return None
    site, i = rng.choice(cands)
    fd = dict(kind='arrow', params=[], rest=None, exprbody=False, body=[site.lst[i]])
    site.lst[i] = ('expr', ('call', ('func', fd), []))
    return p


def map_expr_lits(e, hits, path_ok=True):
    """Collect (container, index) of numeric/string literal operands inside expression e."""
    if not isinstance(e, tuple):
        return
    if e[0] == 'func':
        return      # handled by the caller (function bodies are separate sites)
    for idx in range(1, len(e)):
        x = e[idx]
        if isinstance(x, tuple):
            if x[0] in ('num', 'str') and e[0] in ('bin', 'cond', 'log', 'comma', 'logic', 'assign', 'assignop'):
                hits.append((e, idx))
            else:
                map_expr_lits(x, hits)
        elif isinstance(x, list):
            for j, y in enumerate(x):
                if isinstance(y, tuple) and y and y[0] in ('num', 'str') and e[0] in ('call', 'mcall', 'arr'):
                    hits.append((x, j))
                elif isinstance(y, tuple):
                    map_expr_lits(y, hits)


def rw_const_inline(rng, prog, strict):
    """Replace a literal operand by a fresh const declared first in the enclosing function/script body."""
    p = copy.deepcopy(prog)
    cands = []
    for site in collect_sites(p):
        for si, s in enumerate(site.lst):
            if s[0] in ('expr', 'throw', 'return') and s[1] is not None and isinstance(s[1], tuple):
                hits = []
                map_expr_lits(s[1], hits)
                for h in hits:
                    cands.append((site, h))
    if not cands:
        return None
    site, (cont, idx) = rng.choice(cands)
    lit = cont[idx]
    name = 'k_%d' % rng.randrange(1000)
    if isinstance(cont, tuple):
        # tuples are immutable: rebuild in place is impossible, so mutate through a list trick:
        return _const_inline_rebuild(p, site, cont, idx, name, lit)
    cont[idx] = ('var', name)
    site.fbody.insert(0, ('decl', 'const', [('d', name, lit)]))
    return p


def _const_inline_rebuild(p, site, cont, idx, name, lit):
    new = cont[:idx] + (('var', name),) + cont[idx + 1:]
    replaced = [False]

    def rep_e(e):
        if e is cont:
            replaced[0] = True
            return new
        if not isinstance(e, tuple):
            return e
        if e[0] == 'func':
            return e
        out = []
        for x in e:
            if isinstance(x, tuple):
                out.append(rep_e(x))
            elif isinstance(x, list):
                out.append([rep_e(y) if isinstance(y, tuple) else y for y in x])
            else:
                out.append(x)
        return tuple(out)

    for si, s in enumerate(site.lst):
        if s[0] in ('expr', 'throw', 'return') and s[1] is not None:
            ne = rep_e(s[1])
            if replaced[0]:
                site.lst[si] = (s[0], ne)
                site.fbody.insert(0, ('decl', 'const', [('d', name, lit)]))
                return p
    return None


def rw_expr_stmt_position(rng, prog, strict):
    p = copy.deepcopy(prog)
    cands = [(site, i) for site in collect_sites(p) if site.in_fun for i, s in enumerate(site.lst) if s[0] == 'expr' and s[1][0] != 'func']
    if not cands:
        return None
    site, i = rng.choice(cands)
    e = site.lst[i][1]
    site.lst[i] = ('expr', ('un', 'void', e) if rng.random() < 0.5 else ('comma', e, ('num', 0)))
    return p


def rw_tostring_reeval(rng, prog, strict):
    """goja-only: a top-level function declaration is replaced by the re-evaluation of its own source."""
    p = copy.deepcopy(prog)
    fs = [s[1] for s in p['body'] if s[0] == 'fdecl']
    if not fs:
        return None
    f = rng.choice(fs)
    pre = "'use strict'; " if strict else ''
    # `void`: the inserted statement must not contribute a completion value of its own
    p['body'].insert(0, ('raw', 'void (%s = (0, eval)(%s + "(" + %s.toString() + ")"));' % (f, json.dumps(pre), f)))
    return p


REWRITES = [
    ('dead_code_after_abrupt', rw_dead_code_after_abrupt, 'deadcode'),
    ('if_false_dead_branch', rw_if_false_dead_branch, 'iffalse'),
    ('noop_closure_capture', rw_noop_closure_capture, 'noop'),
    ('block_wrap', rw_block_wrap, None),
    ('iife_wrap', rw_iife_wrap, None),
    ('const_inline', rw_const_inline, None),
    ('expr_stmt_vs_value_position', rw_expr_stmt_position, None),
    ('tostring_reeval', rw_tostring_reeval, None),
]


def has_raw(x):
    if isinstance(x, tuple):
        if x and x[0] in ('raw', 'eraw'):
            return True
        return any(has_raw(y) for y in x)
    if isinstance(x, list):
        return any(has_raw(y) for y in x)
    if isinstance(x, dict):
        return any(has_raw(y) for y in x.values())
    return False


def function_placement(prog):
    fd = dict(kind='normal', params=[], rest=None, exprbody=False, body=copy.deepcopy(prog['body']))
    return dict(body=[('expr', ('call', ('func', fd), []))])


if __name__ == '__main__':
    import sys
    rng = random.Random(int(sys.argv[1]) if len(sys.argv) > 1 else 1)
    for _ in range(int(sys.argv[2]) if len(sys.argv) > 2 else 3):
        pr = gen_program(rng)
        print(to_js(pr))
        print(to_sexp(pr, True))
        print()


def switch_lexical_dynamic(x):
    """Is there a switch whose case block declares let/const/function and which contains (at any depth)
    syntax that makes its scope dynamic (direct eval / with)?  (classifier for a known goja crash)"""
    if isinstance(x, tuple):
        if x and x[0] == 'switch':
            if any(is_decl_stmt(st) for (_, body) in x[2] for st in body) and has_raw(x[2]):
                return True
        return any(switch_lexical_dynamic(y) for y in x)
    if isinstance(x, list):
        return any(switch_lexical_dynamic(y) for y in x)
    if isinstance(x, dict):
        return any(switch_lexical_dynamic(y) for y in x.values())
    return False


# ------------------------------------------------------------------------- classification helpers
# (used to attribute a failure to a known goja defect: dead code must not matter, so a failure that
#  disappears when dead / no-op syntax is neutralised is attributable to how that syntax was compiled)

class _Undef:
    pass


UNDEF = _Undef()


def const_eval(e):
    """Value of a constant expression (literals combined by the operators goja folds), or None if the
    expression is not constant / outside this evaluator.  undefined is the UNDEF sentinel, null is ().  """
    t = e[0]
    if t == 'bool': return bool(e[1])
    if t == 'num': return int(e[1])
    if t == 'str': return str(e[1])
    if t == 'undef': return None        # `undefined` is a global lookup for goja, not a constant
    if t == 'null': return ()
    if t == 'un':
        v = const_eval(e[2])
        if v is None: return None
        if e[1] == 'not': return not js_truthy(v)
        if e[1] == 'void': return UNDEF
        if e[1] == 'typeof':
            return ('boolean' if isinstance(v, bool) else 'number' if isinstance(v, int) else 'string' if isinstance(v, str)
                    else 'undefined' if v is UNDEF else 'object')
        if e[1] in ('neg', 'plus') and isinstance(v, int) and not isinstance(v, bool):
            return -v if e[1] == 'neg' else v
        return None
    if t == 'bin':
        a, b = const_eval(e[2]), const_eval(e[3])
        if a is None or b is None: return None
        op = e[1]
        num = lambda x: isinstance(x, int) and not isinstance(x, bool)
        if op in ('seq', 'sne'):
            eq = (type(a) == type(b) and a == b) or (a is UNDEF and b is UNDEF)
            return eq if op == 'seq' else not eq
        if op == 'add':
            if num(a) and num(b): return a + b
            if isinstance(a, str) or isinstance(b, str):
                f = lambda x: x if isinstance(x, str) else ('true' if x is True else 'false' if x is False else 'undefined' if x is UNDEF
                                                          else 'null' if x == () else str(x))
                return f(a) + f(b)
            return None
        if num(a) and num(b):
            if op == 'sub': return a - b
            if op == 'mul': return a * b
            if op == 'mod':
                if b == 0: return None
                r = abs(a) % abs(b)
                return -r if a < 0 else r
        if (num(a) and num(b)) or (isinstance(a, str) and isinstance(b, str)):
            if op == 'lt': return a < b
            if op == 'le': return a <= b
            if op == 'gt': return a > b
            if op == 'ge': return a >= b
        return None
    if t == 'logic':
        a = const_eval(e[2])
        if a is None: return None
        if e[1] == 'and': return a if not js_truthy(a) else const_eval(e[3])
        if e[1] == 'or': return a if js_truthy(a) else const_eval(e[3])
        if e[1] == 'nullish': return const_eval(e[3]) if (a is UNDEF or a == ()) else a
        return None
    if t == 'cond':
        c = const_eval(e[1])
        if c is None: return None
        return const_eval(e[2] if js_truthy(c) else e[3])
    if t == 'comma':
        return None
    return None


def js_truthy(v):
    if v is UNDEF or v == (): return False
    if isinstance(v, bool): return v
    if isinstance(v, int): return v != 0
    if isinstance(v, str): return v != ''
    return True


def map_ast(x, fs, fe, in_dead=False):
    """Rebuild an AST applying fs(stmt, in_dead) / fe(expr) bottom-up where they return non-None."""
    if isinstance(x, list):
        out, dead = [], in_dead
        for y in x:
            out.append(map_ast(y, fs, fe, dead))
            if isinstance(y, tuple) and y and y[0] in ('break', 'continue', 'return', 'throw'):
                dead = True          # the rest of this statement list is unreachable
        return out
    if isinstance(x, dict):
        return {k: map_ast(v, fs, fe, False) if k == 'body' or k == 'params' else v for k, v in x.items()}
    if not isinstance(x, tuple) or not x:
        return x
    t = x[0]
    if t == 'if' and len(x) == 4:
        c = const_eval(x[1])
        dead_t = in_dead or (c is not None and not js_truthy(c))
        dead_e = in_dead or (c is not None and js_truthy(c))
        y = ('if', map_ast(x[1], fs, fe, in_dead), map_ast(x[2], fs, fe, dead_t), map_ast(x[3], fs, fe, dead_e))
    elif t == 'while' and len(x) == 3:
        c = const_eval(x[1])
        dead = in_dead or (c is not None and not js_truthy(c))
        y = ('while', map_ast(x[1], fs, fe, in_dead), map_ast(x[2], fs, fe, dead))
    else:
        y = tuple(map_ast(z, fs, fe, in_dead) if isinstance(z, (tuple, list, dict)) else z for z in x)
    if t in ('break', 'continue'):
        r = fs(y, in_dead)
        return y if r is None else r
    if t in ('raw',):
        r = fs(y, in_dead)
        return y if r is None else r
    if t == 'eraw':
        r = fe(y)
        return y if r is None else r
    return y


def neutralise(prog, mode):
    """mode 'jump': break/continue inside constant-dead branches become empty statements;
       mode 'raw' : eval(..)/with(..) (outside MiniJS, only ever generated in dead code) disappear."""
    if mode == 'jump':
        return map_ast(prog, lambda s, dead: ('empty',) if dead and s[0] in ('break', 'continue') else None, lambda e: None)
    return map_ast(prog, lambda s, dead: ('empty',) if s[0] == 'raw' else None, lambda e: ('undef',))


def nonsimple_params_with_raw(x):
    """A function with default/rest parameters containing eval/with somewhere inside."""
    if isinstance(x, dict):
        if 'params' in x and (x.get('rest') or any(d is not None for (_, d) in x['params'])) and has_raw(x['body']):
            return True
        return any(nonsimple_params_with_raw(v) for v in x.values())
    if isinstance(x, (tuple, list)):
        return any(nonsimple_params_with_raw(y) for y in x)
    return False


def split_try_catch_finally(x):
    """try B catch C finally F  ==>  try { try B catch C } finally F  (equivalent by ECMA-262, incl. completion
    value); used to attribute failures to the known defect where an exception thrown by F reaches C."""
    if isinstance(x, list):
        return [split_try_catch_finally(y) for y in x]
    if isinstance(x, dict):
        return {k: split_try_catch_finally(v) if k in ('body', 'params') else v for k, v in x.items()}
    if not isinstance(x, tuple) or not x:
        return x
    y = tuple(split_try_catch_finally(z) if isinstance(z, (tuple, list, dict)) else z for z in x)
    if y[0] == 'try' and len(y) == 7 and y[2] and y[5]:
        inner = ('try', y[1], True, y[3], y[4], False, [])
        return ('try', [inner], False, None, [], True, y[6])
    return y


def toplevel_fdecl_and_lexical(prog):
    """Script-level function declaration together with a script-level let/const (classifier for the known
    sloppy-direct-eval defect: such functions do not see the eval code's own lexical declarations)."""
    b = prog['body']
    return any(st[0] == 'fdecl' for st in b) and any(st[0] == 'decl' and st[1] in ('let', 'const') for st in b)


def lexical_decl_in_dead_code(x, dead=False):
    """A let/const declaration in a statically unreachable position (after an unconditional
    break/continue/return/throw in the same statement list)."""
    if isinstance(x, list):
        d = dead
        for y in x:
            if lexical_decl_in_dead_code(y, d):
                return True
            if isinstance(y, tuple) and y and y[0] in ('break', 'continue', 'return', 'throw'):
                d = True
        return False
    if isinstance(x, dict):
        return lexical_decl_in_dead_code(x.get('body', []), False)
    if not isinstance(x, tuple) or not x:
        return False
    if x[0] == 'decl' and x[1] in ('let', 'const') and dead:
        return True
    return any(lexical_decl_in_dead_code(z, dead) for z in x if isinstance(z, (tuple, list, dict)))


def neutralise_params(x):
    """Semantics-preserving: (1) a direct eval of an identifier becomes the identifier; (2) in a parameter
    initialiser, a DIRECT reference (not inside a nested function) to the same or a later parameter -- which can
    only ever throw a ReferenceError (TDZ) when evaluated -- becomes a reference to an undeclared name (also a
    ReferenceError).  Afterwards goja has no reason to use the forward-reference prologue (enterFunc1)."""
    def ev(e):
        if isinstance(e, list): return [ev(y) for y in e]
        if isinstance(e, dict): return fd(e)
        if not isinstance(e, tuple) or not e: return e
        if e[0] == 'evalvar': return ('var', e[1])
        return tuple(ev(z) if isinstance(z, (tuple, list, dict)) else z for z in e)

    def fwd(e, later):
        if isinstance(e, list): return [fwd(y, later) for y in e]
        if isinstance(e, dict): return e                      # nested function: not a direct reference
        if not isinstance(e, tuple) or not e: return e
        if e[0] == 'var' and e[1] in later: return ('var', 'undecl_tdz')
        if e[0] == 'un' and e[1] == 'typeof' and e[2][0] == 'var' and e[2][1] in later: return e   # typeof of a TDZ name throws too, keep
        return tuple(fwd(z, later) if isinstance(z, (tuple, list, dict)) else z for z in e)

    def fd(d):
        if 'params' not in d:
            return {k: ev(v) for k, v in d.items()}
        names = [n for (n, _) in d['params']] + ([d['rest']] if d.get('rest') else [])
        ps = []
        for i, (n, dflt) in enumerate(d['params']):
            if dflt is not None:
                dflt = fwd(ev(dflt), set(names[i:]))
            ps.append((n, dflt))
        out = dict(d)
        out['params'] = ps
        out['body'] = ev(d['body'])
        return out
    return ev(x)


def fwd_param_pattern(x):
    """A function with a parameter initialiser that contains a direct eval or a reference to the same/a later
    parameter (goja then compiles the forward-reference prologue)."""
    def uses(e, names):
        if isinstance(e, tuple):
            if e and e[0] == 'evalvar': return True
            if e and e[0] == 'var' and e[1] in names: return True
            return any(uses(z, names) for z in e)
        if isinstance(e, list): return any(uses(z, names) for z in e)
        if isinstance(e, dict): return any(uses(z, names) for z in e.values())
        return False
    if isinstance(x, dict):
        if 'params' in x:
            names = [n for (n, _) in x['params']]
            for i, (n, d) in enumerate(x['params']):
                if d is not None and uses(d, set(names[i:])):
                    return True
        return any(fwd_param_pattern(v) for v in x.values())
    if isinstance(x, (tuple, list)):
        return any(fwd_param_pattern(y) for y in x)
    return False


def dowhile_to_while(x, ctr=None):
    """do S while (c)  ==>  { var $f = true; while ($f || c) { $f = false; S } }   (same completion value, same
    continue/break behaviour); used to attribute failures to the known do-while completion-value defect."""
    if ctr is None:
        ctr = [0]
    if isinstance(x, list):
        return [dowhile_to_while(y, ctr) for y in x]
    if isinstance(x, dict):
        return {k: dowhile_to_while(v, ctr) if k in ('body', 'params') else v for k, v in x.items()}
    if not isinstance(x, tuple) or not x:
        return x

    def conv(d, label):
        ctr[0] += 1
        f = 'dwf_%d' % ctr[0]
        body = dowhile_to_while(d[1], ctr)
        w = ('while', ('logic', 'or', ('var', f), dowhile_to_while(d[2], ctr)),
             ('block', [('expr', ('assign', f, ('bool', False))), body]))
        if label:
            w = ('label', label, w)
        return ('block', [('decl', 'var', [('d', f, ('bool', True))]), w])
    if x[0] == 'label' and isinstance(x[2], tuple) and x[2] and x[2][0] == 'do':
        return conv(x[2], x[1])
    if x[0] == 'do':
        return conv(x, None)
    return tuple(dowhile_to_while(z, ctr) if isinstance(z, (tuple, list, dict)) else z for z in x)


def unwrap_jump_blocks(x):
    """{ break; } / { continue; }  ==>  break; / continue;   (a block that is only a jump declares nothing)."""
    if isinstance(x, list):
        return [unwrap_jump_blocks(y) for y in x]
    if isinstance(x, dict):
        return {k: unwrap_jump_blocks(v) if k in ('body', 'params') else v for k, v in x.items()}
    if not isinstance(x, tuple) or not x:
        return x
    y = tuple(unwrap_jump_blocks(z) if isinstance(z, (tuple, list, dict)) else z for z in x)
    if y[0] == 'block' and len(y[1]) == 1 and y[1][0][0] in ('break', 'continue'):
        return y[1][0]
    return y


def const_assign_reads_first(prog):
    """(c = e)  ==>  (c = (e, c))  for names that are only ever declared `const`: an assignment to a constant always
    throws (TypeError if initialised, ReferenceError in the TDZ) after evaluating e, so reading c in between keeps
    the semantics and makes the TDZ check explicit."""
    decl = {}

    def collect(x):
        if isinstance(x, tuple):
            if x and x[0] == 'decl':
                for d in x[2]:
                    decl.setdefault(d[1], set()).add(x[1])
            if x and x[0] == 'fdecl':
                decl.setdefault(x[1], set()).add('function')
            for z in x: collect(z)
        elif isinstance(x, list):
            for z in x: collect(z)
        elif isinstance(x, dict):
            for (n, _) in x.get('params', []): decl.setdefault(n, set()).add('param')
            if x.get('rest'): decl.setdefault(x['rest'], set()).add('param')
            for z in x.values(): collect(z)
    collect(prog)
    consts = {n for n, k in decl.items() if k == {'const'}}

    def go(x):
        if isinstance(x, list): return [go(y) for y in x]
        if isinstance(x, dict): return {k: go(v) if k in ('body', 'params') else v for k, v in x.items()}
        if not isinstance(x, tuple) or not x: return x
        y = tuple(go(z) if isinstance(z, (tuple, list, dict)) else z for z in x)
        if y[0] == 'assign' and y[1] in consts:
            return ('assign', y[1], ('comma', y[2], ('var', y[1])))
        return y
    return go(prog)


def gen_with_pair(rng):
    """(original, variant) JS sources, sloppy mode only: a function with locals, a `with (o)` whose object has
    same-named properties, and nested scopes (block / catch / for-let / switch) inside or around the with body that
    own a let; the VARIANT additionally captures those lets in closures that are never called.  Capturing a
    variable only moves it from the stack to a stash, so both must behave identically (goja vs goja)."""
    r = rng
    names = ['a', 'b', 'g', 'p', 'c']
    nprops = r.sample(names, r.choice([2, 3, 4]))
    decls = []
    localkinds = {}
    for n in ['a', 'b', 'c']:
        k = r.choice(['var', 'var', 'let', 'none'])
        localkinds[n] = k
        if k != 'none':
            decls.append('%s %s = %d;' % (k, n, r.choice([1, 2, 3])))
    has_g = r.random() < 0.7
    if has_g:
        decls.append('function g() { return 7; }')
    local_captured = r.random() < 0.2
    if local_captured and localkinds['a'] != 'none':
        decls.append('var keep = () => a;')
    props = []
    for n in nprops:
        props.append('%s: %s' % (n, 'function () { return 70; }' if n == 'g' else str(r.choice([10, 20, 30]))))
    obj = 'var o = {%s};' % ', '.join(props)

    def accesses(t):
        out = []
        for _ in range(r.choice([2, 3, 4, 5])):
            n = r.choice(['a', 'b', 'c', 'p'])
            if localkinds.get(n, 'var') == 'none' and n not in nprops:
                n = 'p'
            k = r.random()
            if k < 0.3: out.append('log(%s);' % n)
            elif k < 0.45: out.append('%s = %s + %s;' % (n, n, t))
            elif k < 0.55: out.append('%s += 2;' % n)
            elif k < 0.65: out.append('log(%s++);' % n)
            elif k < 0.75: out.append('log(typeof %s);' % n)
            elif k < 0.9 and (has_g or 'g' in nprops): out.append('log(g());')
            else: out.append('log(%s + %s);' % (n, t))
        return ' '.join(out)

    ctr = [0]

    def nest(depth, capture):
        ctr[0] += 1
        t = 't%d' % ctr[0]
        capk = r.choice([0, 1])          # drawn in both variants so that they differ in nothing else
        cap = ''
        if capture:
            cap = ['(() => %s);' % t, 'var h%d = function () { return %s; };' % (ctr[0], t)][capk]
        inner = accesses(t)
        if depth > 0 and r.random() < 0.5:
            inner += ' ' + nest(depth - 1, capture)
        if depth > 0 and r.random() < 0.3:
            inner = 'with (o) { %s }' % inner
        k = r.random()
        if k < 0.35:
            return '{ let %s = %d; %s %s }' % (t, r.choice([1, 5]), cap, inner)
        if k < 0.55:
            return 'try { throw %d; } catch (%s) { %s %s }' % (r.choice([1, 5]), t, cap, inner)
        if k < 0.8:
            return 'for (let %s = 0; %s < %d; %s++) { %s %s }' % (t, t, r.choice([1, 2]), t, cap, inner)
        return 'switch (1) { case 1: let %s = %d; %s %s }' % (t, r.choice([1, 5]), cap, inner)

    state = r.getstate()
    progs = []
    for capture in (False, True):
        r.setstate(state)          # identical choices for both variants
        ctr[0] = 0
        outer_block = r.random() < 0.3
        body = nest(r.choice([0, 1, 2]), capture)
        w = 'with (o) { %s }' % body
        if outer_block:
            ctr[0] += 1
            t = 't%d' % ctr[0]
            w = '{ let %s = 4; %s %s log(%s); }' % (t, ('(() => %s);' % t) if capture else '', w, t)
        tail = ' '.join('log(%s);' % n for n in ['a', 'b', 'c'] if localkinds[n] != 'none') + ' log(p);' + \
               ' '.join(' log(o.%s);' % n for n in nprops if n != 'g')
        src = 'function F(p) { %s %s %s %s return p; } log(F(5));' % (' '.join(decls), obj, w, tail)
        progs.append(src)
    return progs[0], progs[1]


def explicit_undefined_before_jumps(x):
    """`if (c) break;`  ==>  `if (c) { void 0; break; }`   (and the same inside the blocks of an if-branch when only
    empty-valued statements precede the jump): an `if` turns the empty value of a jump into undefined anyway, so
    the explicit `void 0;` keeps the semantics -- and makes goja record that undefined."""
    EMPTYV = ('empty', 'decl', 'fdecl')

    def fix_branch(b):
        if b[0] in ('break', 'continue'):
            return ('block', [('expr', ('un', 'void', ('num', 0))), b])
        if b[0] == 'block':
            out = []
            for st in b[1]:
                if st[0] in ('break', 'continue') and all(o[0] in EMPTYV for o in out):
                    out.append(('expr', ('un', 'void', ('num', 0))))
                out.append(st)
            return ('block', out)
        return b
    if isinstance(x, list):
        return [explicit_undefined_before_jumps(y) for y in x]
    if isinstance(x, dict):
        return {k: explicit_undefined_before_jumps(v) if k in ('body', 'params') else v for k, v in x.items()}
    if not isinstance(x, tuple) or not x:
        return x
    y = tuple(explicit_undefined_before_jumps(z) if isinstance(z, (tuple, list, dict)) else z for z in x)
    if y[0] == 'if' and len(y) == 4:
        return ('if', y[1], fix_branch(y[2]), fix_branch(y[3]))
    return y


def hoist_fdecls_as_var(prog):
    """Twin program: every script-level function declaration `function f(..){..}` becomes `var f = function (..){..};`
    placed at the very top (in order, so a later duplicate still wins).  Same behaviour by hoisting; but the function
    objects are now created by ordinary statements of the code."""
    body = prog['body']
    fds = [st for st in body if st[0] == 'fdecl']
    rest = [st for st in body if st[0] != 'fdecl']
    out = dict(prog)
    out['body'] = [('decl', 'var', [('d', st[1], ('func', dict(st[2])))]) for st in fds] + rest
    return out


def toplevel_lexicals_used_by_fdecls(prog):
    """Names declared by let/const at script level that are referenced (at any depth) inside a script-level
    function declaration."""
    body = prog['body']
    lex = set()
    for st in body:
        if st[0] == 'decl' and st[1] in ('let', 'const'):
            lex.update(d[1] for d in st[2])
    used = set()

    def walk(x):
        if isinstance(x, tuple):
            if x and x[0] in ('var', 'evalvar') and isinstance(x[1], str): used.add(x[1])
            if x and x[0] == 'assign' and isinstance(x[1], str): used.add(x[1])
            if x and x[0] == 'assignop' and isinstance(x[2], str): used.add(x[2])
            if x and x[0] == 'update' and isinstance(x[3], str): used.add(x[3])
            for z in x: walk(z)
        elif isinstance(x, list):
            for z in x: walk(z)
        elif isinstance(x, dict):
            for z in x.values(): walk(z)
    for st in body:
        if st[0] == 'fdecl':
            walk(st[2])
    return lex & used


def log_all_catches(x):
    """Diagnostic twin (its outcome is never compared): every catch clause binds its exception and logs it first,
    so that an exception swallowed by `catch {}` becomes visible in the log."""
    if isinstance(x, list):
        return [log_all_catches(y) for y in x]
    if isinstance(x, dict):
        return {k: log_all_catches(v) if k in ('body', 'params') else v for k, v in x.items()}
    if not isinstance(x, tuple) or not x:
        return x
    y = tuple(log_all_catches(z) if isinstance(z, (tuple, list, dict)) else z for z in x)
    if y[0] == 'try' and len(y) == 7 and y[2]:
        prm = y[3] or 'caught_ex'
        return ('try', y[1], True, prm, [('expr', ('log', ('var', prm)))] + list(y[4]), y[5], y[6])
    return y
